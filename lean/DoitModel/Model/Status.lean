import DoitModel.Model.Basic
/-! # M2 — status model

Mirrors `doit/dependency.py` (`Dependency.get_status`, `save_success`, `remove_success`, `ignore`,
`MD5Checker`, `TimestampChecker`), the part of `doit/runner.py` that decides between skipping, executing,
recording and erasing (`select_task`, `process_task_result`, `_handle_task_error`), the value savers of
`tools.run_once`, `tools.config_changed`, `task.result_dep`, and `cmd_forget` / `cmd_ignore` / `cmd_resetdep`
as history operations on one task.

Ghost state (never read by the modelled code): `shadow t` = what the last successful execution of `t` that is
still recorded saw.  The specification `specUpToDate` reads only the ghost state, the task definition, the
configured checker and the live file system.

Python exceptions that are *not* handled by doit (a `TypeError` when `MD5Checker` meets a state saved by
`TimestampChecker`) are an explicit status `crash` and an absorbing flag `St.crashed`.
Core Lean only. -/
namespace DoitModel.Status

abbrev Path := Nat
abbrev Name := Nat
abbrev Res := Nat

/-- what `os.stat` + the md5 of the content say about a file; `cid` = content id (md5 taken as injective) -/
structure FMeta where
  mtime : Nat
  size : Nat
  cid : Nat
deriving DecidableEq, Repr

abbrev FS := Path → Option FMeta

inductive Checker
  | md5
  | ts
deriving DecidableEq, Repr

/-- a saved per-file state: `(mtime, size, md5)` of `MD5Checker`, the float of `TimestampChecker` -/
inductive FState
  | md5 (m s c : Nat)
  | ts (m : Nat)
deriving DecidableEq, Repr

/-- outcome of `check_modified`; `crash` = `MD5Checker.check_modified` unpacking a float (`TypeError`) -/
inductive Mod
  | same
  | modified
  | crash
deriving DecidableEq, Repr

/-- `MD5Checker.check_modified` / `TimestampChecker.check_modified` -/
def checkModified : Checker → FState → FMeta → Mod
  | .md5, .md5 m s c, cur =>
    if cur.mtime = m then .same
    else if cur.size ≠ s then .modified
    else if c ≠ cur.cid then .modified else .same
  | .md5, .ts _, _ => .crash
  | .ts, .ts m, cur => if cur.mtime ≠ m then .modified else .same
  | .ts, .md5 _ _ _, _ => .modified

/-- the state a checker computes from scratch for a file -/
def stateOf : Checker → FMeta → FState
  | .md5, m => .md5 m.mtime m.size m.cid
  | .ts, m => .ts m.mtime

/-- outcome of `get_state(dep, current_state)`: `keep` = returned `None` (equal-mtime shortcut) -/
inductive GS
  | keep
  | new (st : FState)
  | crash
deriving DecidableEq, Repr

/-- `MD5Checker.get_state` (with `current_state and current_state[0] == timestamp`; a float `0.0` is falsy, any
    other float is subscripted: `TypeError`) / `TimestampChecker.get_state` -/
def getState : Checker → FMeta → Option FState → GS
  | .md5, cur, some (.md5 m _ _) => if m = cur.mtime then .keep else .new (stateOf .md5 cur)
  | .md5, cur, some (.ts m) => if m = 0 then .new (stateOf .md5 cur) else .crash
  | .md5, cur, none => .new (stateOf .md5 cur)
  | .ts, cur, _ => .new (stateOf .ts cur)

/-- normalised `uptodate` items (`Task._init_uptodate`): bool, `None`, `run_once`, `config_changed(d)`,
    `result_dep(t)`, a shell command (exit status 0 = `true`), any other callable returning `True/False/None` -/
inductive Utd
  | const (b : Bool)
  | noneItem
  | runOnce
  | configChanged (d : Nat)
  | resultDep (t : Name)
  | shell (b : Bool)
  | custom (r : Option Bool)
deriving DecidableEq, Repr

/-- the `_values_:` dict as far as the uptodate helpers use it -/
structure Values where
  runOnce : Bool
  cfg : Option Nat
  res : List (Name × Option Res)
deriving DecidableEq, Repr

def Values.empty : Values := ⟨false, none, []⟩

/-- `values.get('_result:t')` (absent and a saved `None` are the same to the caller) -/
def Values.resOf (v : Values) (t : Name) : Option Res := (alookup t v.res).bind id

structure TaskDef where
  deps : List Path
  targets : List Path
  uptodate : List Utd
deriving DecidableEq, Repr

def TaskDef.empty : TaskDef := ⟨[], [], []⟩

/-- one task's DB record -/
structure Rcd where
  values : Option Values
  result : Option Res
  checker : Option Checker
  deps : Option (List Path)
  fstate : Path → Option FState
  ign : Bool

def Rcd.empty : Rcd := ⟨none, none, none, none, fun _ => none, false⟩

/-- `Dependency.get_values` -/
def Rcd.getValues (r : Rcd) : Values := r.values.getD Values.empty

def sameSet (a b : List Path) : Bool := a.all (· ∈ b) && b.all (· ∈ a)

/-- evaluation of one uptodate item; `none` = "not really calculated, ignored".  `vals` are the task's saved
    values, `resOf t` the saved `result:` of task `t`. -/
def evalUtd (vals : Values) (resOf : Name → Option Res) : Utd → Option Bool
  | .const b => some b
  | .noneItem => none
  | .runOnce => some vals.runOnce
  | .configChanged d => some (vals.cfg == some d)
  | .resultDep t =>
    match vals.resOf t with
    | none => some false
    | some v => some (resOf t == some v)
  | .shell b => some b
  | .custom r => r

def utdFalse (vals : Values) (resOf : Name → Option Res) (items : List Utd) : Bool :=
  items.any fun u => evalUtd vals resOf u == some false

def utdEvaluated (vals : Values) (resOf : Name → Option Res) (items : List Utd) : Bool :=
  items.any fun u => (evalUtd vals resOf u).isSome

inductive Status
  | upToDate
  | run
  | error
  | crash
deriving DecidableEq, Repr

/-- `previous_set is not None and dep not in previous_set`: the dependency is not in the saved `deps:` list (a stale
    per-file key of an earlier definition may still exist); `check_modified` is then not even called -/
def notSaved (r : Rcd) (p : Path) : Bool :=
  match r.deps with
  | none => false
  | some prev => !decide (p ∈ prev)

/-- verdict on one existing dependency given the saved state: `state is None or (previous_set is not None and dep not
    in previous_set) or check_modified(...)` -/
def depVerdict (c : Checker) (r : Rcd) (cur : FMeta) (p : Path) : Mod :=
  match r.fstate p with
  | none => .modified
  | some st => if notSaved r p then .modified else checkModified c st cur

/-- the loop of the tree before the fix commit faa294a (`state is None or check_modified(...)`): a stale per-file key
    of a dependency that is not in the saved `deps:` list was compared (kept for pinned counterexamples only) -/
def depIsPinned (v : Mod) (c : Checker) (r : Rcd) (fs : FS) (p : Path) : Bool :=
  match fs p, r.fstate p with
  | none, _ => false
  | some _, none => v == .modified
  | some cur, some st => checkModified c st cur == v

def depMissing (fs : FS) (p : Path) : Bool := (fs p).isNone

def depIs (v : Mod) (c : Checker) (r : Rcd) (fs : FS) (p : Path) : Bool :=
  match fs p with
  | none => false
  | some cur => depVerdict c r cur p == v

/-- the loop over `task.file_dep` of `get_status` (`get_log=False`).  `task.file_dep` is a set: when a missing
    dependency and a state of the wrong shape are both present, which one is met first is not determined by the
    code; the model reports `error` (the driver flags such cases as ambiguous). -/
def fileVerdict (c : Checker) (r : Rcd) (fs : FS) (deps : List Path) : Status :=
  if deps.any (depMissing fs) then .error
  else if deps.any (depIs .crash c r fs) then .crash
  else if deps.any (depIs .modified c r fs) then .run
  else .upToDate

def checkerChanged (c : Checker) (r : Rcd) : Bool :=
  match r.checker with
  | none => false
  | some c' => c' ≠ c

/-- `fixed = true`: `previous_set is not None and previous_set != task.file_dep` (the tree as repaired);
    `fixed = false`: the pinned `previous_set and previous_set != task.file_dep`. -/
def depsChanged (fixed : Bool) (r : Rcd) (deps : List Path) : Bool :=
  match r.deps with
  | none => false
  | some prev => if fixed then !sameSet prev deps else (!prev.isEmpty && !sameSet prev deps)

/-- the pinned tree's `previous_set` is `None` also when the saved `deps:` is empty -/
def notSavedPinned (r : Rcd) (p : Path) : Bool :=
  match r.deps with
  | none => false
  | some prev => !prev.isEmpty && !decide (p ∈ prev)

def depSamePinned (c : Checker) (r : Rcd) (fs : FS) (p : Path) : Bool :=
  match fs p, r.fstate p with
  | some cur, some st => !notSavedPinned r p && checkModified c st cur == .same
  | _, _ => false

/-- the exits of `get_status` that come before the record is consulted for file state -/
def earlyRun (d : TaskDef) (vals : Values) (resOf : Name → Option Res) (fs : FS) : Bool :=
  utdFalse vals resOf d.uptodate
  || (d.deps.isEmpty && !utdEvaluated vals resOf d.uptodate)
  || d.targets.any (depMissing fs)

/-- `Dependency.get_status(task, tasks, get_log=False).status`, order of checks and early exits as in the code -/
def statusOf (fixed : Bool) (c : Checker) (d : TaskDef) (r : Rcd) (fs : FS) (resOf : Name → Option Res) : Status :=
  if earlyRun d r.getValues resOf fs then .run
  else if checkerChanged c r then .run
  else
    match fileVerdict c r fs d.deps with
    | .error => .error
    | .crash => .crash
    | .run => .run
    | .upToDate => if depsChanged fixed r d.deps then .run else .upToDate

/-- "`get_status` answers up-to-date" with `previous_set = set(previous) if previous else None` (the tree before the
    fix commit 18776b0; kept only for the counterexample `C03_pinned_counterexample`) -/
def pinnedUpToDate (c : Checker) (d : TaskDef) (r : Rcd) (fs : FS) (resOf : Name → Option Res) : Bool :=
  !earlyRun d r.getValues resOf fs && !checkerChanged c r && !depsChanged false r d.deps
    && d.deps.all (depSamePinned c r fs)

/-- `get_status` removes the record when the checker changed (and no earlier exit was taken) -/
def removesRecord (c : Checker) (d : TaskDef) (r : Rcd) (fs : FS) (resOf : Name → Option Res) : Bool :=
  !earlyRun d r.getValues resOf fs && checkerChanged c r

/-- the record the file loop of `get_status(get_log=True)` reads: already dropped when the checker changed -/
def logRcd (c : Checker) (r : Rcd) : Rcd := if checkerChanged c r then Rcd.empty else r

/-- `Dependency.get_status(task, tasks, get_log=True).status` (`doit info`): no early exit, every check runs, but
    (fix commit e6acbba) the status is the one given by the FIRST reason found -- the point where `get_log=False`
    returns -- so it is the decision `run` takes.  The only difference left: the loop over `file_dep` is always
    executed (on the record as it is after a removal on a checker change), so a state of the wrong shape raises even
    where `get_log=False` would have returned earlier. -/
def statusLog (c : Checker) (d : TaskDef) (r : Rcd) (fs : FS) (resOf : Name → Option Res) : Status :=
  if d.deps.any (depIs .crash c (logRcd c r) fs) then .crash
  else if earlyRun d r.getValues resOf fs || checkerChanged c r then .run
  else if d.deps.any (depMissing fs) then .error
  else if d.deps.any (depIs .modified c r fs) || depsChanged true r d.deps then .run
  else .upToDate

/-- what the value savers registered by the uptodate items put into `task.values` (`save_extra_values`);
    `config_changed` savers run in item order, the last digest wins -/
def cfgOf : List Utd → Option Nat
  | [] => none
  | .configChanged d :: rest => (cfgOf rest).orElse fun _ => some d
  | _ :: rest => cfgOf rest

def resSaved (resOf : Name → Option Res) : List Utd → List (Name × Option Res)
  | [] => []
  | .resultDep t :: rest => (t, resOf t) :: resSaved resOf rest
  | _ :: rest => resSaved resOf rest

def newValues (d : TaskDef) (resOf : Name → Option Res) : Values :=
  ⟨d.uptodate.any (· == .runOnce), cfgOf d.uptodate, resSaved resOf d.uptodate⟩

inductive SaveOut
  | ok (r : Rcd)
  | missing
  | crash

def saveCrashAt (c : Checker) (r : Rcd) (fs : FS) (p : Path) : Bool :=
  match fs p with
  | none => false
  | some cur => getState c cur (r.fstate p) == .crash

def savedState (c : Checker) (r : Rcd) (fs : FS) (p : Path) : Option FState :=
  match fs p with
  | none => r.fstate p
  | some cur =>
    match getState c cur (r.fstate p) with
    | .keep => r.fstate p
    | .new st => some st
    | .crash => r.fstate p

/-- `Dependency.save_success`: values, result (only when there is one), checker, per-file states, `deps:`.
    `os.path.getmtime` of a missing dependency raises `FileNotFoundError` (handled by the runner). -/
def saveSuccess (c : Checker) (deps : List Path) (r : Rcd) (fs : FS) (vals : Values) (res : Option Res) : SaveOut :=
  if deps.any (depMissing fs) then .missing
  else if deps.any (saveCrashAt c r fs) then .crash
  else .ok { values := some vals
             result := res.orElse fun _ => r.result
             checker := some c
             deps := some deps
             fstate := fun p => if p ∈ deps then savedState c r fs p else r.fstate p
             ign := r.ign }

/-- ghost: one successful execution (or `reset-dep`) as the specification remembers it -/
structure Exec where
  deps : List Path
  saw : FS
  values : Values
  result : Option Res
  checker : Checker

/-- "unmodified by the rule of the configured checker, relative to what the last successful execution saw" -/
def unmodBy (c : Checker) (saw now : FMeta) : Bool := checkModified c (stateOf c saw) now == .same

def depUnmod (c : Checker) (e : Exec) (fs : FS) (p : Path) : Bool :=
  match fs p, e.saw p with
  | some now, some saw => unmodBy c saw now
  | _, _ => false

def lastValues (last : Option Exec) : Values :=
  match last with
  | none => Values.empty
  | some e => e.values

/-- the statement of C03/C04 for one task: never looks at a record.  `resOf t` = result of the last recorded
    successful execution of `t`. -/
def specUpToDate (c : Checker) (d : TaskDef) (last : Option Exec) (fs : FS) (resOf : Name → Option Res) : Bool :=
  !utdFalse (lastValues last) resOf d.uptodate
  && (!d.deps.isEmpty || utdEvaluated (lastValues last) resOf d.uptodate)
  && d.targets.all (fun p => (fs p).isSome)
  && match last with
     | none => d.deps.isEmpty
     | some e => e.checker == c && sameSet e.deps d.deps && d.deps.all (depUnmod c e fs)

/-! ## histories -/

structure St where
  defs : Name → TaskDef
  rcd : Name → Rcd
  fs : FS
  shadow : Name → Option Exec
  checker : Checker
  clock : Nat
  crashed : Bool

def St.init : St := ⟨fun _ => TaskDef.empty, fun _ => Rcd.empty, fun _ => none, fun _ => none, .md5, 0, false⟩

def St.resOf (s : St) (t : Name) : Option Res := (s.rcd t).result
def St.specRes (s : St) (t : Name) : Option Res := (s.shadow t).bind (·.result)

def St.status (fixed : Bool) (s : St) (t : Name) : Status :=
  statusOf fixed s.checker (s.defs t) (s.rcd t) s.fs s.resOf

def St.spec (s : St) (t : Name) : Bool :=
  specUpToDate s.checker (s.defs t) (s.shadow t) s.fs s.specRes

/-- write `p` with new content at a fresh mtime -/
def writeFile (s : St) (p : Path) (size cid : Nat) : St :=
  { s with fs := fun q => if q = p then some ⟨s.clock + 1, size, cid⟩ else s.fs q, clock := s.clock + 1 }

def touchMeta (clock : Nat) : Option FMeta → Option FMeta
  | none => none
  | some m => some { m with mtime := clock + 1 }

def keepMtime (size cid : Nat) : Option FMeta → Option FMeta
  | none => none
  | some m => some ⟨m.mtime, size, cid⟩

/-- the record of `t` is removed from the DB (failure, `forget`, checker change); nothing is recorded any more -/
def erase (s : St) (t : Name) : St :=
  { s with rcd := fun k => if k = t then Rcd.empty else s.rcd k
           shadow := fun k => if k = t then none else s.shadow k }

def commit (s : St) (t : Name) (r : Rcd) (e : Exec) : St :=
  { s with rcd := fun k => if k = t then r else s.rcd k
           shadow := fun k => if k = t then some e else s.shadow k }

def applyWrites (s : St) : List (Path × Nat × Nat) → St
  | [] => s
  | (p, sz, c) :: rest => applyWrites (writeFile s p sz c) rest

/-- `process_task_result` after the action ran.  An exception of `save_success` is a task failure: `FileNotFoundError`
    (a dependency vanished) and, since the fix commit 8fa62ea, `TypeError` / `ValueError` -- which includes the
    `TypeError` of `MD5Checker.get_state` on a state saved by `TimestampChecker` (`SaveOut.crash`): the record is
    erased, the run goes on.  (`reset-dep` calls `save_success` without that handler: there it still is a crash.) -/
def finish (s : St) (t : Name) (ok : Bool) (res : Option Res) : St :=
  if ok then
    match saveSuccess s.checker (s.defs t).deps (s.rcd t) s.fs (newValues (s.defs t) s.resOf) res with
    | .ok r => commit s t r ⟨(s.defs t).deps, s.fs, newValues (s.defs t) s.resOf, r.result, s.checker⟩
    | .missing => erase s t
    | .crash => erase s t
  else erase s t

def peek (s : St) (t : Name) : St :=
  if removesRecord s.checker (s.defs t) (s.rcd t) s.fs s.resOf then erase s t else s

def St.statusLog (s : St) (t : Name) : Status :=
  Status.statusLog s.checker (s.defs t) (s.rcd t) s.fs s.resOf

/-- `doit info t`: an ignored task is shown as such and `get_status` is not called; otherwise
    `get_status(get_log=True)`: the record is dropped whenever the checker changed -/
def info (s : St) (t : Name) : St :=
  if (s.rcd t).ign then s
  else if s.statusLog t == .crash then { s with crashed := true }
  else if checkerChanged s.checker (s.rcd t) then erase s t else s

/-- `Runner.select_task` + `execute_task` + `process_task_result` for one task -/
def runTask (fixed : Bool) (s : St) (t : Name) (ok always : Bool) (writes : List (Path × Nat × Nat))
    (res : Option Res) : St :=
  if (s.rcd t).ign then s
  else
    match s.status fixed t with
    | .crash => { s with crashed := true }
    | .error => erase s t
    | .upToDate => if always then finish (applyWrites s writes) t ok res else s
    | .run => finish (applyWrites (peek s t) writes) t ok res

/-- `doit reset-dep t` for one task as it was before the fix commit 017f29e: when `get_status` drops the whole record
    on a checker change the ignore mark goes with it (kept because C13's pinned counterexample is stated over it;
    the command of the present tree is `resetDepKeep`) -/
def resetDep (fixed : Bool) (s : St) (t : Name) : St :=
  if (s.defs t).deps.any (depMissing s.fs) then s
  else
    match s.status fixed t with
    | .crash => { s with crashed := true }
    | .error => s
    | .upToDate => s
    | .run =>
      match saveSuccess s.checker (s.defs t).deps ((peek s t).rcd t) s.fs (s.rcd t).getValues (s.rcd t).result with
      | .ok r => commit s t r ⟨(s.defs t).deps, s.fs, (s.rcd t).getValues, r.result, s.checker⟩
      | .missing => s
      | .crash => { s with crashed := true }

/-- `Dependency.ignore` -/
def markIgn (s : St) (t : Name) : St :=
  { s with rcd := fun k => if k = t then { s.rcd t with ign := true } else s.rcd k }

/-- `doit reset-dep t` of the present tree: `ignored = status_is_ignore(task)` is read first and, if set, the mark is
    put back at the end (`if ignored: self.dep_manager.ignore(task)`) -/
def resetDepKeep (fixed : Bool) (s : St) (t : Name) : St :=
  if (s.rcd t).ign then markIgn (resetDep fixed s t) t else resetDep fixed s t

inductive Op
  | edit (p : Path) (size cid : Nat)
  | touch (p : Path)
  | delete (p : Path)
  /-- change the content but keep the mtime: outside the checker's documented premise (`Faithful` excludes it) -/
  | editKeep (p : Path) (size cid : Nat)
  | redefine (t : Name) (d : TaskDef)
  | run (t : Name) (ok always : Bool) (writes : List (Path × Nat × Nat)) (res : Option Res)
  /-- the runner fails the task before its status is computed (`UnmetDependency`) -/
  | unmet (t : Name)
  | forget (t : Name)
  | ignore (t : Name)
  | resetDep (t : Name)
  /-- a command that only calls `get_status` (`list -s`).  These commands never `close()` the DB: the removal of
      the record on a checker change is persisted only by a backend whose `remove` is write-through (dbm); for
      json / sqlite3 the command is no operation at all on the stored state. -/
  | peek (t : Name)
  /-- `doit info t` (`get_log=True`) -/
  | info (t : Name)
  | switchChecker (c : Checker)

def step (fixed : Bool) (s : St) (op : Op) : St :=
  if s.crashed then s
  else
    match op with
    | .edit p sz c => writeFile s p sz c
    | .touch p => { s with fs := fun q => if q = p then touchMeta s.clock (s.fs p) else s.fs q, clock := s.clock + 1 }
    | .delete p => { s with fs := fun q => if q = p then none else s.fs q }
    | .editKeep p sz c => { s with fs := fun q => if q = p then keepMtime sz c (s.fs p) else s.fs q }
    | .redefine t d => { s with defs := fun k => if k = t then d else s.defs k }
    | .run t ok always writes res => runTask fixed s t ok always writes res
    | .unmet t => erase s t
    | .forget t => erase s t
    | .ignore t => { s with rcd := fun k => if k = t then { s.rcd t with ign := true } else s.rcd k }
    | .resetDep t => resetDepKeep fixed s t
    | .peek t => if s.status fixed t == .crash then { s with crashed := true } else peek s t
    | .info t => info s t
    | .switchChecker c => { s with checker := c }

def runHist (fixed : Bool) (h : List Op) : St := h.foldl (step fixed) St.init

def Op.faithful : Op → Bool
  | .editKeep _ _ _ => false
  | _ => true

/-- the checker's documented premise: a file's content never changes while its mtime stays the same -/
def Faithful (h : List Op) : Bool := h.all Op.faithful

/-! ## the monitor's ghost machine

The same ghost evolution as in `step`, but driven by what an *implementation* was observed to do (skipped,
executed and reported success / failure, printed `processed` for reset-dep), never by a record: the oracle of the
property monitors (P) of C03/C04.  `St.rcd` is not read by anything below. -/

/-- would `get_status` have dropped the record (checker changed, no earlier exit), judged from the ghost state -/
def ghostRemoves (s : St) (t : Name) : Bool :=
  match s.shadow t with
  | none => false
  | some e => !earlyRun (s.defs t) e.values s.specRes s.fs && e.checker != s.checker

def ghostPeek (s : St) (t : Name) : St := if ghostRemoves s t then erase s t else s

/-- the implementation executed `t` (after its status check) and reported success (`ok`) or failure -/
def monExec (s : St) (t : Name) (ok : Bool) (writes : List (Path × Nat × Nat)) (res : Option Res) : St :=
  if ok then
    commit (applyWrites (ghostPeek s t) writes) t Rcd.empty
      ⟨(s.defs t).deps, (applyWrites s writes).fs, newValues (s.defs t) s.specRes,
       res.orElse fun _ => (ghostPeek s t).specRes t, s.checker⟩
  else erase (applyWrites s writes) t

/-- `doit reset-dep` printed `processed t` -/
def monReset (s : St) (t : Name) : St :=
  commit s t Rcd.empty ⟨(s.defs t).deps, s.fs, lastValues (s.shadow t), s.specRes t, s.checker⟩

end DoitModel.Status
