import DoitModel.Model.RunMon
/-! # C09 — monitor of "every run terminates; cycles are diagnosed, never hung on", and the *pinned* dispatcher

Two things, both extensions of the M1 run model (`Model/Run.lean`, read-only here):

* the decidable statement of C09 over what the harness observes of one run of the implementation (trace, exit code,
  error class, "the watchdog fired / no thread was enabled / a worker was left behind");
* `dtickPinned` / `serialStepPinned` / `mainStepPinned`: the dispatcher as it was *before* the repair of F-C09a (no
  `dispatched` set, no `_check_deadlock`), kept only for the counterexample theorems of `Props/C09.lean`.

Core Lean only (linked into the driver). -/
namespace DoitModel.Run

/-! ### the dependency graph as one run determined it -/

/-- the calc_deps of `t` as this run determined them: listed, or delivered by a calc_dep that is executed / up-to-date
    (`calcRes`) or that was STARTED and then reported failed (`calcResFail`: `_process_calc_dep_results` reads
    `task.values` whatever the `run_status`; M1 `deliverF`) — `resAt` of `Model/RunMon.lean` -/
def calcsRun (inp : RunInput) (nTasks : Nat) (tr : List Ev) (t : Name) : List Name :=
  calcsAtQ inp tr nTasks (inp.calcDep t)

/-- what the calc_deps of `t` delivered in `tr` as task_dep / file_dep owners (good and failed-after-start ones) -/
def deliveredAt (inp : RunInput) (nTasks : Nat) (tr : List Ev) (t : Name) : List Name :=
  (calcsRun inp nTasks tr t).flatMap fun c => (resAt inp tr c).tasks ++ (resAt inp tr c).files

/-- the dependency edges of `t` in the closure graph of this run: task_dep, calc_dep (static and delivered), what
    calc_deps delivered — the executed / up-to-date ones and those that failed after they were started —, and — only
    when `select_task` chose `t` for execution — its setup-tasks -/
def edgesAt (inp : RunInput) (nTasks : Nat) (tr : List Ev) (t : Name) : List Name :=
  inp.taskDep t ++ calcsRun inp nTasks tr t ++ deliveredAt inp nTasks tr t ++
    (if ranFirst inp nTasks tr t then inp.setup t else [])

/-- the graph of the earlier rounds, which counted the deliveries of executed / up-to-date calc_deps only (kept for the
    statement "a cycle that exists ONLY through a failed delivery", `Props/C09.lean`) -/
def edgesAtGood (inp : RunInput) (nTasks : Nat) (tr : List Ev) (t : Name) : List Name :=
  inp.taskDep t ++ calcsAt inp tr nTasks (inp.calcDep t) ++
    (((calcsAt inp tr nTasks (inp.calcDep t)).filter (finishedIn tr)).flatMap fun c =>
      (inp.calcRes c).tasks ++ (inp.calcRes c).files) ++
    (if ranFirst inp nTasks tr t then inp.setup t else [])

/-- close `acc` under `succ`, `fuel` rounds -/
def reachIterC09 (succ : Name → List Name) : Nat → List Name → List Name
  | 0, acc => acc
  | fuel + 1, acc => reachIterC09 succ fuel (addNew acc (acc.flatMap succ))

/-- `t` lies on a dependency cycle of the graph `succ`: it is reached from its own successors (work-list search, every
    task reached is expanded once; the fuel suffices when the task names are indices below `nTasks`) -/
def onCycleOf (succ : Name → List Name) (nTasks : Nat) (t : Name) : Bool :=
  t ∈ closureGo succ (nTasks + (succ t).length + 1) (addNew [] (succ t)) (addNew [] (succ t))

/-- the round-based search of the earlier waves (`nTasks` rounds over the whole set: degree 4 in the number of tasks) -/
def onCycleSlow (succ : Name → List Name) (nTasks : Nat) (t : Name) : Bool :=
  t ∈ reachIterC09 succ nTasks (addNew [] (succ t))

/-- `t` lies on a dependency cycle of the closure graph -/
def onCycle (inp : RunInput) (nTasks : Nat) (tr : List Ev) (t : Name) : Bool :=
  onCycleOf (edgesAt inp nTasks tr) nTasks t

/-- the closure of the selection under `edgesAt` (work-list: every member is expanded once) -/
def closureC09 (inp : RunInput) (nTasks : Nat) (tr : List Ev) : List Name :=
  closureGo (edgesAt inp nTasks tr) (nTasks + inp.sel.length + 1) (addNew [] inp.sel) (addNew [] inp.sel)

/-- the members of the closure of the selection that lie on a cycle -/
def cycleTasks (inp : RunInput) (nTasks : Nat) (tr : List Ev) : List Name :=
  (closureC09 inp nTasks tr).filter (onCycle inp nTasks tr)

/-- the same over the graph without the deliveries of failed calc_deps -/
def cycleTasksGood (inp : RunInput) (nTasks : Nat) (tr : List Ev) : List Name :=
  (closureGo (edgesAtGood inp nTasks tr) (nTasks + inp.sel.length + 1) (addNew [] inp.sel) (addNew [] inp.sel)).filter
    (onCycleOf (edgesAtGood inp nTasks tr) nTasks)

/-! ### the same cycle search over a table of the edges (what the driver runs: `edgesAt` is computed once per task) -/

def edgeTable (succ : Name → List Name) (n : Nat) : Array (List Name) := Array.ofFn (n := n) fun i => succ i.val

def lookupSucc (tbl : Array (List Name)) (succ : Name → List Name) (x : Name) : List Name :=
  if h : x < tbl.size then tbl[x] else succ x

/-- `cycleTasks` with the edges of the tasks `0 … nTasks-1` tabulated (equal to it: `Proofs/C09Cycle.lean`
    `cycleTasksFast_eq`) -/
def cycleTasksFast (inp : RunInput) (nTasks : Nat) (tr : List Ev) : List Name :=
  let tbl := edgeTable (edgesAt inp nTasks tr) nTasks
  (closureGo (lookupSucc tbl (edgesAt inp nTasks tr)) (nTasks + inp.sel.length + 1) (addNew [] inp.sel)
    (addNew [] inp.sel)).filter (onCycleOf (lookupSucc tbl (edgesAt inp nTasks tr)) nTasks)

/-! ### observables of one run and the four clauses of C09 -/

structure C09Obs where
  exit : Nat            -- return value of `DoitMain.run` (99 = none: the run did not return)
  errCyclic : Bool      -- `ERROR: Cyclic/recursive dependencies …` was printed
  errWait : Bool        -- the run died of an internal AttributeError / AssertionError (serial `"hold on"`, the
                        -- `assert len(proc_list) > free_proc` of MRunner: "waiting with nothing executing")
  hung : Bool           -- watchdog fired / no thread enabled under the scheduler / a worker process was left blocked
deriving Repr

def isFailureEv : Ev → Bool
  | .failure _ _ => true
  | _ => false

/-- a failure without `--continue` stops the run before the dispatcher has walked the whole closure -/
def cutShort (inp : RunInput) (tr : List Ev) : Bool := !inp.continue_ && tr.any isFailureEv

def startedIn (tr : List Ev) (t : Name) : Bool :=
  tr.any fun e => match e with
    | .start n _ => n = t
    | .execute n => n = t
    | _ => false

/-- clause 1: the run terminates -/
def monC09Terminates (o : C09Obs) : Bool := !o.hung

/-- clause 2 given the tasks found on a cycle -/
def monC09DiagnosedOn (cyc : List Name) (inp : RunInput) (tr : List Ev) (o : C09Obs) : Bool :=
  cyc.isEmpty || cutShort inp tr || (o.exit == 3 && o.errCyclic)

/-- clause 2: a cycle in the closure is reported as a cyclic-dependency error with exit code 3 -/
def monC09Diagnosed (inp : RunInput) (nTasks : Nat) (tr : List Ev) (o : C09Obs) : Bool :=
  monC09DiagnosedOn (cycleTasks inp nTasks tr) inp tr o

def monC09NoCycleTaskRunOn (cyc : List Name) (tr : List Ev) : Bool := cyc.all fun t => !startedIn tr t

/-- clause 3: no task that lies on a cycle is ever executed -/
def monC09NoCycleTaskRun (inp : RunInput) (nTasks : Nat) (tr : List Ev) : Bool :=
  monC09NoCycleTaskRunOn (cycleTasks inp nTasks tr) tr

def monC09NoFalseCycleOn (cyc : List Name) (o : C09Obs) : Bool :=
  !cyc.isEmpty || (!o.errCyclic && !o.errWait && !o.hung)

/-- clause 4: without a cycle no cycle error is raised and the run never waits with nothing executing -/
def monC09NoFalseCycle (inp : RunInput) (nTasks : Nat) (tr : List Ev) (o : C09Obs) : Bool :=
  monC09NoFalseCycleOn (cycleTasks inp nTasks tr) o

def monC09 (inp : RunInput) (nTasks : Nat) (tr : List Ev) (o : C09Obs) : Bool :=
  monC09Terminates o && monC09Diagnosed inp nTasks tr o && monC09NoCycleTaskRun inp nTasks tr &&
  monC09NoFalseCycle inp nTasks tr o

/-- the four clauses over one shared list of cycle tasks (`monC09On (cycleTasks …) = monC09 …` by definition) -/
def monC09On (cyc : List Name) (inp : RunInput) (tr : List Ev) (o : C09Obs) : Bool :=
  monC09Terminates o && monC09DiagnosedOn cyc inp tr o && monC09NoCycleTaskRunOn cyc tr && monC09NoFalseCycleOn cyc o

/-! ### the pinned dispatcher (before `fix: report cyclic dependencies not detected while creating nodes`) -/

/-- `_dispatcher_generator` without `_check_deadlock`: whenever every remaining node waits it answers `"hold on"` -/
def dtickPinned (inp : RunInput) (s : Sys) (perm : List Name) : Option Sys :=
  match s.cur, s.ready, s.toRun with
  | none, [], [] =>
    if s.waiting ≠ [] then some { s with susp := some .holdOn } else some { s with susp := some .stopIter }
  | _, _, _ => dtick inp s perm

/-- `Runner.run_tasks` over the pinned dispatcher (the same text as `serialStep`, with `dtickPinned`) -/
def serialStepPinned (inp : RunInput) (s : Sys) (perm : List Name) : Option Sys :=
  match s.rpc, s.susp with
  | .sWait, none => dtickPinned inp s perm
  | _, _ => serialStep inp s perm

/-- `MRunner.run_tasks` / `get_next_job` over the pinned dispatcher -/
def mainStepPinned (inp : RunInput) (s : Sys) (perm : List Name) : Option Sys :=
  match s.rpc, s.susp with
  | .gWait _, none => dtickPinned inp s perm
  | _, _ => mainStep inp s perm

def stepPinned (inp : RunInput) (s : Sys) : Choice → Option Sys
  | .main perm => if inp.runner = .serial then serialStepPinned inp s perm else mainStepPinned inp s perm
  | .take w => if inp.runner = .serial then none else takeStep inp s w
  | .done w => if inp.runner = .serial then none else doneStep s w

def runPinned (inp : RunInput) (s : Sys) : List Choice → Option Sys
  | [] => some s
  | c :: cs => match stepPinned inp s c with | some s' => runPinned inp s' cs | none => none

/-- the first enabled worker move among workers `k-1 … 0` (job pick-ups before completions) -/
def workerMovePinned (inp : RunInput) (s : Sys) : Nat → Option (Choice × Sys)
  | 0 => none
  | k + 1 =>
    match stepPinned inp s (.take k) with
    | some s' => some (.take k, s')
    | none =>
      match stepPinned inp s (.done k) with
      | some s' => some (.done k, s')
      | none => workerMovePinned inp s k

/-- default schedule over the pinned dispatcher: main thread first, then a worker; sets in stored order -/
def autoRunPinned (inp : RunInput) : Nat → Sys → Sys × List Choice
  | 0, s => (s, [])
  | fuel + 1, s =>
    match stepPinned inp s (.main (defaultPerm s)) with
    | some s' => ((autoRunPinned inp fuel s').1, .main (defaultPerm s) :: (autoRunPinned inp fuel s').2)
    | none =>
      match workerMovePinned inp s s.nStarted with
      | some (c, s') => ((autoRunPinned inp fuel s').1, c :: (autoRunPinned inp fuel s').2)
      | none => (s, [])

/-- the main thread is blocked in `result_q.get()` for ever: nothing in the result queue, no worker executing a task,
    no task in the job queue -/
def hungState (s : Sys) (nWorkers : Nat) : Bool :=
  s.rpc == .pTop && s.procCount != 0 && s.resQ.isEmpty &&
  (List.range nWorkers).all (fun w => match s.workers w with | .running _ => false | _ => true) &&
  s.jobQ.all (fun j => match j with | .task _ => false | _ => true)

end DoitModel.Run
