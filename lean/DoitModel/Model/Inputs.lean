import DoitModel.Model.Status
/-! # M2/M5 extension — what an executing task's actions are handed (C10)

Mirrors, on top of the status model `Model/Status.lean`:

* every assignment to `task.dep_changed` in `Dependency.get_status(get_log=False)`, in the order of the code and with
  its early returns (`depChangedOf`);
* `BaseAction._prepare_kwargs` meta arguments / `CmdAction.expand_action` substitutions `changed`, `dependencies`,
  `targets` (`kwargsOf`);
* `Runner.select_task` and `Runner.process_task_result` as *two* history steps (`IOp.select`, `IOp.complete`): the
  setup-tasks of a task (the implicit ones created by `getargs` included) are processed between its status check and
  its execution, so the value savers of `result_dep` read the DB at completion time;
* `Dependency.save_success` / `remove_success` / `get_values` / `get_value` on the `_values_:` entry and
  `Runner._get_task_args` (single source, group source → dict over the sub-tasks) (`vstep`, `getValue`, `getArg`);
* `Task.update_deps` for the `file_dep` delivered by a calc_dep task (`TaskDef.withCalc`).

Core Lean only. -/
namespace DoitModel.Inputs
open DoitModel.Status

/-! ## `changed`, `dependencies`, `targets` -/

/-- `task.dep_changed` as left by `get_status(task, tasks, get_log=False)` when it does not end in `error`:
    1. `task.dep_changed = []`;
    2. an uptodate item is false: `return` (the list stays empty — finding F-C10);
    3. no file_dep and no evaluated item: `return`;
    4. a target is missing: `task.dep_changed = list(task.file_dep)`, `return`;
    5. the checker changed: `task.dep_changed = list(task.file_dep)`, `return`;
    6. the loop over `file_dep`: no saved state for the file, or `check_modified` says modified. -/
def depChangedOf (c : Checker) (d : TaskDef) (r : Rcd) (fs : FS) (resOf : Name → Option Res) : List Path :=
  if utdFalse r.getValues resOf d.uptodate then []
  else if d.deps.isEmpty && !utdEvaluated r.getValues resOf d.uptodate then []
  else if d.targets.any (depMissing fs) then d.deps
  else if checkerChanged c r then d.deps
  else d.deps.filter (depIs .modified c r fs)

/-- `dep not in previous_set`: the saved `deps:` list exists and does not contain the file -/
def depNotPrev (r : Rcd) (p : Path) : Bool :=
  match r.deps with
  | none => false
  | some prev => !decide (p ∈ prev)

/-- `dep_changed` with the repair proposed in findings/pending/C10-readded-dep-stale-state.md (NOT the code of the
    present tree): in the loop a dependency that is not in the saved `deps:` list counts as changed whatever stale
    state the record still holds for it -/
def depChangedRepaired (c : Checker) (d : TaskDef) (r : Rcd) (fs : FS) (resOf : Name → Option Res) : List Path :=
  if utdFalse r.getValues resOf d.uptodate then []
  else if d.deps.isEmpty && !utdEvaluated r.getValues resOf d.uptodate then []
  else if d.targets.any (depMissing fs) then d.deps
  else if checkerChanged c r then d.deps
  else d.deps.filter fun p => depNotPrev r p || depIs .modified c r fs p

/-- the keyword arguments / `%(…)s` substitutions doit derives from the task object -/
structure Kw where
  changed : List Path
  dependencies : List Path
  targets : List Path
deriving DecidableEq, Repr

/-- `_prepare_kwargs`: `list(task.dep_changed)`, `list(task.file_dep)`, `list(task.targets)` -/
def kwargsOf (s : St) (t : Name) : Kw :=
  ⟨depChangedOf s.checker (s.defs t) (s.rcd t) s.fs s.resOf, (s.defs t).deps, (s.defs t).targets⟩

def kwargsRepaired (s : St) (t : Name) : Kw :=
  ⟨depChangedRepaired s.checker (s.defs t) (s.rcd t) s.fs s.resOf, (s.defs t).deps, (s.defs t).targets⟩

/-- the runner executes `t` after this status check (`select_task`: `run`, or `up-to-date` under `--always-execute`) -/
def executes (s : St) (t : Name) (always : Bool) : Bool :=
  s.status true t == .run || (always && s.status true t == .upToDate)

/-- specification (reads the ghost state only): the file dependency `p` "differs from what the task's last
    successful execution saw" — no recorded execution, not a dependency of that execution, or modified by the rule
    of the configured checker relative to what that execution saw -/
def needs (c : Checker) (last : Option Exec) (fs : FS) (p : Path) : Bool :=
  match last with
  | none => true
  | some e => !decide (p ∈ e.deps) || !depUnmod c e fs p

/-- the part of `needs` that the code honours on every path but the false-uptodate exit: dependencies the last
    recorded execution had (or any dependency when nothing is recorded) -/
def needsSeen (c : Checker) (last : Option Exec) (fs : FS) (p : Path) : Bool :=
  match last with
  | none => true
  | some e => decide (p ∈ e.deps) && !depUnmod c e fs p

def needsAt (s : St) (t : Name) (p : Path) : Bool := Inputs.needs s.checker (s.shadow t) s.fs p
def needsSeenAt (s : St) (t : Name) (p : Path) : Bool := Inputs.needsSeen s.checker (s.shadow t) s.fs p

/-- an uptodate item of `t` evaluates to false, judged from the ghost state (the signature of F-C10) -/
def falseItemAt (s : St) (t : Name) : Bool := utdFalse (lastValues (s.shadow t)) s.specRes (s.defs t).uptodate

/-- the full statement of the `changed` clause on one state: monitor (P) and `C10_changed_full` -/
def changedOk (s : St) (t : Name) (kw : Kw) : Bool :=
  (s.defs t).deps.all (fun p => !needsAt s t p || decide (p ∈ kw.changed))
  && sameSet kw.dependencies (s.defs t).deps
  && decide (kw.targets = (s.defs t).targets)

/-! ## status check and completion as separate history steps -/

inductive IOp
  | base (o : Op)
  /-- `select_task` reached `get_status` for `t` (not ignored, no unmet dependency) -/
  | select (t : Name)
  /-- the actions of `t` ran (`writes`) and `process_task_result` recorded success or failure -/
  | complete (t : Name) (ok : Bool) (writes : List (Path × Nat × Nat)) (res : Option Res)

def selectTask (s : St) (t : Name) : St :=
  match s.status true t with
  | .crash => { s with crashed := true }
  | .error => erase s t
  | .upToDate => s
  | .run => peek s t

def istep (s : St) : IOp → St
  | .base o => step true s o
  | .select t => if s.crashed then s else selectTask s t
  | .complete t ok ws res => if s.crashed then s else finish (applyWrites s ws) t ok res

/-- `process_task_result`: the execution is recorded as a success only when the actions succeeded AND
    `save_success` could store the task's values / result (`codec.encode([task.values, task.result])` raising
    TypeError / ValueError is turned into a `DependencyError` by the runner, exactly like the FileNotFoundError of a
    missing dependency: `_handle_task_error` removes the record).  In the model both failures are `complete t false …`. -/
def completeOk (actionsOk saveable : Bool) : Bool := actionsOk && saveable

def runI (h : List IOp) : St := h.foldl istep St.init

def IOp.faithful : IOp → Bool
  | .base o => o.faithful
  | _ => true

def IFaithful (h : List IOp) : Bool := h.all IOp.faithful

/-! ## `update_deps`: file dependencies delivered by a calc_dep task -/

/-- `task.file_dep` is a set: `_expand_file_dep` adds what is not there yet -/
def addDeps (base delivered : List Path) : List Path :=
  base ++ (delivered.filter fun p => !decide (p ∈ base)).eraseDups

def withCalc (d : TaskDef) (delivered : List Path) : TaskDef := { d with deps := addDeps d.deps delivered }

/-- `update_deps` with a result that also carries the key `uptodate` (`_extend_uptodate`: the delivered items are
    appended to the consumer's uptodate list); keys other than `task_dep file_dep calc_dep uptodate` are ignored -/
def withCalcU (d : TaskDef) (delivered : List Path) (utd : List Utd) : TaskDef :=
  { withCalc d delivered with uptodate := d.uptodate ++ utd }

/-! ## saved values and `getargs` -/

abbrev Key := Nat
abbrev Val := Nat
/-- a `_values_:` dict (user part) -/
abbrev UV := List (Key × Val)
abbrev VDB := Name → Option UV

/-- the DB effects on `_values_:` entries, in the order they happen -/
inductive VOp
  /-- `save_success`: `_set(task.name, "_values_:", task.values)` -/
  | save (t : Name) (v : UV)
  /-- `remove_success` after a failure, `doit forget` -/
  | remove (t : Name)
  /-- anything that does not write values (status checks, skips, reads) -/
  | other
deriving DecidableEq, Repr

def vstep (db : VDB) : VOp → VDB
  | .save t v => fun k => if k = t then some v else db k
  | .remove t => fun k => if k = t then none else db k
  | .other => db

def vrun (ops : List VOp) : VDB := ops.foldl vstep (fun _ => none)

/-- specification: values saved by the most recent successful execution of `k` that is still recorded; reads the
    history backwards (argument = reversed history), never a DB -/
def latest : List VOp → Name → Option UV
  | [], _ => none
  | .save t v :: rest, k => if k = t then some v else latest rest k
  | .remove t :: rest, k => if k = t then none else latest rest k
  | .other :: rest, k => latest rest k

inductive GErr
  /-- `taskid '…' has no computed value!` -/
  | noRecord
  /-- `Invalid arg name. Task '…' has no value for '…'.` -/
  | noKey
deriving DecidableEq, Repr

inductive Leaf
  | whole (v : UV)
  | one (x : Val)
deriving DecidableEq, Repr

/-- `get_value(task_id, key_name)` of `_get_task_args`: `get_values` (`values or {}`) for `key_name is None`,
    else `Dependency.get_value` -/
def getValue (db : VDB) (src : Name) : Option Key → Except GErr Leaf
  | none => .ok (.whole ((db src).getD []))
  | some k =>
    match db src with
    | none => .error .noRecord
    | some v =>
      match alookup k v with
      | none => .error .noKey
      | some x => .ok (.one x)

inductive ArgVal
  | single (l : Leaf)
  | group (m : List (Name × Leaf))
deriving DecidableEq, Repr

/-- the loop over the sub-tasks of a group source; the first exception propagates -/
def getGroup (db : VDB) (key : Option Key) : List Name → Except GErr (List (Name × Leaf))
  | [] => .ok []
  | s :: rest =>
    match getValue db s key with
    | .error e => .error e
    | .ok l =>
      match getGroup db key rest with
      | .error e => .error e
      | .ok m => .ok ((s, l) :: m)

/-- the key under which the value of sub-task `sub` (full task name) appears in the dict built for the group `group`:
    `name = sub_id[base_len:]` with `base_len = len(task_id) + 1` — the group prefix and the ':' are cut off, whatever
    the rest of the name contains -/
def subKey (group sub : List Char) : List Char := sub.drop (group.length + 1)

/-- NOT the code: the key as the last ':'-separated segment (`sub_id.rsplit(':', 1)[-1]`), kept for the
    counterexample `C10_group_key_rsplit_counterexample` -/
def subKeyLastSegment (sub : List Char) : List Char := (sub.reverse.takeWhile (· != ':')).reverse

/-- one `getargs` entry `arg: (src, key)`; `subs = some l` when `src` is a group task with sub-tasks `l` -/
def getArg (db : VDB) (subs : Option (List Name)) (src : Name) (key : Option Key) : Except GErr ArgVal :=
  match subs with
  | none =>
    match getValue db src key with
    | .error e => .error e
    | .ok l => .ok (.single l)
  | some l =>
    match getGroup db key l with
    | .error e => .error e
    | .ok m => .ok (.group m)

end DoitModel.Inputs
