import DoitModel.Proofs.RunDeliver
/-! # C01 — dependency-ordered execution under every schedule

Property theorems only (model: `Model/Run.lean`; invariants: `Proofs/Run*.lean`).
Quantification: every task table (any graph, also cyclic ones), every selection, every oracle (status / ignore /
outcome / calc results / getargs errors), `--continue` or not, every iteration order of the `set`s the dispatcher
iterates (`Choice.main perm`), every reachable state — hence every prefix of every run.  `s.events` is newest
first; `s.events.reverse` is the chronological trace. -/
namespace DoitModel.C01
open DoitModel.Run

/-- the statement for one transition system: in every reachable state, a `start t` at position `i` of the trace is
    preceded by the finish report (`add_success` or `skip_uptodate`) of every task `t` depends on by `task_dep`
    (incl. target→file_dep, result_dep after expansion), `calc_dep` or `setup` (incl. getargs after expansion) -/
def OrderHolds (inp : RunInput) (reach : Sys → Prop) : Prop :=
  ∀ s : Sys, reach s → ∀ i t w : Nat, s.events.reverse[i]? = some (Ev.start t w) →
    ∀ d ∈ staticDeps inp t, ∃ j : Nat, j < i ∧
      (s.events.reverse[j]? = some (Ev.success d) ∨ s.events.reverse[j]? = some (Ev.skipUtd d))

/-- C01 for the serial runner -/
theorem C01_order_serial (inp : RunInput) : OrderHolds inp (Reach inp) :=
  fun _ hr i t w hi d hd => order_indices (reach_inv2 hr) i t w hi d hd

/-- every dependency known when `select_task` answered yes — this includes whatever calc_dep tasks delivered
    (`task.task_dep` / `task.calc_dep` as extended by `_process_calc_dep_results`) — is reported finished before the
    `start`; the list recorded then contains the static dependencies -/
theorem C01_order_known_deps_serial (inp : RunInput) (s : Sys) (hr : Reach inp s) (pre post : List Ev) (t w : Nat)
    (he : s.events = pre ++ Ev.start t w :: post) :
    ∃ deps, Ev.go t deps ∈ post ∧ (∀ d ∈ staticDeps inp t, d ∈ deps) ∧
      ∀ d ∈ deps, Ev.success d ∈ post ∨ Ev.skipUtd d ∈ post :=
  start_after_known_deps (reach_inv2 hr) he

/-- C01 for the parallel runners: `MRunner` / `MThreadRunner` main loop (`get_next_job`, the start loop, the result
    loop with `free_proc` hand-outs) interleaved arbitrarily with any number of workers at queue-operation granularity
    (`Choice.take w` / `Choice.done w`), every `numProcess` -/
theorem C01_order_parallel (inp : RunInput) : OrderHolds inp (PReach inp) :=
  fun _ hr i t w hi d hd => order_indices (preach_inv hr).1 i t w hi d hd

theorem C01_order_known_deps_parallel (inp : RunInput) (s : Sys) (hr : PReach inp s) (pre post : List Ev) (t w : Nat)
    (he : s.events = pre ++ Ev.start t w :: post) :
    ∃ deps, Ev.go t deps ∈ post ∧ (∀ d ∈ staticDeps inp t, d ∈ deps) ∧
      ∀ d ∈ deps, Ev.success d ∈ post ∨ Ev.skipUtd d ∈ post :=
  start_after_known_deps (preach_inv hr).1 he

/-- consequently two tasks related by a dependency never execute concurrently: in no reachable state are a task and
    one of its dependencies both being executed by workers -/
theorem C01_no_overlap (inp : RunInput) (s : Sys) (hr : PReach inp s) (w w' : Nat) (t d : Name)
    (ht : s.workers w = .running t) (hd : s.workers w' = .running d) : d ∉ staticDeps inp t := by
  obtain ⟨h2, h3⟩ := preach_inv hr
  intro hmem
  obtain ⟨a1, _, _⟩ := h3.w1 w t ht
  obtain ⟨_, _, b3⟩ := h3.w1 w' d hd
  have hterm : cTerm s d = 0 := h3.t d (by rw [b3]; rfl)
  -- a start event of `t` exists
  have hpos : 0 < s.events.countP (Ev.isStartOf t) := by
    have : cStart s t = 1 := a1
    unfold cStart at this; omega
  obtain ⟨e, he, hp⟩ := List.countP_pos_iff.mp hpos
  cases e with
  | start n wk =>
    have hn : n = t := by simpa [Ev.isStartOf] using hp
    subst hn
    obtain ⟨pre, post, hsplit⟩ := List.append_of_mem he
    have hfin := start_after_deps h2 hsplit d hmem
    have hin : ∃ e ∈ s.events, Ev.isTerminalOf d e = true := by
      rcases hfin with x | x
      · exact ⟨Ev.success d, by rw [hsplit]; simp [x], by simp [Ev.isTerminalOf]⟩
      · exact ⟨Ev.skipUtd d, by rw [hsplit]; simp [x], by simp [Ev.isTerminalOf]⟩
    have : 0 < s.events.countP (Ev.isTerminalOf d) := List.countP_pos_iff.mpr hin
    unfold cTerm at hterm; omega
  | _ => simp [Ev.isStartOf] at hp

/-- C01 with the dependencies a calc_dep task delivers at run time: the decidable predicate `monC01Order` — the very
    monitor the driver evaluates on every implementation trace: before each `start t`, every task in
    `depsAt inp n pre t` (task_dep, setup, calc_dep, the calc_deps delivered by finished calc_deps, transitively, and the
    task_deps / target-owners of file_deps they delivered) has `add_success` or `skip_uptodate` in `pre` — holds on the
    observable trace of every reachable state, for every bound `nTasks` of the fixed-point iteration -/
theorem C01_order_monitor_serial (inp : RunInput) (s : Sys) (hr : Reach inp s) (nTasks : Nat) :
    monC01Order inp nTasks (trace inp s) = true :=
  monC01Order_of_inv (reach_inv2 hr) (reach_invG hr) nTasks

theorem C01_order_monitor_parallel (inp : RunInput) (s : Sys) (hr : PReach inp s) (nTasks : Nat) :
    monC01Order inp nTasks (trace inp s) = true :=
  monC01Order_of_inv (preach_inv hr).1 (preach_invG hr) nTasks

/-- the same on the raw event list (which also has the start marks of action-less group tasks): whatever `depsAt`
    derives for `t` from ANY observed events is reported finished before `start t` -/
theorem C01_order_delivered (inp : RunInput) (s : Sys) (hr : PReach inp s) (pre post : List Ev) (t w : Nat)
    (he : s.events = pre ++ Ev.start t w :: post) (nTasks : Nat) (obs : List Ev) :
    ∀ d ∈ depsAt inp nTasks obs t, Ev.success d ∈ post ∨ Ev.skipUtd d ∈ post :=
  start_after_depsAt (preach_inv hr).1 (preach_invG hr) he nTasks obs

/-! ### non-vacuity -/

/-- a diamond (`4 → {1, 2} → 0`) whose sink also has a calc_dep (`3`, which delivers the extra task_dep `5`) and a
    setup-task (`6`); two worker threads -/
def exDiamond : RunInput :=
  { taskDep := fun n => if n = 4 then [1, 2] else if n = 1 ∨ n = 2 then [0] else []
    calcDep := fun n => if n = 4 then [3] else []
    setup := fun n => if n = 4 then [6] else []
    calcRes := fun n => if n = 3 then { tasks := [5] } else {}
    sel := [4], runner := .thread, numProc := 2 }

/-- the sink really starts (on worker 1), after its static deps, the delivered dep `5` and the setup-task `6`, and the
    run completes -/
example : ∃ s, PReach exDiamond s ∧ s.events.contains (Ev.start 4 1) = true ∧
    s.events.contains (Ev.success 5) = true ∧ s.events.contains Ev.complete = true :=
  ⟨_, autoRun_preach (by decide) false true 400 _ PReach.init, by decide +kernel⟩

/-- a reachable state in which both workers execute (the two independent middle tasks): the hypotheses of
    `C01_no_overlap` are satisfiable -/
example : ∃ s, PReach exDiamond s ∧ (s.workers 0 = .running 1 ∧ s.workers 1 = .running 2 ∨
    s.workers 0 = .running 2 ∧ s.workers 1 = .running 1) :=
  ⟨_, autoRun_preach (by decide) false true 101 _ PReach.init, by decide +kernel⟩

/-- the same graph under the serial runner -/
example : ∃ s, Reach { exDiamond with runner := .serial, numProc := 0 } s ∧
    s.events.contains (Ev.start 4 0) = true ∧ s.events.contains Ev.complete = true :=
  ⟨_, autoRun_reach (by decide) false false 400 _ Reach.init, by decide +kernel⟩

end DoitModel.C01
