import DoitModel.Proofs.RunOrder
/-! # C01 — dependency-ordered execution under every schedule

Property theorems only (model: `Model/Run.lean`; invariants: `Proofs/Run*.lean`).
Quantification: every task table (any graph, also cyclic ones), every selection, every oracle (status / ignore /
outcome / calc results / getargs errors), `--continue` or not, every iteration order of the `set`s the dispatcher
iterates (`Choice.main perm`), every reachable state — hence every prefix of every run.  `s.events` is newest
first; `s.events.reverse` is the chronological trace. -/
namespace DoitModel.C01
open DoitModel.Run

/-- the statement for one transition system: in every reachable state, a `start t` at position `i` of the trace is
    preceded by the finish report (`add_success` or `skip_uptodate`) of every task `t` depends on by `task_dep`
    (incl. target→file_dep, result_dep after expansion), `calc_dep` or `setup` (incl. getargs after expansion) -/
def OrderHolds (inp : RunInput) (reach : Sys → Prop) : Prop :=
  ∀ s : Sys, reach s → ∀ i t w : Nat, s.events.reverse[i]? = some (Ev.start t w) →
    ∀ d ∈ staticDeps inp t, ∃ j : Nat, j < i ∧
      (s.events.reverse[j]? = some (Ev.success d) ∨ s.events.reverse[j]? = some (Ev.skipUtd d))

/-- C01 for the serial runner -/
theorem C01_order_serial (inp : RunInput) : OrderHolds inp (Reach inp) :=
  fun _ hr i t w hi d hd => order_indices (reach_inv2 hr) i t w hi d hd

/-- every dependency known when `select_task` answered yes — this includes whatever calc_dep tasks delivered
    (`task.task_dep` / `task.calc_dep` as extended by `_process_calc_dep_results`) — is reported finished before the
    `start`; the list recorded then contains the static dependencies -/
theorem C01_order_known_deps_serial (inp : RunInput) (s : Sys) (hr : Reach inp s) (pre post : List Ev) (t w : Nat)
    (he : s.events = pre ++ Ev.start t w :: post) :
    ∃ deps, Ev.go t deps ∈ post ∧ (∀ d ∈ staticDeps inp t, d ∈ deps) ∧
      ∀ d ∈ deps, Ev.success d ∈ post ∨ Ev.skipUtd d ∈ post :=
  start_after_known_deps (reach_inv2 hr) he

/-- the statement for the parallel runners (MRunner / MThreadRunner main loop + workers) -/
def C01_order_parallel_full : Prop := ∀ inp : RunInput, OrderHolds inp (PReach inp)

end DoitModel.C01
