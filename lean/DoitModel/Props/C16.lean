import DoitModel.Proofs.Opt
import DoitModel.Proofs.OptGetopt
import DoitModel.Proofs.OptConfig
import DoitModel.Proofs.OptReject
import DoitModel.Proofs.OptAccept
import DoitModel.Proofs.OptDemo
import DoitModel.Proofs.OptCfg
/-! # C16 — option parsing is exact, pure and respects source precedence

Property theorems only (model: `Model/Opt.lean`, helpers: `Proofs/Opt*.lean`).
Quantification: every option table (hypothesis: option names are distinct — implied by `WF`), every list of
assignments in every rendering form, every positional list, every environment, every config section and DOIT_CONFIG
(dict keys distinct), every argv for the rejection / purity theorems.

`pipeline spec ini dodo env argv` is the whole resolution as the code performs it
(`overwrite_defaults(section)`; `parse(argv)` with the environment; `update_defaults(DOIT_CONFIG)`);
`specOf … o` is the value the *property* gives option `o` (command line > environment > DOIT_CONFIG > section >
declared default; last occurrence wins, flags give True / inverse flags False, lists accumulate after their base value). -/
namespace DoitModel.C16
open DoitModel.Opt

/-! ## exact: rendered assignments are read back as written -/

/-- **roundtrip (getopt layer)**: for every list of assignments naming options of the table, rendered in any mix of
    `-abc`, `-abcXv`, `-abcX v`, `--flag`, `--inverse`, `--long=v`, `--long v`, followed by positionals whose first
    element does not look like an option: exactly the written (option, text) pairs, in order, and the positionals
    unchanged. -/
theorem roundtrip_getopt (spec : List Opt) (xs : List Asg) (pos : List Str)
    (hx : xs.all (Asg.ok (shortTable spec) (longTable spec)) = true) (hp : PosOk pos = true) :
    getopt spec (renderAll xs ++ pos) = .ok (pairsAll xs, pos) := by
  unfold getopt
  rw [getoptT_prefix _ _ xs pos hx]
  exact finish_pos _ _ _ pos hp

/-- same with the `--` separator: then *any* positional list comes back unchanged -/
theorem roundtrip_getopt_sep (spec : List Opt) (xs : List Asg) (pos : List Str)
    (hx : xs.all (Asg.ok (shortTable spec) (longTable spec)) = true) :
    getopt spec (renderAll xs ++ ['-', '-'] :: pos) = .ok (pairsAll xs, pos) := by
  unfold getopt
  rw [getoptT_prefix _ _ xs _ hx]
  exact finish_sep _ _ _ pos

/-- **roundtrip + precedence (full resolution)**: whenever the resolution of a rendered command line succeeds, the
    positionals are the written ones and every option has exactly the value the property states
    (`specOf`: last occurrence wins, lists accumulate after the base value, flags / inverse flags set True / False,
    command line > environment > DOIT_CONFIG > config section > declared default). -/
theorem roundtrip (spec : List Opt) (ini : List (Str × CfgVal)) (dodo : List (Str × Val)) (env : Str → Option Str)
    (xs : List Asg) (pos : List Str) (sep : Bool) (p : Params) (pos' : List Str)
    (hwf : (spec.map (·.name)).Nodup) (hini : (ini.map (·.1)).Nodup) (hdodo : (dodo.map (·.1)).Nodup)
    (hx : xs.all (Asg.ok (shortTable spec) (longTable spec)) = true) (hp : sep = true ∨ PosOk pos = true)
    (h : pipeline spec ini dodo env (renderAll xs ++ (if sep then ['-', '-'] :: pos else pos)) = .ok (p, pos')) :
    pos' = pos ∧ ∀ o ∈ spec, ∃ v, specOf spec ini dodo env (pairsAll xs) o = .ok v ∧ p.vals o.name = some v := by
  obtain ⟨ps, hg, hv⟩ := pipeline_value spec ini dodo env _ p pos' hwf hini hdodo h
  have hg' : getopt spec (renderAll xs ++ (if sep then ['-', '-'] :: pos else pos)) = .ok (pairsAll xs, pos) := by
    cases sep with
    | true => exact roundtrip_getopt_sep spec xs pos hx
    | false =>
      rcases hp with hp | hp
      · cases hp
      · exact roundtrip_getopt spec xs pos hx hp
  rw [hg'] at hg
  injection hg with hg; injection hg with h1 h2
  subst h1; subst h2
  exact ⟨rfl, hv⟩

/-- **precedence** for an arbitrary argv: the value of every option after the whole resolution is the
    specification's value for the pairs getopt read — command line > environment > DOIT_CONFIG > section > default. -/
theorem precedence (spec : List Opt) (ini : List (Str × CfgVal)) (dodo : List (Str × Val)) (env : Str → Option Str)
    (argv : List Str) (p : Params) (pos : List Str)
    (hwf : (spec.map (·.name)).Nodup) (hini : (ini.map (·.1)).Nodup) (hdodo : (dodo.map (·.1)).Nodup)
    (h : pipeline spec ini dodo env argv = .ok (p, pos)) :
    ∃ ps, getopt spec argv = .ok (ps, pos) ∧
      ∀ o ∈ spec, ∃ v, specOf spec ini dodo env ps o = .ok v ∧ p.vals o.name = some v :=
  pipeline_value spec ini dodo env argv p pos hwf hini hdodo h

/-- **precedence, loader options written before the sub-command name** (`doit -f x.py -k list …`, handed to the
    command as `opt_vals`): at the point where the loader receives its options, an option written there has exactly
    the written value — whatever the environment, the config sections or the rest of the command line say — and every
    other option has the value of `precedence` (without DOIT_CONFIG, which is not loaded yet). -/
theorem precedence_precommand (spec : List Opt) (ov : List (Str × Val)) (ini : List (Str × CfgVal))
    (dodo : List (Str × Val)) (env : Str → Option Str) (argv : List Str) (ps pf : Params) (pos : List Str)
    (hov : (ov.map (·.1)).Nodup) (h : pipelinePre spec ov ini dodo env argv = .ok (ps, pf, pos)) :
    (∀ k v, (k, v) ∈ ov → ps.vals k = some v) ∧
    ∃ p, pipeline spec ini [] env argv = .ok (p, pos) ∧ ∀ k, k ∉ ov.map (·.1) → ps.vals k = p.vals k := by
  unfold pipelinePre at h
  cases hp : pipeline spec ini [] env argv with
  | error e => simp [hp] at h
  | ok r =>
    obtain ⟨p, pos'⟩ := r
    simp only [hp] at h
    injection h with h; injection h with h1 h2; injection h2 with h2 h3
    subst h1; subst h3
    refine ⟨?_, p, rfl, ?_⟩
    · intro k v hm
      rw [applyOptVals_vals ov hov p k, alookup_of_mem k v ov hov hm]
    · intro k hk
      rw [applyOptVals_vals ov hov p k, alookup_not_mem k ov hk]

/-- **config layers** (`extra_config`, then `pyproject.toml`, then `doit.cfg`; GLOBAL then the command's section): the
    later layer wins for every KEY it sets and every key that only an earlier layer sets is kept -/
theorem config_layers_per_key (g c : List (Str × CfgVal)) (k : Str) :
    alookup k (mergeCfg g c) = match alookup k c with
      | some v => some v
      | none => alookup k g := mergeCfg_lookup g c k

/-- `WF` gives the hypothesis the theorems above use -/
theorem wf_names (spec : List Opt) (h : WF spec = true) : (spec.map (·.name)).Nodup := by
  simp only [WF, Bool.and_eq_true, decide_eq_true_eq] at h
  exact h.1.1.1

/-- **accept**: a rendered command line is never refused without a reason — if every text that has to be converted
    converts (`allConvert`: config values of known options, environment values, scalar occurrences) and list-typed
    options hold lists in their sources, the resolution succeeds and returns the written positionals. -/
theorem accept (spec : List Opt) (ini : List (Str × CfgVal)) (dodo : List (Str × Val)) (env : Str → Option Str)
    (xs : List Asg) (pos : List Str) (sep : Bool)
    (hwf : (spec.map (·.name)).Nodup) (hini : (ini.map (·.1)).Nodup)
    (hx : xs.all (Asg.ok (shortTable spec) (longTable spec)) = true) (hp : sep = true ∨ PosOk pos = true)
    (hall : allConvert spec ini env (pairsAll xs) = true)
    (hlists : ∀ o ∈ spec, o.ty = .list → ∃ l, baseValue o (envOf env o) (alookup o.name ini) = .ok (.l l)) :
    ∃ p, pipeline spec ini dodo env (renderAll xs ++ (if sep then ['-', '-'] :: pos else pos)) = .ok (p, pos) := by
  have hg : getopt spec (renderAll xs ++ (if sep then ['-', '-'] :: pos else pos)) = .ok (pairsAll xs, pos) := by
    cases sep with
    | true => exact roundtrip_getopt_sep spec xs pos hx
    | false =>
      rcases hp with hp | hp
      · cases hp
      · exact roundtrip_getopt spec xs pos hx hp
  exact pipeline_accepts spec ini dodo env _ (pairsAll xs) pos hwf hini hg hall hlists

/-- **roundtrip, total form**: accepted *and* exact — the conjunction of `accept` and `roundtrip` -/
theorem roundtrip_total (spec : List Opt) (ini : List (Str × CfgVal)) (dodo : List (Str × Val))
    (env : Str → Option Str) (xs : List Asg) (pos : List Str) (sep : Bool)
    (hwf : (spec.map (·.name)).Nodup) (hini : (ini.map (·.1)).Nodup) (hdodo : (dodo.map (·.1)).Nodup)
    (hx : xs.all (Asg.ok (shortTable spec) (longTable spec)) = true) (hp : sep = true ∨ PosOk pos = true)
    (hall : allConvert spec ini env (pairsAll xs) = true)
    (hlists : ∀ o ∈ spec, o.ty = .list → ∃ l, baseValue o (envOf env o) (alookup o.name ini) = .ok (.l l)) :
    ∃ p, pipeline spec ini dodo env (renderAll xs ++ (if sep then ['-', '-'] :: pos else pos)) = .ok (p, pos) ∧
      ∀ o ∈ spec, ∃ v, specOf spec ini dodo env (pairsAll xs) o = .ok v ∧ p.vals o.name = some v := by
  obtain ⟨p, hpipe⟩ := accept spec ini dodo env xs pos sep hwf hini hx hp hall hlists
  exact ⟨p, hpipe, (roundtrip spec ini dodo env xs pos sep p pos hwf hini hdodo hx hp hpipe).2⟩

/-! ## reject -/

/-- an option letter that is not in the table (after any well-formed prefix, whatever follows) -/
theorem reject_unknown_short (st : PState) (env : Str → Option Str) (xs : List Asg) (c : Char) (r : Str)
    (more : List Str) (hx : xs.all (Asg.ok (shortTable st) (longTable st)) = true) (hc : c ≠ '-')
    (hun : lookupShort (shortTable st) c = none) :
    IsErr (parse false st env (renderAll xs ++ ('-' :: c :: r) :: more)).2 := by
  apply parse_getopt_error st env _ .unknownShort
  unfold getopt
  rw [getoptT_prefix _ _ xs _ hx]
  simp [gstep, scanTok_short _ _ _ c r hc, doShorts, hun, fold_fail, gfinish]

/-- a long name that no option's long / inverse name starts with -/
theorem reject_unknown_long (st : PState) (env : Str → Option Str) (xs : List Asg) (body : Str) (more : List Str)
    (hx : xs.all (Asg.ok (shortTable st) (longTable st)) = true) (hb : body ≠ [])
    (hun : possibilities (longTable st) (splitEq body).1 = []) :
    IsErr (parse false st env (renderAll xs ++ ('-' :: '-' :: body) :: more)).2 := by
  apply parse_getopt_error st env _ .unknownLong
  unfold getopt
  rw [getoptT_prefix _ _ xs _ hx]
  simp [gstep, scanTok_long _ _ _ body hb, doLong, longHasArgs_unknown _ _ hun, longResult, fold_fail, gfinish]

/-- an abbreviation that several long names extend (none of them exactly) -/
theorem reject_ambiguous (st : PState) (env : Str → Option Str) (xs : List Asg) (body : Str) (more : List Str)
    (x y : Str × Bool) (rest : List (Str × Bool))
    (hx : xs.all (Asg.ok (shortTable st) (longTable st)) = true) (hb : body ≠ [])
    (hamb : possibilities (longTable st) (splitEq body).1 = x :: y :: rest)
    (h1 : ((splitEq body).1, false) ∉ longTable st) (h2 : ((splitEq body).1, true) ∉ longTable st) :
    IsErr (parse false st env (renderAll xs ++ ('-' :: '-' :: body) :: more)).2 := by
  apply parse_getopt_error st env _ .ambiguous
  unfold getopt
  rw [getoptT_prefix _ _ xs _ hx]
  simp [gstep, scanTok_long _ _ _ body hb, doLong, longHasArgs_ambiguous _ _ x y rest hamb h1 h2, longResult,
    fold_fail, gfinish]

/-- a value given to a flag: `--flag=v` -/
theorem reject_flag_value (st : PState) (env : Str → Option Str) (xs : List Asg) (n v : Str) (more : List Str)
    (hx : xs.all (Asg.ok (shortTable st) (longTable st)) = true) (hn : longOk (longTable st) n false = true) :
    IsErr (parse false st env (renderAll xs ++ ('-' :: '-' :: (n ++ '=' :: v)) :: more)).2 := by
  simp only [longOk, Bool.and_eq_true, decide_eq_true_eq, Bool.not_eq_true'] at hn
  obtain ⟨⟨⟨_, heq⟩, hm⟩, _⟩ := hn
  have heq' : '=' ∉ n := by simpa using heq
  apply parse_getopt_error st env _ .noArg
  unfold getopt
  rw [getoptT_prefix _ _ xs _ hx]
  have hb : n ++ '=' :: v ≠ [] := by simp
  simp [gstep, scanTok_long _ _ _ _ hb, doLong, splitEq_eq n v heq', longHasArgs_exact_flag _ n hm, longResult,
    fold_fail, gfinish]

/-- a truncated command line: the last token is an option that takes a value (`-abcX` or `--long`) -/
theorem reject_missing_value (st : PState) (env : Str → Option Str) (xs : List Asg) :
    (∀ (cs : List Char) (c : Char), xs.all (Asg.ok (shortTable st) (longTable st)) = true →
      Asg.ok (shortTable st) (longTable st) (.sDet cs c []) = true →
      IsErr (parse false st env (renderAll xs ++ ['-' :: (cs ++ [c])])).2) ∧
    (∀ (n : Str), xs.all (Asg.ok (shortTable st) (longTable st)) = true →
      Asg.ok (shortTable st) (longTable st) (.lDet n []) = true →
      IsErr (parse false st env (renderAll xs ++ ['-' :: '-' :: n])).2) := by
  constructor
  · intro cs c hx ha
    apply parse_getopt_error st env _ .needsArg
    unfold getopt
    rw [getoptT_prefix _ _ xs _ hx]
    simp only [Asg.ok, Bool.and_eq_true, decide_eq_true_eq] at ha
    obtain ⟨⟨hf, hc⟩, hl⟩ := ha
    obtain ⟨d, r, he, hd⟩ := cluster_head _ cs c [] hf hc
    simp only [List.foldl_cons, List.foldl_nil, gstep]
    rw [he, scanTok_short _ _ _ d r hd, ← he, doShorts_flags _ cs _ _ hf]
    simp [doShorts, hl, gfinish]
  · intro n hx ha
    apply parse_getopt_error st env _ .needsArg
    unfold getopt
    rw [getoptT_prefix _ _ xs _ hx]
    simp only [Asg.ok, longOk, Bool.and_eq_true, decide_eq_true_eq, Bool.not_eq_true', Bool.or_eq_true] at ha
    obtain ⟨⟨⟨hne, heq⟩, hm⟩, hno⟩ := ha
    have heq' : '=' ∉ n := by simpa using heq
    have hno' : (n, false) ∉ longTable st := by simpa using hno
    simp [gstep, scanTok_long _ _ _ n hne, doLong, splitEq_noeq n heq', longHasArgs_exact_arg _ n hm hno',
      longResult, gfinish]

/-- an ill-typed value or a value outside `choices` for an int / str option anywhere on the command line -/
theorem reject_bad_value (st : PState) (env : Str → Option Str) (argv : List Str) (ps : Pairs) (pos : List Str)
    (k : Key) (v : Str) (o : Opt) (inv : Bool) (hgo : getopt st argv = .ok (ps, pos)) (hm : (k, v) ∈ ps)
    (hg : getOption st k = some (o, inv)) (hty : o.ty = .int ∨ o.ty = .str) (hc : IsErr (str2type o v)) :
    IsErr (parse false st env argv).2 := by
  obtain ⟨e, he⟩ := hc
  exact parse_bad_value st env argv ps pos k v o inv e hgo hm hg hty he

/-- an ill-typed / invalid-choice value in the environment variable of an option -/
theorem reject_bad_env (st : PState) (env : Str → Option Str) (argv : List Str) (o : Opt) (ho : o ∈ st) (s : Str)
    (hs : envOf env o = some s) (hc : IsErr (str2type o s)) : IsErr (parse false st env argv).2 := by
  obtain ⟨e, he⟩ := hc
  exact parse_bad_env st env argv o ho s e hs he

/-- an ill-typed / invalid-choice value in a config section (INI / TOML / API / per-task) for an option of the table -/
theorem reject_bad_config (spec : List Opt) (ini : List (Str × CfgVal)) (dodo : List (Str × Val))
    (env : Str → Option Str) (argv : List Str) (hwf : (spec.map (·.name)).Nodup) (hini : (ini.map (·.1)).Nodup)
    (k : Str) (c : CfgVal) (o : Opt) (hm : (k, c) ∈ ini) (hf : findOpt spec k = some o)
    (hbad : IsErr (str2typeCfg o c)) : IsErr (pipeline spec ini dodo env argv) :=
  pipeline_bad_config spec ini dodo env argv hwf hini k c o hm hf hbad

/-- through `DoitMain.run`: every failure of the resolution — a bad value in a config section included — ends as
    `ERROR: …` with exit code 3, never as an uncaught exception; success is the command's own return -/
theorem main_reports_exit3 (spec : List Opt) (ini : List (Str × CfgVal)) (dodo : List (Str × Val))
    (env : Str → Option Str) (argv : List Str) :
    runMain false spec ini dodo env argv = afterParse (pipeline spec ini dodo env argv) := by
  unfold runMain pipeline
  cases overwriteDefaults ini spec <;> simp [afterParse]

/-- **reject_bad_config through DoitMain**: an ill-typed / invalid-choice value in a config section gives exit code 3 -/
theorem reject_bad_config_exit3 (spec : List Opt) (ini : List (Str × CfgVal)) (dodo : List (Str × Val))
    (env : Str → Option Str) (argv : List Str) (hwf : (spec.map (·.name)).Nodup) (hini : (ini.map (·.1)).Nodup)
    (k : Str) (c : CfgVal) (o : Opt) (hm : (k, c) ∈ ini) (hf : findOpt spec k = some o)
    (hbad : IsErr (str2typeCfg o c)) : (runMain false spec ini dodo env argv).kind = 3 := by
  rw [main_reports_exit3]
  obtain ⟨e, he⟩ := reject_bad_config spec ini dodo env argv hwf hini k c o hm hf hbad
  rw [he]; rfl

/-- **through DoitMain, the guard**: `process_args` hands the words to the parsers unchanged exactly when none of them
    is a `name=value` word; under that guard `roundtrip_total` / `precedence` / `reject_*` speak about what
    `DoitMain.run` parses -/
theorem main_words_unchanged (argv : List Str) (h : NoVarWords argv = true) : stripVars argv = .ok argv :=
  stripVars_id argv h

/-- F-C16c (open): outside the guard a well-formed command line loses an option value.  `--long a=b` for a string
    option: alone the parser reads `a=b`; through `process_args` the value is taken for a command-line variable, the
    option is left without its value (parse error) — or silently takes the next word: `-l a=b x` gives `x` -/
theorem var_word_steals_option_value :
    observe [['l']] (pipeline demoSpec [] [] (fun _ => none) [['-','l'], ['a','=','b']])
      = some ([some (.l [['d'], ['a','=','b']])], []) ∧
    (stripVars [['-','l'], ['a','=','b']]).toOption = some [['-','l']] ∧
    observe [['l']] (pipeline demoSpec [] [] (fun _ => none) [['-','l']]) = none ∧
    (stripVars [['-','l'], ['a','=','b'], ['x']]).toOption = some [['-','l'], ['x']] ∧
    observe [['l']] (pipeline demoSpec [] [] (fun _ => none) [['-','l'], ['x']]) = some ([some (.l [['d'], ['x']])], []) ∧
    (stripVars [['-','l'], []]).toOption = some [['-','l'], []] := by decide

/-- F-C16d (fixed in /repo, 0ab6253): an empty word was `arg[0]` on `''` in `process_args`: IndexError traceback -/
theorem pinned_empty_word_crashes :
    (stripVarsP true [['-','l'], []]).toBool = false ∧ (stripVarsP false [['-','l'], []]).toBool = true := by decide

/-- late choices (`backend`): a name outside the choices is an invalid-choice error from the config section, from
    DOIT_CONFIG and from the command line alike; a known name from a section is accepted -/
example :
    errOf (pipelineLate false demoBackend [['b']] [(['b'], .raw ['n','o'])] [] (fun _ => none) []) = some .badChoice ∧
    errOf (pipelineLate false demoBackend [['b']] [] [(['b'], .s ['n','o'])] (fun _ => none) []) = some .badChoice ∧
    errOf (pipelineLate false demoBackend [['b']] [] [] (fun _ => none) [['-','-','b','a','c','k','e','n','d','=','n','o']])
      = some .badChoice ∧
    observe [['b']] (pipelineLate false demoBackend [['b']] [(['b'], .raw ['j','s','o','n'])] [] (fun _ => none) [])
      = some ([some (.s ['j','s','o','n'])], []) := by decide

/-- F-C16e (fixed in /repo): the choices of `backend` were attached after `overwrite_defaults` and DOIT_CONFIG was never
    validated — an unknown name from a config section or DOIT_CONFIG was accepted by the parsers and ended as a
    `TypeError` traceback -/
theorem pinned_backend_choice_unchecked :
    errOf (pipelineLate true demoBackend [['b']] [(['b'], .raw ['n','o'])] [] (fun _ => none) []) = some .crash ∧
    errOf (pipelineLate true demoBackend [['b']] [] [(['b'], .s ['n','o'])] (fun _ => none) []) = some .crash := by decide

/-- F-C16b (fixed in /repo, e98fc2c): with the command constructed outside the `try`, `num = abc` in the command's
    config section ended as an uncaught exception (exit status 1), not as exit code 3 -/
theorem pinned_config_error_escapes :
    (runMain true demoSpec [(['n'], .raw ['a','b','c'])] [] (fun _ => none) []).kind = 1 ∧
    (runMain false demoSpec [(['n'], .raw ['a','b','c'])] [] (fun _ => none) []).kind = 3 := by decide

/-- what "ill-typed" and "invalid choice" mean for `str2type` -/
theorem bad_int_is_error (o : Opt) (s : Str) (hty : o.ty = .int) (hbad : parseInt s = none) : IsErr (str2type o s) :=
  ⟨_, str2type_bad_int o s hty hbad⟩

theorem bad_choice_is_error (o : Opt) (s : Str) (v : Val) (hconv : convert o.ty s = .ok v) (hch : o.choices ≠ [])
    (hnot : v ∉ o.choices) : IsErr (str2type o s) := str2type_bad_choice o s v hconv hch hnot

/-! ## unique-prefix long options -/

/-- an abbreviation that exactly one long name extends is read as that option (`--p=v` form) -/
theorem unique_prefix (spec : List Opt) (xs : List Asg) (p n v : Str) (pos : List Str)
    (hx : xs.all (Asg.ok (shortTable spec) (longTable spec)) = true) (hp : PosOk pos = true)
    (heq : '=' ∉ p) (hu : possibilities (longTable spec) p = [(n, true)]) :
    getopt spec (renderAll xs ++ ('-' :: '-' :: (p ++ '=' :: v)) :: pos) = .ok (pairsAll xs ++ [(.long n, v)], pos) := by
  unfold getopt
  rw [getoptT_prefix _ _ xs _ hx]
  have hb : p ++ '=' :: v ≠ [] := by simp
  simp only [List.foldl_cons, gstep]
  rw [scanTok_long _ _ _ _ hb]
  simp only [doLong, splitEq_eq p v heq, longHasArgs_unique _ p n true hu, longResult]
  exact finish_pos _ _ _ pos hp

/-! ## pure -/

/-- **pure**: `CmdParse.parse` leaves the parser object (every option's `default` included) as it found it —
    for every option table, environment and argv, also when parsing fails. -/
theorem pure (st : PState) (env : Str → Option Str) (argv : List Str) :
    (parse false st env argv).1 = st := parse_fixed_state st env argv

/-- parsing the same input twice with the same parser object gives the same result -/
theorem parse_twice (st : PState) (env : Str → Option Str) (argv : List Str) :
    parse false (parse false st env argv).1 env argv = parse false st env argv := by
  rw [pure]

/-! ## non-vacuity and the pinned behaviour -/

example : WF demoSpec = true := by decide
example : demoAsgs.all (Asg.ok (shortTable demoSpec) (longTable demoSpec)) = true := by decide
example : renderAll demoAsgs ++ [['t'], ['-','x']] =
    [['-','f','n','3'], ['-','-','l','s','t','=','a'], ['-','l'], ['b'], ['-','-','n','o','-','f','l','a','g'],
     ['t'], ['-','x']] := by decide

/-- the resolution of that command line succeeds and gives: flag False (inverse last), n = 3 (command line over the
    environment's 5 and DOIT_CONFIG's 9), l = default ++ [a, b] (DOIT_CONFIG ignored), positionals unchanged -/
example :
    observe [['f'], ['n'], ['l']]
      (pipeline demoSpec [] [(['n'], .i 9), (['l'], .l [['z']])] demoEnv (renderAll demoAsgs ++ [['t'], ['-','x']]))
    = some ([some (.b false), some (.i 3), some (.l [['d'], ['a'], ['b']])], [['t'], ['-','x']]) := by decide

/-- without the command line: environment (5) over DOIT_CONFIG (9) over section (7) over default for `n`;
    DOIT_CONFIG over default for `l`; section over default for `f` -/
example :
    observe [['f'], ['n'], ['l']]
      (pipeline demoSpec [(['n'], .raw ['7']), (['f'], .raw ['o','n'])] [(['n'], .i 9), (['l'], .l [['z']])] demoEnv [])
    = some ([some (.b true), some (.i 5), some (.l [['z']])], []) := by decide

/-- rejection really happens: `-n abc`, `--nu` is fine (unique prefix) but `--zzz` is not, `--flag=1` is not -/
example : (parse false demoSpec demoEnv [['-','n'], ['a','b','c']]).2.toBool = false := by decide
example : (parse false demoSpec demoEnv [['-','-','n','u'], ['4']]).2.toBool = true := by decide
example : (parse false demoSpec demoEnv [['-','-','z','z','z']]).2.toBool = false := by decide
example : (parse false demoSpec demoEnv [['-','-','f','l','a','g','=','1']]).2.toBool = false := by decide

/-- F-C16 (fixed in /repo): with the pinned `params[name].append(val)` parsing mutated the option's default … -/
theorem pinned_parse_mutates_default :
    ((parse true demoSpec (fun _ => none) [['-','l'], ['x']]).1.map (·.default)) ≠ demoSpec.map (·.default) := by
  decide

/-- … so the second parse of the same argv with the same parser object accumulated … -/
theorem pinned_second_parse_differs :
    (match (parse true (parse true demoSpec (fun _ => none) [['-','l'], ['x']]).1 (fun _ => none) [['-','l'], ['x']]).2 with
     | .ok (p, _) => p.vals ['l']
     | .error _ => none) = some (.l [['d'], ['x'], ['x']]) := by decide

/-- … and the key was not marked as set on the command line, so DOIT_CONFIG overrode the command line -/
theorem pinned_config_overrides_cmdline :
    (match (parse true demoSpec (fun _ => none) [['-','l'], ['x']]).2 with
     | .ok (p, _) => (updateDefaults [(['l'], .l [['z']])] p).vals ['l']
     | .error _ => none) = some (.l [['z']]) ∧
    (match (parse false demoSpec (fun _ => none) [['-','l'], ['x']]).2 with
     | .ok (p, _) => (updateDefaults [(['l'], .l [['z']])] p).vals ['l']
     | .error _ => none) = some (.l [['d'], ['x']]) := by decide

/-! ## wave 5: the configuration side — which layer wins, plugin tables, conversion of config texts -/

/-- **precedence order, per key, for every combination of present / absent layers**: the value the specification
    (and by `precedence` the resolution `pipeline`) gives an option whose command's `config_vals` were merged from
    `[GLOBAL]` and the command's section of `extra_config`, `pyproject.toml` and `doit.cfg` is the value of exactly
    one layer — `winner`: command line > environment > DOIT_CONFIG > section(doit.cfg > pyproject.toml > API) >
    GLOBAL(doit.cfg > pyproject.toml > API) > declared default — converted the way that layer converts
    (`layerValue`: DOIT_CONFIG unconverted; a list option on the command line extends the environment / config /
    declared value and never the DOIT_CONFIG one). -/
theorem precedence_order (o : Opt) (occ : List (Bool × Str)) (env : Option Str) (dodo : List (Str × Val))
    (gApi gToml gCfg sApi sToml sCfg : List (Str × CfgVal)) :
    specValue o occ env (alookup o.name dodo) (alookup o.name (sixLayers gApi gToml gCfg sApi sToml sCfg)) =
      layerValue o (keyIn o.name occ env dodo gApi gToml gCfg sApi sToml sCfg)
        (winner (keyIn o.name occ env dodo gApi gToml gCfg sApi sToml sCfg)) := by
  rw [sixLayers_lookup]
  simp only [keyIn]
  generalize alookup o.name dodo = d
  generalize alookup o.name sCfg = a1
  generalize alookup o.name sToml = a2
  generalize alookup o.name sApi = a3
  generalize alookup o.name gCfg = a4
  generalize alookup o.name gToml = a5
  generalize alookup o.name gApi = a6
  have hocc : occ = [] ∨ ∃ inv v, occ.getLast? = some (inv, v) ∧ occ ≠ [] := by
    cases h : occ.getLast? with
    | none => left; simpa using h
    | some x => right; exact ⟨x.1, x.2, rfl, by intro hn; simp [hn] at h⟩
  rcases hocc with hocc | ⟨inv, v, hl, hne⟩
  · subst hocc
    cases env <;> cases d <;> cases a1 <;> cases a2 <;> cases a3 <;> cases a4 <;> cases a5 <;> cases a6 <;>
      simp [specValue, winner, cfgWinner, layerValue, cfgLayerValue, baseValue]
  · cases hty : o.ty <;> cases env <;> cases a1 <;> cases a2 <;> cases a3 <;> cases a4 <;> cases a5 <;> cases a6 <;>
      simp [specValue, winner, cfgWinner, layerValue, cfgLayerValue, baseValue, cmdLineValue, hl, hne, hty] <;>
      (try (split <;> split <;> simp_all))

/-- the order is strict: nine layers all present, each removed in turn -/
example : winner ⟨[(false, ['x'])], some ['e'], some (.s ['d']), some (.raw ['a']), some (.raw ['b']), some (.raw ['c']),
                  some (.raw ['f']), some (.raw ['g']), some (.raw ['h'])⟩ = .cmdline ∧
          winner ⟨[], some ['e'], some (.s ['d']), some (.raw ['a']), none, none, none, none, none⟩ = .environ ∧
          winner ⟨[], none, some (.s ['d']), some (.raw ['a']), none, none, none, none, none⟩ = .dodoCfg ∧
          winner ⟨[], none, none, none, some (.raw ['b']), some (.raw ['c']), some (.raw ['f']), none, none⟩ = .secToml ∧
          winner ⟨[], none, none, none, none, none, none, some (.raw ['g']), some (.raw ['h'])⟩ = .globToml ∧
          winner ⟨[], none, none, none, none, none, none, none, none⟩ = .declared := by decide

/-- **plugin sections, per name**: a name defined in `[CAT]` of doit.cfg, in `tool.doit.plugins.cat` of
    pyproject.toml and in `extra_config[CAT]` stands for the location doit.cfg gives, else pyproject.toml's, else the
    API dict's; setuptools entry points beat all three. -/
theorem plugin_layers_per_name (api toml ini eps : List (Str × Str)) (n : Str) :
    alookup n (addPlugins (pluginSection [api, toml, ini]) eps) =
      match alookup n eps with
      | some l => some l
      | none => match alookup n ini with
        | some l => some l
        | none => match alookup n toml with
          | some l => some l
          | none => alookup n api := by
  unfold addPlugins
  rw [dictUpdate_lookup, pluginSection3_lookup]
  cases alookup n eps <;> cases alookup n ini <;> cases alookup n toml <;> rfl

example : alookup ['r'] (addPlugins (pluginSection [[(['r'], ['a'])], [(['r'], ['t'])], [(['q'], ['i'])]]) []) = some ['t'] := by
  decide

/-- **`-r NAME` / `--backend NAME` accept exactly the core names and the plugin names**, and a plugin named like a
    core class replaces it -/
theorem names_accepted_exactly (core : List Str) (plugins : List (Str × Str)) (n : Str) :
    (acceptsName core plugins n = true ↔ (n ∈ core ∨ n ∈ plugins.map (·.1))) ∧
    (∀ loc, alookup n plugins = some loc → alookup n (nameTable core plugins) = some (Cls.plugin loc)) := by
  refine ⟨?_, ?_⟩
  · unfold acceptsName
    rw [nameTable_lookup]
    cases h : alookup n plugins with
    | some loc =>
      have : n ∈ plugins.map (·.1) := (alookup_isSome_iff plugins n).1 (by simp [h])
      simp [this]
    | none =>
      have : n ∉ plugins.map (·.1) := fun hm => by
        have := (alookup_isSome_iff plugins n).2 hm
        simp [h] at this
      by_cases hc : n ∈ core <;> simp [hc, this]
  · intro loc h
    rw [nameTable_lookup, h]

example : acceptsName [['d','b','m']] [(['v'], ['m',':','C'])] ['v'] = true ∧
          acceptsName [['d','b','m']] [(['v'], ['m',':','C'])] ['x'] = false := by decide

/-- **choosing by name**: a name of the table gives its class wherever it was written; an unknown reporter / backend /
    loader name is reported as `ERROR: …` (exit code 3) wherever it was written — command line, config section of any
    source, DOIT_CONFIG. -/
theorem pick_by_name (cat : Category) (w : Where) (core : List Str) (plugins : List (Str × Str)) (n : Str) :
    (∀ loc, alookup n plugins = some loc → pick cat w (nameTable core plugins) n = .cls (.plugin loc)) ∧
    (alookup n plugins = none → n ∈ core → pick cat w (nameTable core plugins) n = .cls (.core n)) ∧
    (n ∉ core → n ∉ plugins.map (·.1) → pick cat w (nameTable core plugins) n = .errorMsg) := by
  refine ⟨?_, ?_, ?_⟩
  · intro loc h; simp [pick, nameTable_lookup, h]
  · intro h hc; simp [pick, nameTable_lookup, h, hc]
  · intro hc hp
    have : alookup n plugins = none := alookup_not_mem n plugins hp
    simp [pick, nameTable_lookup, this, hc, unknownName]

example : pick .reporter .config (nameTable [['z']] []) ['q'] = .errorMsg ∧
          pick .reporter .cmdline (nameTable [['z']] []) ['q'] = .errorMsg ∧
          pick .loader .config (nameTable [] []) ['q'] = .errorMsg ∧
          pick .backend .dodo (nameTable [['z']] [(['z'], ['m',':','C'])]) ['z'] = .cls (.plugin ['m',':','C']) := by decide

/-- **a text in a config file is converted like the same text on the command line** for int / str options
    (including the `choices` check) and like the same text in the environment for every type; the precise
    differences: a bool option reads the words of `_boolean_states` from a config file / the environment while the
    command line has only the flag; a list option splits the config text at commas and strips the pieces, the command
    line appends the text as it is to the declared list. -/
theorem config_text_conversion (o : Opt) (s : Str) :
    (o.ty = .int ∨ o.ty = .str → cfgText o s = cmdText o s) ∧
    (cfgText o s = str2type o s) ∧
    (o.ty = .bool → cmdText o s = .error .noArg ∧
        cfgText o s = match str2bool s with | some b => checkChoice o (.b b) | none => .error .badBool) ∧
    (o.ty = .list → o.choices = [] → cfgText o s = .ok (.l (splitList s)) ∧ cmdText o s = listAfter o.default [s]) := by
  refine ⟨?_, rfl, ?_, ?_⟩
  · rintro (h | h) <;> simp [cfgText, cmdText, str2typeCfg, h]
  · intro h
    refine ⟨by simp [cmdText, h], ?_⟩
    simp only [cfgText, str2typeCfg, str2type, convert, h]
    cases str2bool s <;> rfl
  · intro h hc
    refine ⟨?_, by simp [cmdText, h]⟩
    simp [cfgText, str2typeCfg, str2type, convert, h, checkChoice, hc]

example : cfgText ⟨['l'], .list, .l [['d']], none, ['l'], [], [], none⟩ ['a', ',', ' ', 'b'] = .ok (.l [['a'], ['b']]) ∧
          cmdText ⟨['l'], .list, .l [['d']], none, ['l'], [], [], none⟩ ['a', ',', ' ', 'b'] = .ok (.l [['d'], ['a', ',', ' ', 'b']]) :=
  ⟨by rfl, by rfl⟩

/-- `cmdText` IS what the resolution does with `--long=s` (scalar options): the command-line step of `parse` -/
theorem cmdText_is_parse_step (st : PState) (p : Params) (o : Opt) (s : Str) (h : o.ty = .int ∨ o.ty = .str) :
    (applyOpt false st p o false s).2 = (cmdText o s).map (p.set o.name) := by
  rcases h with h | h <;> simp only [applyOpt, scalarStep, cmdText, h] <;> cases str2type o s <;> rfl

example : (applyOpt false [] Params.empty ⟨['n'], .int, .i 0, none, ['n'], [], [], none⟩ false ['x']).2.toBool = false := by
  decide

/-- before the fix of F-C16f an unknown reporter name from a config section / DOIT_CONFIG ended in a KeyError traceback
    and an unknown loader name left `DoitMain.run` as an uncaught KeyError; only the command line was checked -/
theorem pinned_unknown_reporter_name_unchecked :
    unknownNamePinned .reporter .config = .traceback3 ∧ unknownNamePinned .reporter .dodo = .traceback3 ∧
    unknownNamePinned .reporter .cmdline = .errorMsg ∧ unknownNamePinned .loader .config = .escapes ∧
    (∀ c w, unknownName c w = .errorMsg) := by
  refine ⟨rfl, rfl, rfl, rfl, ?_⟩
  intro c w; rfl

/-- **plugin entries that do not load** (`name = module:attr` with no or two colons, a module that does not import, an
    attribute the module does not have): for reporters and backends ONE such entry anywhere in the section ends the
    command in a traceback (exit code 3) whatever name is chosen, wherever, also a core name (every entry is imported
    when the command object is created); for loaders only the entry of the chosen name is imported (an exception
    leaves `DoitMain.run`), the other entries do not matter; when every entry loads, loading changes nothing. -/
theorem plugin_loading (cat : Category) (w : Where) (core : List Str) (sect : List (Str × Str))
    (mods : List (Str × List Str)) (n : Str) :
    (cat ≠ .loader → allLoad mods sect = false → pickLoaded cat w core sect mods n = .traceback3) ∧
    (∀ sect', alookup n sect' = alookup n sect → (alookup n sect).isSome →
        pickLoaded .loader w core sect' mods n = pickLoaded .loader w core sect mods n) ∧
    (allLoad mods sect = true → pickLoaded cat w core sect mods n = pick cat w (nameTable core sect) n) := by
  refine ⟨?_, ?_, ?_⟩
  · intro hc h
    cases cat <;> simp_all [pickLoaded]
  · intro sect' he hs
    cases h : alookup n sect with
    | none => simp [h] at hs
    | some loc => simp [pickLoaded, he, h]
  · intro h
    cases cat
    · simp [pickLoaded, h]
    · simp [pickLoaded, h]
    · cases hl : alookup n sect with
      | none => simp [pickLoaded, hl]
      | some loc =>
        have hm : (n, loc) ∈ sect := by
          clear h
          induction sect with
          | nil => simp [alookup] at hl
          | cons x r ih =>
            obtain ⟨a, b⟩ := x
            by_cases ha : a = n
            · subst ha; simp [alookup_cons] at hl; subst hl; simp
            · simp [alookup_cons, ha] at hl; exact List.mem_cons_of_mem _ (ih hl)
        have hload : (loadPlugin mods loc).toBool = true := by
          have := List.all_eq_true.1 h (n, loc) hm
          simpa using this
        simp [pickLoaded, hl, hload, pick, nameTable_lookup]

example : pickLoaded .reporter .cmdline [['z']] [(['q'], ['n','o',':','X'])] [(['m'], [['C']])] ['z'] = .traceback3 ∧
          pickLoaded .loader .config [] [(['q'], ['n','o',':','X']), (['p'], ['m',':','C'])] [(['m'], [['C']])] ['p']
            = .cls (.plugin ['m',':','C']) ∧
          pickLoaded .loader .config [] [(['q'], ['m'])] [(['m'], [['C']])] ['q'] = .escapes ∧
          pickLoaded .loader .config [] [(['q'], ['m'])] [(['m'], [['C']])] ['x'] = .errorMsg := by decide

/-- **the sub-command by name**: a `COMMAND` plugin named like a core command REPLACES it (also `run`, also when `run`
    is only implied); a first word that is no command name leaves the command `run` with every word as argument; only
    the entry of the command that is used has to load. -/
theorem command_by_name (core : List Str) (sect : List (Str × Str)) (mods : List (Str × List Str))
    (a : Str) (rest : List Str) :
    (∀ loc, alookup a sect = some loc → (loadPlugin mods loc).toBool = true →
        commandPick core sect mods (a :: rest) = .cls (.plugin loc)) ∧
    (alookup a sect = none → a ∈ core → commandPick core sect mods (a :: rest) = .cls (.core a)) ∧
    (a ∉ core → a ∉ sect.map (·.1) →
        subCommand (nameTable core sect) (a :: rest) = (runName, a :: rest) ∧
        commandPick core sect mods (a :: rest) = commandPick core sect mods []) := by
  refine ⟨?_, ?_, ?_⟩
  · intro loc h hl
    simp [commandPick, subCommand, nameTable_lookup, h, hl]
  · intro h hc
    simp [commandPick, subCommand, nameTable_lookup, h, hc]
  · intro hc hs
    have : alookup a sect = none := alookup_not_mem a sect hs
    simp [commandPick, subCommand, nameTable_lookup, this, hc]

example : commandPick [runName, ['l']] [(runName, ['m',':','C']), (['q'], ['b','a','d'])] [(['m'], [['C']])] [['t']]
            = .cls (.plugin ['m',':','C']) ∧
          commandPick [runName, ['l']] [(['q'], ['b','a','d'])] [(['m'], [['C']])] [['l'], ['t']] = .cls (.core ['l']) ∧
          commandPick [runName, ['l']] [(['q'], ['b','a','d'])] [(['m'], [['C']])] [['q']] = .traceback3 := by decide

/-- **precedence order for a task's option** (`Task.init_options`: `cfg_values` = the `[task:NAME]` /
    `tool.doit.tasks.NAME` / `extra_config['task:NAME']` section merged per key; neither `[GLOBAL]` nor DOIT_CONFIG is
    read): command line after the task name > environment > doit.cfg > pyproject.toml > API dict > declared default. -/
theorem precedence_order_task (o : Opt) (occ : List (Bool × Str)) (env : Option Str)
    (sApi sToml sCfg : List (Str × CfgVal)) :
    specValue o occ env none (alookup o.name (mergeLayers [sApi, sToml, sCfg])) =
      layerValue o (keyIn o.name occ env [] [] [] [] sApi sToml sCfg)
        (winner (keyIn o.name occ env [] [] [] [] sApi sToml sCfg)) ∧
    winner (keyIn o.name occ env [] [] [] [] sApi sToml sCfg) ∈
      [Layer.cmdline, .environ, .secCfg, .secToml, .secApi, .declared] := by
  have hm : ∀ c : List (Str × CfgVal), mergeCfg [] c = c := by
    intro c; simp [mergeCfg, alookup]
  have h6 : sixLayers [] [] [] sApi sToml sCfg = mergeLayers [sApi, sToml, sCfg] := by
    simp [sixLayers, mergeLayers, List.foldl, hm]
  refine ⟨?_, ?_⟩
  · have h := precedence_order o occ env [] [] [] [] sApi sToml sCfg
    rw [h6] at h
    simpa [alookup] using h
  · have key : ∀ k : KeyIn, k.dodo = none → k.globCfg = none → k.globToml = none → k.globApi = none →
        winner k ∈ [Layer.cmdline, .environ, .secCfg, .secToml, .secApi, .declared] := by
      intro k h1 h2 h3 h4
      obtain ⟨occ, env, dodo, a1, a2, a3, g1, g2, g3⟩ := k
      simp only at h1 h2 h3 h4
      subst h1 h2 h3 h4
      by_cases h0 : occ = [] <;> cases env <;> cases a1 <;> cases a2 <;> cases a3 <;> simp [winner, cfgWinner, h0]
    exact key _ rfl rfl rfl rfl

example : winner (keyIn ['p'] [] none [] [] [] [] [(['p'], .raw ['a'])] [(['p'], .raw ['t'])] []) = .secToml := by decide

end DoitModel.C16
