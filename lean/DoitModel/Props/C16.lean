import DoitModel.Proofs.Opt
/-! # C16 — option parsing is exact, pure and respects source precedence

Property theorems only (model: `Model/Opt.lean`, helpers: `Proofs/Opt*.lean`). -/
namespace DoitModel.C16
open DoitModel.Opt

/-- **pure**: `CmdParse.parse` leaves the parser object (every option's `default` included) as it found it —
    for every option table, environment and argv, also when parsing fails. -/
theorem pure (st : PState) (env : Str → Option Str) (argv : List Str) :
    (parse false st env argv).1 = st := parse_fixed_state st env argv

/-- parsing the same input twice with the same parser object gives the same result -/
theorem parse_twice (st : PState) (env : Str → Option Str) (argv : List Str) :
    parse false (parse false st env argv).1 env argv = parse false st env argv := by
  rw [pure]

end DoitModel.C16
