import DoitModel.Proofs.C19Final
import DoitModel.Proofs.C19Text
/-! # C19 — what is reported is what happened (reports and exit code)

Property theorems only (models: `Model/Run.lean` + `Model/Report.lean`; invariants: `Proofs/Run*.lean`,
`Proofs/C19*.lean`).  Quantification: every task table, selection, oracle (status / ignore / outcome / getargs errors /
calc results), `--continue` or not, every iteration order of the dispatcher's sets, every worker interleaving and
`numProcess`, every reachable state — hence every prefix of every run.  `s.events` is newest first. -/
namespace DoitModel.C19
open DoitModel.Run DoitModel.Report

/-! ### exit code -/

/-- `exit_code` (specification): 0 iff nothing failed, 1 iff something failed and every failure is a `TaskFailed`,
    2 iff some failure is an error (`TaskError`, `UnmetDependency`, `DependencyError`); never anything else -/
theorem C19_exit_spec (ks : List FailKind) :
    (exitSpec ks = 0 ↔ ks = []) ∧ (exitSpec ks = 1 ↔ ks ≠ [] ∧ ∀ k ∈ ks, k = .failed) ∧
    (exitSpec ks = 2 ↔ ∃ k ∈ ks, k ≠ .failed) ∧ exitSpec ks ≤ 2 :=
  ⟨exitSpec_eq_zero, exitSpec_eq_one, exitSpec_eq_two, exitSpec_le_two ks⟩

/-- the exit code does not depend on the order in which failures are reported (parallel arrival orders, `--continue`):
    it is a function of the multiset — indeed of the set — of failure kinds -/
theorem C19_exit_order_independent (ks ks' : List FailKind) (h : ks.Perm ks') : exitSpec ks = exitSpec ks' :=
  exitSpec_perm h

/-- `_handle_task_error`'s incremental rule (FAILURE only overrides SUCCESS, ERROR is sticky) computes the
    specification, whatever the order of the reports -/
theorem C19_final_fold (evs : List Ev) : finalEv evs = exitSpec (failKinds evs) := finalEv_eq_spec evs

/-- `exit_code`, serial runner: in every reachable state `Runner.final_result` is `exitSpec` of the failure kinds
    reported so far, and the command's exit code is 3 exactly when an exception left `run_all` (cyclic dependency
    found by the dispatcher, internal error), else that value -/
theorem C19_exit_code_serial (inp : RunInput) (s : Sys) (hr : Reach inp s) :
    s.final = exitSpec (failKinds s.events) ∧ exitCode s = exitOf s.halt (failKinds s.events) := by
  have h := (reach_inv19 hr).fin
  rw [finalEv_eq_spec] at h
  refine ⟨h, ?_⟩
  unfold exitCode exitOf; cases s.halt <;> simp [h]

/-- `exit_code`, parallel runners (every worker interleaving, every result arrival order) -/
theorem C19_exit_code_parallel (inp : RunInput) (s : Sys) (hr : PReach inp s) :
    s.final = exitSpec (failKinds s.events) ∧ exitCode s = exitOf s.halt (failKinds s.events) := by
  have h := (preach_inv19 hr).fin
  rw [finalEv_eq_spec] at h
  refine ⟨h, ?_⟩
  unfold exitCode exitOf; cases s.halt <;> simp [h]

/-- the rule of the mutant "FAILURE overrides ERROR" (`final_result = FAILURE` for every `TaskFailed`) is order
    dependent and disagrees with the specification: error then failure gives 1 -/
theorem C19_sticky_error_needed :
    let bad := fun (fin : Nat) (k : FailKind) => if k = .failed then 1 else 2
    [FailKind.error, .failed].foldl bad 0 = 1 ∧ [FailKind.failed, .error].foldl bad 0 = 2 ∧
    exitSpec [.error, .failed] = 2 := by decide

/-! ### one final report, matching what happened -/

/-- `one_final_report`: a task that is not finished (unprocessed, selected, running) has no final report; a finished
    one has exactly one — `add_success` iff `successful`, `skip_uptodate` iff `up-to-date`, `skip_ignore` iff `ignore`,
    `add_failure` iff `failure` -/
def OneFinalReport (reach : Sys → Prop) : Prop :=
  ∀ s, reach s → ∀ n : Name,
    ((stOf s n).finished = false → s.events.filter (Ev.isTerminalOf n) = []) ∧
    ((stOf s n).finished = true → ∃ e, s.events.filter (Ev.isTerminalOf n) = [e] ∧ reportFor n (stOf s n) e)

theorem C19_one_final_report_serial (inp : RunInput) : OneFinalReport (Reach inp) :=
  fun _ hr n => one_final_report (reach_inv19 hr) (reach_inv2 hr) (reach_inv3 hr) n

theorem C19_one_final_report_parallel (inp : RunInput) : OneFinalReport (PReach inp) :=
  fun _ hr n => one_final_report (preach_inv19 hr) (preach_inv hr).1 (preach_inv hr).2 n

/-- the discipline of the callback stream — the decidable predicate `repOrd` that the driver evaluates on every
    implementation trace — holds in every reachable state: `get_status n` is the first thing reported about `n`;
    `execute_task n` comes after it, at most once, before any final report of `n`, and (when reports are not
    forwarded) before the action's start mark; `add_success` / `add_failure(TaskFailed | TaskError)` only after
    the end mark of the action and after `execute_task n`; `skip_*` and `add_failure(UnmetDependency)` only for
    tasks that were neither announced nor started; every final report is the first one of its task -/
theorem C19_report_order_serial (inp : RunInput) (s : Sys) (hr : Reach inp s) :
    repOrd (exOf inp) false (fun _ => false) s.events = true := (reach_inv19 hr).ord

theorem C19_report_order_parallel (inp : RunInput) (s : Sys) (hr : PReach inp s) :
    repOrd (exOf inp) false (fun _ => false) s.events = true := (preach_inv19 hr).ord

/-- the same for the OBSERVABLE trace (`Run.trace`: what the harness records for the implementation), with exactly the
    parameters the driver's monitor `C19_report_order` uses for the serial and the thread runner -/
theorem C19_report_monitor (inp : RunInput) (s : Sys) (hr : Reach inp s ∨ PReach inp s) :
    repOrd (exOf inp) false inp.noAct (trace inp s).reverse = true := by
  have h : Inv19 inp s := hr.elim reach_inv19 preach_inv19
  rw [trace_reverse]; exact repOrd_filter inp _ _ _ h.ord

/-- `execute_task t` is present iff the actions of `t` were started (serial and thread runner: the report is made by
    the thread that executes), as many times (at most once, `C02_at_most_once`) -/
theorem C19_execute_iff_started (inp : RunInput) (hp : inp.runner ≠ .process) (s : Sys)
    (hr : Reach inp s ∨ PReach inp s) (n : Name) :
    s.events.countP (Ev.isExecOf n) = s.events.countP (Ev.isStartOf n) := by
  have h : Inv19 inp s := hr.elim reach_inv19 preach_inv19
  have := h.ex n
  simpa [cExec, cStart, hp] using this

/-- … and it precedes the final report: the events older than an `execute_task n` contain `get_status n` and no final
    report of `n`; the events older than `add_success n` contain `execute_task n` and the end of the action -/
theorem C19_execute_precedes_report (inp : RunInput) (hp : inp.runner ≠ .process) (s : Sys)
    (hr : Reach inp s ∨ PReach inp s) (pre post : List Ev) (n : Name) :
    (s.events = pre ++ Ev.execute n :: post →
      post.any (Ev.isGetStatusOf n) = true ∧ post.any (Ev.isTerminalOf n) = false) ∧
    (s.events = pre ++ Ev.success n :: post →
      post.any (Ev.isExecOf n) = true ∧ post.any (Ev.isFinOf n) = true ∧ post.any (Ev.isTerminalOf n) = false) := by
  have h : Inv19 inp s := hr.elim reach_inv19 preach_inv19
  have ho := h.ord
  rw [exOf_true hp] at ho
  constructor
  · intro he; rw [he] at ho
    have := repOrd_at ho
    simp only [repOK, firstFinal, Bool.and_eq_true, Bool.not_eq_true'] at this
    exact ⟨this.1.1, this.1.2⟩
  · intro he; rw [he] at ho
    have := repOrd_at ho
    simp only [repOK, firstFinal, Bool.and_eq_true, Bool.not_eq_true', Bool.false_or, Bool.not_true] at this
    exact ⟨this.2, this.1.2, this.1.1.2⟩

/-- reports crossing the process boundary (`MReporter`): each worker puts, per task, the forwarded `execute_task`
    report and then the result on the result queue; whatever interleaving of the producers a FIFO queue delivers
    (`Merge`), the main process sees `execute_task n` before the result of `n` — hence before the final report that
    `process_task_result` makes from it -/
theorem C19_forwarded_execute_before_result (tasksOf : Nat → List Name) (q : List Msg)
    (hm : Merge (fun w => workerMsgs (tasksOf w)) q) (pre post : List Msg) (n : Name)
    (hq : q = pre ++ Msg.res n :: post) : Msg.rep n ∈ pre := by
  have := merge_rep_before_res hm [] (fun w => Or.inl ⟨tasksOf w, rfl⟩) pre post n hq
  simpa using this

/-! ### the process runner: reports crossing the process boundary (`MReporter`) as part of the run

`FReach`: `MRunner` + `MReporter` as one transition system (`Model/Report.lean`): the run model plus the real result
queue carrying the workers' forwarded `execute_task` reports and their results in FIFO order; the main process can
only take the head of the queue. -/

/-- `one_final_report` through `MReporter`: in every reachable state of the process runner with forwarded reports
    * the callback stream satisfies the report discipline with `execute_task` reports included — exactly the
      instance of `repOrd` the driver evaluates on real process-mode traces: every `execute_task n` is delivered after
      `get_status n`, at most once and before any final report of `n`; `add_success` / `add_failure(TaskFailed |
      TaskError)` of `n` only after `execute_task n` was delivered and the action ended (FIFO: the forwarded report is
      ahead of the result on the queue);
    * `execute_task n` reports delivered + still on the queue = starts of `n`'s actions: none is lost or duplicated, so
      once the queue is drained `execute_task n` is present iff the actions of `n` were started;
    * each task has no final report while unfinished and exactly the matching one when finished;
    * `final_result` is `exitSpec` of the failure kinds reported. -/
theorem C19_process_runner_reports (inp : RunInput) (hp : inp.runner = .process) (f : FSys) (hr : FReach inp f) :
    repOrd true true (fun _ => false) f.base.events = true ∧
    repOrd true true inp.noAct (trace inp f.base).reverse = true ∧
    (∀ n, f.base.events.countP (Ev.isExecOf n) + f.fq.count (.rep n) = f.base.events.countP (Ev.isStartOf n)) ∧
    (f.fq = [] → ∀ n, f.base.events.countP (Ev.isExecOf n) = f.base.events.countP (Ev.isStartOf n)) ∧
    (∀ n, ((stOf f.base n).finished = false → f.base.events.filter (Ev.isTerminalOf n) = []) ∧
      ((stOf f.base n).finished = true →
        ∃ e, f.base.events.filter (Ev.isTerminalOf n) = [e] ∧ reportFor n (stOf f.base n) e)) ∧
    f.base.final = exitSpec (failKinds f.base.events) ∧
    exitCode f.base = exitOf f.base.halt (failKinds f.base.events) := by
  have h := freach_inv hp hr
  have hfin := h.fb.fin
  rw [finalEv_eq_spec] at hfin
  refine ⟨h.fb.ord, ?_, h.fb.ex, ?_, fun n => one_final_report_core h.fb.fl h.fb.ig h.b2 h.b3 n, hfin, ?_⟩
  · rw [trace_reverse]; exact repOrd_filter inp _ _ _ h.fb.ord
  · intro hq n
    have := h.fb.ex n
    simp only [pendOf, hq, List.count_nil, Nat.add_zero] at this
    exact this
  · unfold exitCode exitOf; cases f.base.halt <;> simp [hfin]

/-- the queue discipline itself: the results on the real queue are the model's `resQ`; a forwarded report is never
    behind the result of its task; a task whose report is still on the queue is still `run` (not yet reported) -/
theorem C19_forward_queue (inp : RunInput) (hp : inp.runner = .process) (f : FSys) (hr : FReach inp f) :
    f.fq.filterMap Msg.resName = f.base.resQ ∧
    (∀ pre post n, f.fq = pre ++ Msg.res n :: post → Msg.rep n ∉ post) ∧
    (∀ n, Msg.rep n ∈ f.fq → stOf f.base n = .run) :=
  let h := freach_inv hp hr
  ⟨h.q3, h.q1, h.q2⟩

/-- the final report is the true one, as far as the oracle of the case decides it (`truthLite`, the dependency-free
    part of the driver's monitor `C19_truth`): `add_success n` only if the action of `n` succeeded; `add_failure` with
    `TaskFailed` / `TaskError` only if the action failed / raised; `DependencyError` after the start only if saving
    failed, before it only if `get_status` answered `error` or the getargs values could not be fetched;
    `skip_uptodate n` only if `n` is up-to-date (and not `--always-execute`) and not ignored -/
theorem C19_report_true_to_oracle (inp : RunInput) (s : Sys) (hr : Reach inp s ∨ PReach inp s) :
    truthLiteOrd inp s.events = true :=
  (hr.elim reach_inv19 preach_inv19).tl

theorem C19_report_true_to_oracle_process (inp : RunInput) (hp : inp.runner = .process) (f : FSys)
    (hr : FReach inp f) : truthLiteOrd inp f.base.events = true :=
  (freach_inv hp hr).fb.tl

/-! ### the JSON reporter -/

/-- `json`: whenever no task is left selected / executing (in particular at the end of a run) the `JsonReporter`
    bookkeeping (`t_results`, `TaskResult.start` / `set_result` / `to_dict`, `complete_run`), fed with the callbacks of
    the run, produces a document — no `KeyError`, no `TypeError` — whose task list has no duplicate names, lists
    exactly the tasks that were looked at, each with the result string of its final report (`null` if it has none: a
    task that was only selected) and with timing iff `execute_task` was reported.  (Validity of `json.dump` is
    trusted.)  Serial and thread runner; the document is the same whether computed from the observable trace or from
    the raw event list. -/
theorem C19_json (inp : RunInput) (hp : inp.runner ≠ .process) (s : Sys) (hr : Reach inp s ∨ PReach inp s)
    (hrun : ∀ n, stOf s n ≠ .run) :
    ∃ doc, jsonOf (trace inp s) = some doc ∧ (doc.map (·.name)).Nodup ∧
      (∀ n, (∃ o ∈ doc, o.name = n) ↔ s.events.any (Ev.isGetStatusOf n) = true) ∧
      (∀ o ∈ doc, o.result = (s.events.find? (Ev.isTerminalOf o.name)).bind resOf ∧
                  o.timed = s.events.any (Ev.isExecOf o.name)) := by
  have h : Inv19 inp s := hr.elim reach_inv19 preach_inv19
  rw [jsonOf_trace]
  exact json_ok s.events h.ord (all_reported h hp hrun)

/-- … in particular each processed task is listed exactly once, with its true result: for every final report `e` of
    a task `n` in the trace, exactly one entry of the document is named `n`, and its result is the result string of
    `e` (`success` / `fail` / `up-to-date` / `ignore`) -/
theorem C19_json_lists_each_processed_task_once (inp : RunInput) (hp : inp.runner ≠ .process) (s : Sys)
    (hr : Reach inp s ∨ PReach inp s) (hrun : ∀ n, stOf s n ≠ .run) (pre post : List Ev) (e : Ev) (n : Name)
    (hsplit : s.events = pre ++ e :: post) (ht : Ev.isTerminalOf n e = true) :
    ∃ doc, jsonOf (trace inp s) = some doc ∧ (doc.filter fun o => o.name == n).length = 1 ∧
      ∀ o ∈ doc, o.name = n → o.result = resOf e := by
  have h : Inv19 inp s := hr.elim reach_inv19 preach_inv19
  rw [jsonOf_trace]
  exact json_lists_final_report s.events h.ord (all_reported h hp hrun) pre post e n hsplit ht

/-! ### non-vacuity -/

/-- `1`, `2` independent; `3` depends on both; `1` fails, `2` errors; `--continue`; two worker threads -/
def exMixed : RunInput :=
  { taskDep := fun n => if n = 3 then [1, 2] else []
    calcDep := fun _ => [], setup := fun _ => []
    outcome := fun n => if n = 1 then .failed else if n = 2 then .error else .ok
    sel := [3, 0], continue_ := true, runner := .thread, numProc := 2 }

/-- a run in which a `TaskFailed`, a `TaskError` and an `UnmetDependency` are all reported, one task succeeds, and the
    exit code is 2 -/
example : ∃ s, PReach exMixed s ∧ s.events.contains Ev.complete = true ∧
    s.events.contains (Ev.failure 1 .failed) = true ∧ s.events.contains (Ev.failure 2 .error) = true ∧
    s.events.contains (Ev.failure 3 .unmet) = true ∧ s.events.contains (Ev.success 0) = true ∧ exitCode s = 2 :=
  ⟨_, autoRun_preach (by decide) false true 400 _ PReach.init, by decide +kernel⟩

/-- the same graph, serial, only the `TaskFailed`: exit code 1 -/
example : ∃ s, Reach { exMixed with runner := .serial, numProc := 0, sel := [1, 0] } s ∧
    s.events.contains Ev.complete = true ∧ exitCode s = 1 :=
  ⟨_, autoRun_reach (by decide) false false 400 _ Reach.init, by decide +kernel⟩

/-- the hypothesis of `C19_json` holds at the end of that run, and the document lists the four tasks with their
    results (task `3` failed before being started: no timing) -/
example : ∃ s, PReach exMixed s ∧ (∀ n, n < 6 → stOf s n ≠ .run) ∧
    jsonOf (trace exMixed s) = some [⟨1, some .fail, true⟩, ⟨2, some .fail, true⟩, ⟨0, some .success, true⟩,
      ⟨3, some .fail, false⟩] :=
  ⟨_, autoRun_preach (by decide) false true 400 _ PReach.init, by decide +kernel, by decide +kernel⟩

/-- the process runner with forwarded reports on the same graph: the run completes, the queue is drained, all three
    executed tasks were announced, and the report of task `2` was delivered while task `1` was still running -/
example : ∃ f, FReach { exMixed with runner := .process } f ∧ f.base.events.contains Ev.complete = true ∧ f.fq = [] ∧
    ((List.range 4).all fun n => f.base.events.countP (Ev.isExecOf n) == f.base.events.countP (Ev.isStartOf n)) = true ∧
    f.base.events.countP (Ev.isExecOf 1) = 1 ∧ exitCode f.base = 2 :=
  ⟨_, fauto_reach 500 _ FReach.init, by decide +kernel, by decide +kernel, by decide +kernel, by decide +kernel,
    by decide +kernel⟩

/-- a real interleaving of two producers: the queue hypothesis of `C19_forwarded_execute_before_result` is satisfiable
    with the second worker's messages between the first one's -/
example : Merge (fun w => workerMsgs (if w = 0 then [5] else if w = 1 then [7] else []))
    [.rep 5, .rep 7, .res 7, .res 5] := by
  refine Merge.cons 0 [.res 5] (by simp [workerMsgs]) ?_
  refine Merge.cons 1 [.res 7] (by simp [workerMsgs]) ?_
  refine Merge.cons 1 [] (by simp) ?_
  refine Merge.cons 0 [] (by simp) ?_
  refine Merge.nil ?_
  intro w; by_cases h0 : w = 0 <;> by_cases h1 : w = 1 <;> simp [h0, h1, workerMsgs]

/-! ### the text reporters (`Model/ReportText.lean`): every reporter-call sequence, every task table -/
section Text
open DoitModel.ReportText

/-- `console_decode`: from the progress lines (`.  t` / `-- t` / `!! t`) of everything `ConsoleReporter` wrote one
    recovers exactly the sequence of (task, executed | up-to-date | ignored) of the visible tasks, in order — nothing
    else is printed with these prefixes, nothing visible is missing, whatever other calls (failures, runtime errors,
    `complete_run` anywhere) are interleaved.  Visible: `execute_task` of a task with actions whose full name does not
    start with `_`; `skip_uptodate` of a task whose name does not start with `_`; every `skip_ignore` -/
theorem C19_console_decode (fv : Nat) (tk : Nat → TaskI) (cs : List RCall) :
    decodeProgress (ReportText.run .console fv tk cs).out = cs.filterMap (RCall.happened tk) := by
  have := run_progress fv tk cs {}
  simpa [ReportText.run, decodeProgress] using this

/-- `summary_lists_each_failure_once` (ConsoleReporter and ExecutedOnlyReporter): `self.failures` is exactly the
    failures handed over with `report=True`, in order of occurrence (two failures of the same task are two entries);
    each got exactly one header line when it was reported; and a `complete_run` at the end of any call sequence
    writes one block per such failure whose task was executed and for which `show_err or show_out` holds, in that
    order, each once -/
theorem C19_summary_lists_each_failure_once (c : Cls) (hc : isCon c = true) (fv : Nat) (tk : Nat → TaskI)
    (cs : List RCall) :
    (ReportText.run c fv tk cs).failures = cs.filterMap RCall.reported ∧
    (ReportText.run c fv tk cs).out.filterMap Line.hdr = cs.filterMap RCall.reported ∧
    decodeBlocks (summary fv tk (ReportText.run c fv tk cs)) =
      ((cs.filterMap RCall.reported).filter (shown fv tk)).map (·.1) := by
  have h := run_failures c hc fv tk cs {}
  simp only [List.nil_append, List.filterMap_nil] at h
  refine ⟨h.1, h.2, ?_⟩
  rw [decodeBlocks_summary]; unfold ReportText.run; rw [h.1]

/-- with the defaults (every failed task executed, task verbosity 0) the summary names every reported failure -/
theorem C19_summary_default (c : Cls) (hc : isCon c = true) (fv : Nat) (tk : Nat → TaskI) (cs : List RCall)
    (hd : ∀ t, (tk t).executed = true ∧ (tk t).verb = 0) :
    decodeBlocks (summary fv tk (ReportText.run c fv tk cs)) = (cs.filterMap RCall.reported).map (·.1) := by
  rw [(C19_summary_lists_each_failure_once c hc fv tk cs).2.2]
  congr 1
  apply List.filter_eq_self.mpr
  intro p _
  simp [shown, showErr, showOut, hd p.1]

/-- `executed_only_is_filter`: for every call sequence `ExecutedOnlyReporter` writes what `ConsoleReporter` writes
    minus the skip lines (`-- t`, `!! t`), keeps the same failure list and runtime errors, and sends the same text
    to stderr — a custom title, a failure, a summary change nothing about that -/
theorem C19_executed_only_is_filter (fv : Nat) (tk : Nat → TaskI) (cs : List RCall) :
    (ReportText.run .executedOnly fv tk cs).out = (ReportText.run .console fv tk cs).out.filter (fun l => !l.isSkip) ∧
    (ReportText.run .executedOnly fv tk cs).failures = (ReportText.run .console fv tk cs).failures ∧
    (ReportText.run .executedOnly fv tk cs).err = (ReportText.run .console fv tk cs).err := by
  have h := run_eo fv tk cs {} {} ⟨rfl, rfl, rfl, rfl⟩
  exact ⟨h.out, h.failures, h.err⟩

/-- `zero_is_errors_only`: `ZeroReporter` writes nothing to `outstream`, whatever is reported; the runtime errors and
    cleanup errors go to stderr, in order.  `ErrorOnlyReporter` writes exactly one header + message per failure with
    `report=True`, in order, and nothing else -/
theorem C19_zero_is_errors_only (fv : Nat) (tk : Nat → TaskI) (cs : List RCall) :
    (ReportText.run .zero fv tk cs).out = [] ∧
    (ReportText.run .zero fv tk cs).err = cs.filterMap (RCall.stderrMsg .zero) ∧
    (ReportText.run .errorOnly fv tk cs).out =
      (cs.filterMap RCall.reported).flatMap (fun p => [Line.eoHdr p.1 p.2, Line.failMsg p.2]) ∧
    (ReportText.run .errorOnly fv tk cs).err = cs.filterMap (RCall.stderrMsg .errorOnly) := by
  have hz := run_zero .zero rfl fv tk cs {}
  have he := run_zero .errorOnly rfl fv tk cs {}
  simp only [List.nil_append] at hz he
  refine ⟨?_, hz.1, ?_, he.1⟩
  · simpa [ReportText.run] using hz.2
  · simpa [ReportText.run] using he.2

/-- non-vacuity: a hidden task, a task without actions, an ignored hidden task, two failures of the same task (one
    not reported), a runtime error; exact text of the console reporter -/
def exTk : Nat → TaskI := fun t =>
  if t = 0 then { name := "a", title := "a => custom" } else if t = 1 then { name := "_h", title := "_h" }
  else if t = 2 then { name := "g", title := "g", hasActions := false } else { name := "g:_x", title := "g:_x" }
def exCalls : List RCall :=
  [.getStatus 0, .execute 0, .addFailure 0 ⟨"TaskFailed", "m1", true⟩, .execute 1, .addSuccess 1, .execute 2,
   .skipIgn 1, .skipUtd 1, .skipUtd 3, .addFailure 0 ⟨"TaskError", "m2", true⟩, .addFailure 3 ⟨"X", "m3", false⟩,
   .runtimeError "boom", .complete]

example : decodeProgress (ReportText.run .console 0 exTk exCalls).out =
      [(0, .executed), (1, .ignored), (3, .upToDate)] ∧
    decodeBlocks (summary 0 exTk (ReportText.run .console 0 exTk exCalls)) = [0, 0] ∧
    (ReportText.run .executedOnly 0 exTk exCalls).out.length + 2 = (ReportText.run .console 0 exTk exCalls).out.length ∧
    (ReportText.run .errorOnly 0 exTk exCalls).out.length = 4 ∧
    (ReportText.run .zero 0 exTk exCalls).err = ["boom"] := by decide

end Text

end DoitModel.C19
