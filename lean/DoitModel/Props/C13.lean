import DoitModel.Proofs.C13Forget
import DoitModel.Proofs.C13Fuel
import DoitModel.Proofs.C13Ignore
import DoitModel.Proofs.C13Reset
import DoitModel.Proofs.C13Spec
/-! # C13 — forget, ignore and reset-dep have exactly their documented effect

Model: `Model/Cmds.lean` (task graph, target lists of the three commands, a run that honours ignore marks) on the
M2 state of `Model/Status.lean`.  Only property theorems, their non-vacuity examples and the counterexample
theorems of the two pinned defects live here; lemmas are in `Proofs/C13*.lean`. -/
namespace DoitModel.C13
open DoitModel.Status DoitModel.Cmds

/-- **forget (effect on the DB).**  For every well-formed task set (every declared `task_dep` / `setup` names a task:
    enforced by the loader, C18; decidable, evaluated by the driver on every case), DB state, argument form and
    `default_tasks` setting: unless an argument names no task (then nothing changes, `C13_forget_unknown_name`), after
    `forget` the record of every task of the documented selection `ForgetSel` is empty, every other record is what it
    was, and files, task definitions and checker are untouched. -/
theorem C13_forget (g : Graph) (hwf : g.WF = true) (a : ForgetArgs) (dflt : Option (List Name)) (s : St)
    (hknown : ∀ n, forgetTarget true g a dflt ≠ .notATask n) :
    (∀ x, ForgetSel g a dflt x → (forgetCmd true g a dflt s).rcd x = Rcd.empty) ∧
    (∀ x, ¬ForgetSel g a dflt x → (forgetCmd true g a dflt s).rcd x = s.rcd x) ∧
    (forgetCmd true g a dflt s).fs = s.fs ∧ (forgetCmd true g a dflt s).defs = s.defs := by
  have hfuel := forgetTarget_ne_fuel true g hwf a dflt
  have hspec := forgetTarget_spec g a dflt
  unfold forgetCmd
  cases ht : forgetTarget true g a dflt with
  | tasks l =>
    rw [ht] at hspec
    simp only
    refine ⟨?_, ?_, (eraseList_fs l s).1, (eraseList_fs l s).2.1⟩
    · intro x hx; rw [eraseList_rcd]; simp [(hspec x).2 hx]
    · intro x hx
      have hnl : x ∉ l := fun h => hx ((hspec x).1 h)
      rw [eraseList_rcd]; simp [hnl]
  | everything =>
    simp only
    rw [ht] at hspec
    exact ⟨fun x _ => rfl, fun x hx => absurd (hspec x) hx, rfl, rfl⟩
  | nothing =>
    rw [ht] at hspec
    exact ⟨fun x hx => absurd hx (hspec x), fun x _ => rfl, rfl, rfl⟩
  | notATask n => exact absurd ht (hknown n)
  | crash => rw [ht] at hspec; exact hspec.elim
  | fuel => exact absurd ht hfuel

/-- `fuel_suffices`: the closure iteration of the model (`tasks_and_deps_iter`) always ends within its fuel -/
theorem C13_forget_fuel_suffices (fixed : Bool) (g : Graph) (hwf : g.WF = true) (a : ForgetArgs)
    (dflt : Option (List Name)) : forgetTarget fixed g a dflt ≠ .fuel := forgetTarget_ne_fuel fixed g hwf a dflt

/-- **forget ignores `calc_dep`.**  Neither the target list nor the effect of `forget` (any argument form, also
    `--follow-sub`) depends on the `calc_dep` edges of the task set: a task that only *provides* calculated
    dependencies to a forgotten task keeps its saved state and its ignore mark (it is in `ForgetSel` only if it is
    named or reached over declared `task_dep` / `setup` edges, `C13_forget`). -/
theorem C13_forget_ignores_calc_dep (fixed : Bool) (g : Graph) (c : Name → List Name) (a : ForgetArgs)
    (dflt : Option (List Name)) (s : St) :
    forgetTarget fixed { g with calcDep := c } a dflt = forgetTarget fixed g a dflt ∧
    forgetCmd fixed { g with calcDep := c } a dflt s = forgetCmd fixed g a dflt s := by
  refine ⟨forgetTarget_calcDep fixed g c a dflt, ?_⟩
  unfold forgetCmd
  rw [forgetTarget_calcDep]

/-- an argument (or a configured default task) that names no task: the command is rejected, nothing is forgotten -/
theorem C13_forget_unknown_name (g : Graph) (a : ForgetArgs) (dflt : Option (List Name)) (s : St) (n : Name)
    (h : forgetTarget true g a dflt = .notATask n) :
    forgetCmd true g a dflt s = s ∧ n ∉ g.names ∧ n ∈ (selTasks a.names dflt).getD [] := by
  have hspec := forgetTarget_spec g a dflt
  rw [h] at hspec
  exact ⟨by simp [forgetCmd, h], hspec.2.2, hspec.2.1⟩

/-- `--follow-sub` follows *setup* edges and the sub-tasks of a group: `b: setup=[a]`, group `2` with sub-task `3`
    that has `task_dep=[b]`; `forget -s 2` clears 2, 3, b and a, and nothing else (task 4) -/
def gEx : Graph :=
  { names := [0, 1, 2, 3, 4]
    taskDep := fun t => if t = 2 then [3] else if t = 3 then [1] else []
    setup := fun t => if t = 1 then [0] else []
    subOf := fun t => if t = 3 then some 2 else none }

example : gEx.WF = true := by decide

/-- non-vacuity: task 4 gets `calc_dep = [0]`; `forget -s 4` still clears only task 4, while the run hands `0` over
    before `4` (`hardDeps`) -/
example : forgetTarget true { gEx with calcDep := fun t => if t = 4 then [0] else [] } ⟨[4], true, false, false⟩ none
      = .tasks [4] ∧
    hardDeps { gEx with calcDep := fun t => if t = 4 then [0] else [] } (fun _ => TaskDef.empty) 4 = [0] := by decide

example : forgetTarget true gEx ⟨[2], true, false, false⟩ none = .tasks [2, 3, 1, 0] := by decide
example : forgetTarget true gEx ⟨[2], false, false, false⟩ none = .tasks [2, 3] := by decide
example : forgetTarget true gEx ⟨[], false, false, false⟩ (some [4]) = .tasks [4] := by decide
example : forgetTarget true gEx ⟨[], false, false, false⟩ none = .tasks [0, 1, 2, 3, 3, 4] := by decide
example : forgetTarget true gEx ⟨[7], false, false, false⟩ none = .notATask 7 := by decide

/-- F-C13a, the pinned tree: `doit forget` with no argument and no `default_tasks` iterates over `None`
    (`TypeError`), nothing is forgotten; the repaired code forgets every task -/
theorem C13_pinned_forget_counterexample :
    forgetTarget false gEx ⟨[], false, false, false⟩ none = .crash ∧
    forgetTarget false gEx ⟨[], true, false, false⟩ none = .crash ∧
    forgetTarget true gEx ⟨[], false, false, false⟩ none = .tasks [0, 1, 2, 3, 3, 4] := by decide

/-- **forget (next run).**  A forgotten task -- its record is empty, `C13_forget` -- whose up-to-date decision consults
    saved state (it has a file dependency) is not skipped as up-to-date in the next run, whatever the selection, the
    hand-over order and the other tasks do (`status_of_empty_record`: the status is `run`, or `error` when a
    dependency is missing).  Tasks whose only criteria are constant `uptodate` items are documented to be up-to-date
    without saved state (DESIGN §5, readings). -/
theorem C13_forgotten_not_skipped (g : Graph) (s : St) (order : List Name) (always : Bool) (plan : Name → Plan)
    (hnd : order.Nodup) (t : Name) (ht : t ∈ order) (hr : s.rcd t = Rcd.empty) (hd : (s.defs t).deps ≠ []) :
    ∃ o, outOf (runAll true always g plan s order) t = some o ∧ o ≠ .upToDate :=
  runAll_forgotten true always g plan s order hnd t ht hr hd

/-- ... and when nothing else stands in the way (no ignored / failed dependency or setup-task, every file
    dependency present) it is executed -/
theorem C13_forgotten_status (fixed : Bool) (s : St) (t : Name) (hr : s.rcd t = Rcd.empty)
    (hd : (s.defs t).deps ≠ []) (hp : (s.defs t).deps.any (depMissing s.fs) = false) : s.status fixed t = .run := by
  unfold St.status; rw [hr]
  rcases statusOf_empty fixed s.checker (s.defs t) s.fs s.resOf hd with h | h
  · exact h
  · rw [hp] at h; exact absurd h.2 (by simp)

/-! ## ignore -/

/-- **ignore (the command).**  `doit ignore names` (all names known, at least one): exactly the named tasks and their
    sub-tasks get the mark, the rest of their records and every other record, the files and the definitions are
    untouched. -/
theorem C13_ignore_cmd (g : Graph) (names l : List Name) (s : St) (h : ignoreTarget g names = .tasks l) :
    (∀ x, x ∈ l ↔ x ∈ names ∨ ∃ t ∈ names, x ∈ subtasks g t) ∧
    (∀ x, x ∈ l → (ignoreCmd g names s).rcd x = { s.rcd x with ign := true }) ∧
    (∀ x, x ∉ l → (ignoreCmd g names s).rcd x = s.rcd x) ∧
    (ignoreCmd g names s).fs = s.fs ∧ (ignoreCmd g names s).defs = s.defs := by
  have hl : l = withSubs g names := by
    unfold ignoreTarget at h
    split at h
    · cases h
    · split at h
      · cases h
      · injection h with h; exact h.symm
  subst hl
  refine ⟨fun x => mem_withSubs g names x, ?_, ?_, ?_, ?_⟩
  · intro x hx; simp only [ignoreCmd, h]; rw [ignList_rcd]; simp [hx]
  · intro x hx; simp only [ignoreCmd, h]; rw [ignList_rcd]; simp [hx]
  · simp only [ignoreCmd, h]; exact (ignList_frame _ s).1
  · simp only [ignoreCmd, h]; exact (ignList_frame _ s).2.1

/-- **ignore (any later run).**  In every run -- any selection, flags, action outcomes, and any hand-over order
    without repetition in which no task is handed over before a dependency it needs has its report (`bad = false`;
    that is C01's theorem about the dispatcher, evaluated by the driver on every observed run) -- every processed task
    that carries the mark or reaches a marked task over `task_dep` edges (declared or implicit through a target) is
    reported ignored, and every processed task with such a task among its setup-tasks is not executed.  (The monitor
    is stricter on the last clause: such a task must be reported ignored / up-to-date / dependency-error, or unmet
    only when one of its `task_dep`s failed -- the model satisfies that too, `runOne` checks the ignored setup-tasks
    before the failed ones; it is not part of this statement.) -/
theorem C13_ignore_run (g : Graph) (s : St) (order : List Name) (always : Bool) (plan : Name → Plan)
    (hnd : order.Nodup) (hbad : (runAll true always g plan s order).bad = false) (t : Name) (ht : t ∈ order) :
    (IgnReach g s.defs (fun k => (s.rcd k).ign) t → outOf (runAll true always g plan s order) t = some .ignored) ∧
    ((∃ d, d ∈ g.setup t ∧ IgnReach g s.defs (fun k => (s.rcd k).ign) d) →
      ∃ o, outOf (runAll true always g plan s order) t = some o ∧ o.executed = false) := by
  have h0 : RunInv g s.defs (fun k => (s.rcd k).ign) [] ⟨s, [], false⟩ :=
    ⟨rfl, fun _ _ => rfl, fun _ _ => rfl, fun _ hk => absurd hk (by simp)⟩
  have h02 : SetupInv g s.defs (fun k => (s.rcd k).ign) [] ⟨s, [], false⟩ := fun _ hk => absurd hk (by simp)
  obtain ⟨i1, i2⟩ := foldl_inv2 always g plan s.defs (fun k => (s.rcd k).ign) order [] ⟨s, [], false⟩ hnd
    (fun _ _ => by simp) h0 h02 hbad
  have hmem : t ∈ order.reverse ++ [] := by simp [ht]
  exact ⟨fun hr => i1.ignored t hmem hr, fun hex => i2 t hmem hex⟩

/-- the operations after which a mark on `T` is still there: everything except a `forget` whose documented selection
    contains `T` (file edits, runs, `reset-dep`, further `ignore`s, changes of `--check_file_uptodate`, `forget`s of
    other tasks) -/
def keeps (g : Graph) (T : Name) : COp → Prop
  | .forget a dflt => ¬ForgetSel g a dflt T
  | _ => True

/-- **ignore (until forgotten).**  From any DB state the mark survives every history that does not forget the task:
    file edits, runs (whatever they execute, fail or skip), `reset-dep`s, changes of the configured checker, further
    `ignore`s and `forget`s of other tasks.  (Before 017f29e `reset-dep` after a checker change dropped the mark:
    `C13_pinned_resetdep_counterexample`.) -/
theorem C13_ignore_persists (g : Graph) (T : Name) (h : List COp) (s : St) (hs : (s.rcd T).ign = true)
    (hk : ∀ op ∈ h, keeps g T op) : ((runC true g s h).rcd T).ign = true := by
  induction h generalizing s with
  | nil => exact hs
  | cons op ops ih =>
    simp only [runC, List.foldl_cons]
    apply ih
    · cases op with
      | edit p sz c => simp only [stepC, step]; split <;> simpa [writeFile] using hs
      | touch p => simp only [stepC, step]; split <;> simpa using hs
      | delete p => simp only [stepC, step]; split <;> simpa using hs
      | checker c => simpa [stepC] using hs
      | forget a dflt =>
        simp only [stepC]
        rw [forgetCmd_keeps g a dflt s T (hk _ List.mem_cons_self)]; exact hs
      | ignore names =>
        simp only [stepC, ignoreCmd]
        split
        · rw [ignList_rcd]; split <;> simp [hs]
        all_goals exact hs
      | reset names =>
        simp only [stepC, if_true, resetCmd]
        split
        · exact resetList_keeps_ign _ s T hs
        all_goals exact hs
      | run order always plan => simp only [stepC]; exact runAll_keeps_ign true always g plan order _ T hs
      | firstPass ts => simp only [stepC]; exact firstPass_keeps_ign ts s T hs
    · intro o ho; exact hk o (List.mem_cons_of_mem _ ho)

def gOne : Graph := { names := [0], taskDep := fun _ => [], setup := fun _ => [], subOf := fun _ => none }

/-- task 0 (`file_dep=[f0]`) has run once under md5 and is then ignored -/
def sMarked : St :=
  let s0 := initC (fun t => if t = 0 then ⟨[0], [], []⟩ else TaskDef.empty) .md5
  setIgn (runTask true (step true s0 (.edit 0 4 1)) 0 true false [] none) 0

/-- F-C13c, the tree before 017f29e: `0` is ignored, the checker changes, `reset-dep 0`: `get_status` drops the whole
    record and the mark is gone although nothing was forgotten; the repaired command re-applies it (and keeps values
    and result as before) -/
theorem C13_pinned_resetdep_counterexample :
    ((runC false gOne sMarked [.checker .ts, .reset [0]]).rcd 0).ign = false ∧
    ((runC true gOne sMarked [.checker .ts, .reset [0]]).rcd 0).ign = true ∧
    ((runC true gOne sMarked [.checker .ts, .reset [0]]).rcd 0).checker = some .ts := by decide

/-- **ignore, as stated.**  After an accepted `ignore names`, through any such history, in any later run: the named
    tasks, their sub-tasks and everything reaching them over `task_dep` edges is reported ignored; tasks having one of
    them as setup-task are not executed. -/
theorem C13_ignore (g : Graph) (names l : List Name) (s0 : St) (h : List COp) (T : Name)
    (hacc : ignoreTarget g names = .tasks l) (hT : T ∈ l) (hk : ∀ op ∈ h, keeps g T op)
    (order : List Name) (always : Bool) (plan : Name → Plan) (hnd : order.Nodup)
    (hbad : (runAll true always g plan (runC true g (ignoreCmd g names s0) h) order).bad = false)
    (t : Name) (ht : t ∈ order) :
    (IgnReach g (runC true g (ignoreCmd g names s0) h).defs (fun k => k = T) t →
      outOf (runAll true always g plan (runC true g (ignoreCmd g names s0) h) order) t = some .ignored) ∧
    ((∃ d, d ∈ g.setup t ∧ IgnReach g (runC true g (ignoreCmd g names s0) h).defs (fun k => k = T) d) →
      ∃ o, outOf (runAll true always g plan (runC true g (ignoreCmd g names s0) h) order) t = some o ∧ o.executed = false) := by
  have hmark : ((ignoreCmd g names s0).rcd T).ign = true := by
    rw [(C13_ignore_cmd g names l s0 hacc).2.1 T hT]
  have hlater := C13_ignore_persists g T h _ hmark hk
  have mono : ∀ x, IgnReach g (runC true g (ignoreCmd g names s0) h).defs (fun k => k = T) x →
      IgnReach g (runC true g (ignoreCmd g names s0) h).defs
        (fun k => ((runC true g (ignoreCmd g names s0) h).rcd k).ign) x := by
    intro x hx
    induction hx with
    | mark hm => exact IgnReach.mark (by simp at hm; subst hm; exact hlater)
    | dep hd _ ih => exact IgnReach.dep hd ih
  have := C13_ignore_run g _ order always plan hnd hbad t ht
  exact ⟨fun hr => this.1 (mono t hr), fun ⟨d, hd, hr⟩ => this.2 ⟨d, hd, mono d hr⟩⟩

/-- non-vacuity of `C13_ignore_run`: `1` has `task_dep=[0]`, `2` has `setup=[0]` and would run, `3` is unrelated;
    `0` is ignored: `0` and `1` are reported ignored, `2` is not executed, `3` executes; the order flag is clean -/
def gIgn : Graph :=
  { names := [0, 1, 2, 3]
    taskDep := fun t => if t = 1 then [0] else []
    setup := fun t => if t = 2 then [0] else []
    subOf := fun _ => none }

def sIgn : St := setIgn (initC (fun _ => TaskDef.empty) .md5) 0
def noPlan : Name → Plan := fun _ => ⟨true, [], none⟩

example : (runAll true false gIgn noPlan sIgn [0, 1, 2, 3]).out.reverse =
    [(0, .ignored), (1, .ignored), (2, .ignored), (3, .ok)] ∧
    (runAll true false gIgn noPlan sIgn [0, 1, 2, 3]).bad = false := by decide

/-- F-C05 / F-C13b, the pinned tree: the second `select_task` pass does not look at the setup-tasks' reports: task `2`
    (setup-task `0` ignored) is executed; the repaired code reports it ignored -/
theorem C13_pinned_setup_counterexample :
    outOf (runAll false false gIgn noPlan sIgn [0, 1, 2, 3]) 2 = some .ok ∧
    outOf (runAll true false gIgn noPlan sIgn [0, 1, 2, 3]) 2 = some .ignored := by decide

/-! ## reset-dep -/

/-- **reset-dep.**  `doit reset-dep names` (all names known; none = every task), no `TypeError` of a checker on a
    state of the other checker's shape (`crashed`, M2's explicit error state): the command acts on the named tasks
    and their sub-tasks; no other record changes; for a selected task with a missing file dependency nothing is
    recorded; for every other selected task the record afterwards judges each file dependency unmodified against the
    present file, values and result are the saved ones, and its status is up-to-date unless an early exit of
    `get_status` fires: a false `uptodate` item, a missing target, or no dependency at all. -/
theorem C13_resetdep (g : Graph) (names l : List Name) (s : St) (h : resetTarget g names = .tasks l)
    (hc : (resetCmd g names s).crashed = false) :
    (∀ x, x ∈ l ↔ (names = [] ∧ x ∈ g.names) ∨ x ∈ names ∨ ∃ t ∈ names, x ∈ subtasks g t) ∧
    (∀ t, t ∉ l → (resetCmd g names s).rcd t = s.rcd t) ∧
    (∀ t, (s.defs t).deps.any (depMissing s.fs) = true → (resetCmd g names s).rcd t = s.rcd t) ∧
    (∀ t, t ∈ l → (s.defs t).deps.any (depMissing s.fs) = false →
      resetRecOk s.checker (s.defs t) (s.rcd t) ((resetCmd g names s).rcd t) s.fs = true ∧
      (resetCmd g names s).status true t =
        if earlyRun (s.defs t) ((resetCmd g names s).rcd t).getValues (resetCmd g names s).resOf s.fs then .run
        else .upToDate) ∧
    (resetCmd g names s).fs = s.fs ∧ (resetCmd g names s).defs = s.defs := by
  have hcmd : resetCmd g names s = resetList s l := by simp [resetCmd, h]
  rw [hcmd] at hc ⊢
  obtain ⟨fr, ffs, fdefs, fck⟩ := resetList_frame l s
  refine ⟨?_, fr, fun t hm => resetList_missing l s t hm, ?_, ffs, fdefs⟩
  · intro x
    unfold resetTarget at h
    by_cases hn : names = []
    · subst hn
      simp only [List.isEmpty_nil, if_true] at h
      injection h with h; subst h
      simp
    · have hne : names.isEmpty = false := by cases names <;> simp_all
      simp only [hne, Bool.false_eq_true, if_false] at h
      split at h
      · cases h
      · injection h with h; subst h
        rw [mem_withSubs]; simp [hn]
  · intro t ht hm
    obtain ⟨h1, h2⟩ := resetList_present l s hc t ht hm
    refine ⟨h1, ?_⟩
    unfold St.status
    rw [fck, fdefs, ffs]
    exact statusOf_of_lateOk _ _ _ _ _ h2

/-- non-vacuity: task 0 (`file_dep=[f0]`, target `f1`, both files present, saved state of another content) is not
    up-to-date; after `reset-dep` it is, its values and result are the saved ones, and the record changed -/
def sReset : St :=
  let d : TaskDef := ⟨[0], [1], []⟩
  let s0 := initC (fun t => if t = 0 then d else TaskDef.empty) .md5
  let s1 := step true (step true s0 (.edit 0 4 1)) (.edit 1 4 2)
  let s2 := runTask true s1 0 true false [] (some 7)
  step true s2 (.edit 0 5 3)

example : sReset.status true 0 = .run ∧ (resetCmd gOne [] sReset).status true 0 = .upToDate ∧
    ((resetCmd gOne [] sReset).rcd 0).result = some 7 ∧ (resetCmd gOne [] sReset).crashed = false ∧
    ((resetCmd gOne [] sReset).rcd 0).fstate 0 = some (.md5 3 5 3) ∧ (sReset.rcd 0).fstate 0 = some (.md5 1 4 1) := by
  decide

/-! ## the monitor's specification sets

The monitor (P) compares the implementation's DB dumps and reports with sets computed by the driver through the
executable functions `forgetSpec` and `ignClosure` (saturation, independent of the model of the code).  They are the
declarative sets of the theorems above whenever their fixpoint flags hold; the driver evaluates the flags on every
case (`closed`), the harness treats a false flag as a broken check. -/

theorem C13_monitor_forget_spec (g : Graph) (a : ForgetArgs) (dflt : Option (List Name))
    (hc : forgetSpecClosed g a dflt = true) (x : Name) :
    (match forgetSpec g a dflt with
     | none => True
     | some L => x ∈ L) ↔ ForgetSel g a dflt x := forgetSpec_iff g a dflt hc x

theorem C13_monitor_ignore_spec (g : Graph) (defs : Name → TaskDef) (marks : List Name) (hwf : g.WF = true)
    (hc : ignClosedB g defs (ignClosure g defs marks) = true) (x : Name) (hx : x ∈ g.names) :
    x ∈ ignClosure g defs marks ↔ IgnReach g defs (fun k => decide (k ∈ marks)) x :=
  ignClosure_iff g defs marks hwf hc x hx

example : forgetSpec gEx ⟨[2], true, false, false⟩ none = some [2, 3, 1, 0] ∧
    forgetSpecClosed gEx ⟨[2], true, false, false⟩ none = true := by decide

end DoitModel.C13
