import DoitModel.Proofs.C13Forget
/-! # C13 — forget, ignore and reset-dep have exactly their documented effect

Model: `Model/Cmds.lean` (task graph, target lists of the three commands, a run that honours ignore marks) on the
M2 state of `Model/Status.lean`.  Only property theorems, their non-vacuity examples and the counterexample
theorems of the two pinned defects live here; lemmas are in `Proofs/C13*.lean`. -/
namespace DoitModel.C13
open DoitModel.Status DoitModel.Cmds

/-- **forget (effect on the DB).**  For every task set, DB state, argument form and `default_tasks` setting: unless
    an argument names no task (then nothing changes, `C13_forget_unknown_name`), after `forget` the record of every
    task of the documented selection `ForgetSel` is empty, every other record is what it was, and files, task
    definitions and checker are untouched.  (`.fuel` is the model's explicit out-of-fuel result of the closure
    iteration; the driver evaluates the hypothesis on every generated case.) -/
theorem C13_forget (g : Graph) (a : ForgetArgs) (dflt : Option (List Name)) (s : St)
    (hfuel : forgetTarget true g a dflt ≠ .fuel) (hknown : ∀ n, forgetTarget true g a dflt ≠ .notATask n) :
    (∀ x, ForgetSel g a dflt x → (forgetCmd true g a dflt s).rcd x = Rcd.empty) ∧
    (∀ x, ¬ForgetSel g a dflt x → (forgetCmd true g a dflt s).rcd x = s.rcd x) ∧
    (forgetCmd true g a dflt s).fs = s.fs ∧ (forgetCmd true g a dflt s).defs = s.defs := by
  have hspec := forgetTarget_spec g a dflt
  unfold forgetCmd
  cases ht : forgetTarget true g a dflt with
  | tasks l =>
    rw [ht] at hspec
    simp only
    refine ⟨?_, ?_, (eraseList_fs l s).1, (eraseList_fs l s).2.1⟩
    · intro x hx; rw [eraseList_rcd]; simp [(hspec x).2 hx]
    · intro x hx
      have hnl : x ∉ l := fun h => hx ((hspec x).1 h)
      rw [eraseList_rcd]; simp [hnl]
  | everything =>
    simp only
    rw [ht] at hspec
    exact ⟨fun x _ => rfl, fun x hx => absurd (hspec x) hx, rfl, rfl⟩
  | nothing =>
    rw [ht] at hspec
    exact ⟨fun x hx => absurd hx (hspec x), fun x _ => rfl, rfl, rfl⟩
  | notATask n => exact absurd ht (hknown n)
  | crash => rw [ht] at hspec; exact hspec.elim
  | fuel => exact absurd ht hfuel

/-- an argument (or a configured default task) that names no task: the command is rejected, nothing is forgotten -/
theorem C13_forget_unknown_name (g : Graph) (a : ForgetArgs) (dflt : Option (List Name)) (s : St) (n : Name)
    (h : forgetTarget true g a dflt = .notATask n) :
    forgetCmd true g a dflt s = s ∧ n ∉ g.names ∧ n ∈ (selTasks a.names dflt).getD [] := by
  have hspec := forgetTarget_spec g a dflt
  rw [h] at hspec
  exact ⟨by simp [forgetCmd, h], hspec.2.2, hspec.2.1⟩

/-- `--follow-sub` follows *setup* edges and the sub-tasks of a group: `b: setup=[a]`, group `2` with sub-task `3`
    that has `task_dep=[b]`; `forget -s 2` clears 2, 3, b and a, and nothing else (task 4) -/
def gEx : Graph :=
  { names := [0, 1, 2, 3, 4]
    taskDep := fun t => if t = 2 then [3] else if t = 3 then [1] else []
    setup := fun t => if t = 1 then [0] else []
    subOf := fun t => if t = 3 then some 2 else none }

example : forgetTarget true gEx ⟨[2], true, false, false⟩ none = .tasks [2, 3, 1, 0] := by decide
example : forgetTarget true gEx ⟨[2], false, false, false⟩ none = .tasks [2, 3] := by decide
example : forgetTarget true gEx ⟨[], false, false, false⟩ (some [4]) = .tasks [4] := by decide
example : forgetTarget true gEx ⟨[], false, false, false⟩ none = .tasks [0, 1, 2, 3, 3, 4] := by decide
example : forgetTarget true gEx ⟨[7], false, false, false⟩ none = .notATask 7 := by decide

/-- F-C13a, the pinned tree: `doit forget` with no argument and no `default_tasks` iterates over `None`
    (`TypeError`), nothing is forgotten; the repaired code forgets every task -/
theorem C13_pinned_forget_counterexample :
    forgetTarget false gEx ⟨[], false, false, false⟩ none = .crash ∧
    forgetTarget false gEx ⟨[], true, false, false⟩ none = .crash ∧
    forgetTarget true gEx ⟨[], false, false, false⟩ none = .tasks [0, 1, 2, 3, 3, 4] := by decide

end DoitModel.C13
