import DoitModel.Proofs.StatusTouch
import DoitModel.Props.C03
import DoitModel.Proofs.UtdTools
/-! # C04 — an unchanged task is never re-executed (minimal rebuild)

Property theorems only.  Same model, histories and invariant as C03 (`Props/C03.lean`); this is the converse
direction plus the two corollaries named in the property text.  Serial and parallel runners compute the status in
the main process from the same `Dependency` object, so the runner kind does not enter the model (it is exercised by
the correspondence harness). -/
namespace DoitModel.C04
open DoitModel.Status

/-- **C04.**  After every prefix of every history: if none of the not-up-to-date conditions holds for a task —
    the specification, which never looks at the DB, is true — then `get_status` answers `up-to-date`, so the runner
    does not execute it (absent `--always-execute`). -/
theorem C04_minimal (h : List Op) (hf : Faithful h = true) (k : Nat) (t : Name) :
    (runHist true (h.take k)).spec t = true → (runHist true (h.take k)).status true t = .upToDate :=
  (decision_eq_spec (hist_inv _ (C03.faithful_take h k hf)) t).mpr

/-- the runner really leaves an unchanged task alone: no execution, no change of record, files or ghost state -/
theorem C04_not_executed (h : List Op) (hf : Faithful h = true) (t : Name) (ok : Bool)
    (ws : List (Path × Nat × Nat)) (res : Option Res) :
    let σ := runHist true h
    σ.spec t = true → runTask true σ t ok false ws res = σ := by
  intro σ hs
  have hst := (decision_eq_spec (hist_inv _ hf) t).mpr hs
  simp only [runTask]
  split
  · rfl
  · rw [hst]; simp

/-- the status right after `process_task_result` recorded a success -/
theorem status_after_commit {s : St} (hinv : Inv s) (t : Name) (res : Option Res) (r : Rcd)
    (hs : saveSuccess s.checker (s.defs t).deps (s.rcd t) s.fs (newValues (s.defs t) s.resOf) res = .ok r) :
    (finish s t true res).status true t = .upToDate ∨
    earlyRun (s.defs t) (newValues (s.defs t) s.resOf) (finish s t true res).resOf s.fs = true := by
  have hfin : finish s t true res
      = commit s t r ⟨(s.defs t).deps, s.fs, newValues (s.defs t) s.resOf, r.result, s.checker⟩ := by
    simp only [finish, if_true, hs]
  have hinv' : Inv (finish s t true res) := finish_inv t true res hinv
  rw [decision_eq_spec hinv' t]
  have hres := resOf_eq_specRes hinv'
  rw [hres, hfin]
  simp only [St.spec, specUpToDate, commit, if_true, lastValues]
  rw [early_eq]
  cases hE : earlyRun (s.defs t) (newValues (s.defs t) s.resOf)
      (St.specRes (commit s t r ⟨(s.defs t).deps, s.fs, newValues (s.defs t) s.resOf, r.result, s.checker⟩)) s.fs with
  | true =>
    right
    simpa [commit] using hE
  | false =>
    left
    have hE' : earlyRun (s.defs t) (newValues (s.defs t) s.resOf)
      (St.specRes { defs := s.defs, rcd := fun k => if k = t then r else s.rcd k, fs := s.fs,
                    shadow := fun k => if k = t then some ⟨(s.defs t).deps, s.fs, newValues (s.defs t) s.resOf, r.result, s.checker⟩ else s.shadow k,
                    checker := s.checker, clock := s.clock, crashed := s.crashed }) s.fs = false := by
      simpa [commit] using hE
    simp only [hE', Bool.not_false, Bool.true_and, beq_self_eq_true, Bool.and_eq_true, List.all_eq_true]
    refine ⟨by simp [sameSet], ?_⟩
    intro p hp
    unfold saveSuccess at hs
    cases hmiss : (s.defs t).deps.any (depMissing s.fs) with
    | true => simp [hmiss] at hs
    | false =>
      have := any_false_of hmiss hp
      simp only [depMissing] at this
      cases hf : s.fs p with
      | none => simp [hf] at this
      | some cur =>
        simp only [depUnmod, hf, unmodBy]
        cases s.checker <;> simp [stateOf, checkModified]

/-- **C04, repeated run.**  In any reachable state, when the runner records the success of a task, an immediately
    repeated run finds it up-to-date — unless it can never be up-to-date by definition: an uptodate item that
    evaluates false, or no file dependency and no evaluated uptodate item, or (the action's own doing) a declared
    target that does not exist. -/
theorem C04_rerun (h : List Op) (hf : Faithful h = true) (t : Name) (res : Option Res) (r : Rcd) :
    let σ := runHist true h
    saveSuccess σ.checker (σ.defs t).deps (σ.rcd t) σ.fs (newValues (σ.defs t) σ.resOf) res = .ok r →
    (finish σ t true res).status true t = .upToDate
    ∨ utdFalse (newValues (σ.defs t) σ.resOf) (finish σ t true res).resOf (σ.defs t).uptodate = true
    ∨ ((σ.defs t).deps.isEmpty = true
        ∧ utdEvaluated (newValues (σ.defs t) σ.resOf) (finish σ t true res).resOf (σ.defs t).uptodate = false)
    ∨ (σ.defs t).targets.any (depMissing σ.fs) = true := by
  intro σ hs
  cases status_after_commit (hist_inv _ hf) t res r hs with
  | inl h1 => exact Or.inl h1
  | inr h2 =>
    right
    simp only [earlyRun, Bool.or_eq_true, Bool.and_eq_true, Bool.not_eq_true'] at h2
    cases h2 with
    | inl h3 =>
      cases h3 with
      | inl h4 => exact Or.inl h4
      | inr h4 => exact Or.inr (Or.inl h4)
    | inr h3 => exact Or.inr (Or.inr h3)

/-- **C04, touch / rewrite under md5.**  Giving a file a new mtime without changing its content — `touch`, or
    rewriting it with the same content — changes the status of no task when the md5 checker is configured. -/
theorem C04_touch_md5 (h : List Op) (hf : Faithful h = true) (p : Path) (t : Name) :
    let σ := runHist true h
    σ.checker = .md5 → σ.crashed = false →
    (step true σ (.touch p)).status true t = σ.status true t
    ∧ ∀ cur, σ.fs p = some cur → (step true σ (.edit p cur.size cur.cid)).status true t = σ.status true t := by
  intro σ hc hnc
  have hinv : Inv σ := hist_inv _ hf
  constructor
  · simp only [step, hnc, Bool.false_eq_true, if_false, St.status, hc]
    cases hcur : σ.fs p with
    | none =>
      have : (fun q => if q = p then touchMeta σ.clock none else σ.fs q) = σ.fs := by
        funext q
        by_cases hq : q = p
        · simp [hq, touchMeta, hcur]
        · simp [hq]
      rw [this]
      rfl
    | some cur =>
      apply statusOf_congr
      · intro q; exact depMissing_fresh σ.fs p q cur _ hcur
      · intro v q
        exact depIs_fresh_md5 (hinv.st t) v p q cur _ hcur rfl rfl (by simp)
  · intro cur hcur
    simp only [step, hnc, Bool.false_eq_true, if_false, St.status, hc, writeFile]
    apply statusOf_congr
    · intro q; exact depMissing_fresh σ.fs p q cur _ hcur
    · intro v q
      exact depIs_fresh_md5 (hinv.st t) v p q cur _ hcur rfl rfl (by simp)

/-! ## non-vacuity -/

/-- a history after which the specification holds for a task with two file dependencies, a target, run_once and
    config_changed — so `C04_minimal` forbids its execution — and a successful save is possible (`C04_rerun`) -/
example :
    let h : List Op := [.edit 0 4 1, .edit 1 5 2, .redefine 0 ⟨[0, 1], [2], [.runOnce, .configChanged 3]⟩,
      .run 0 true false [(2, 4, 7)] none, .touch 0, .edit 1 5 2]
    Faithful h = true ∧ (runHist true h).spec 0 = true ∧ (runHist true h).checker = .md5 ∧
    (runHist true h).crashed = false ∧
    (saveSuccess (runHist true h).checker ((runHist true h).defs 0).deps ((runHist true h).rcd 0) (runHist true h).fs
      (newValues ((runHist true h).defs 0) (runHist true h).resOf) none matches .ok _) = true := by decide

/-- under the timestamp checker the same touch does make the task stale: the md5 hypothesis of `C04_touch_md5`
    is needed -/
example :
    let h : List Op := [.switchChecker .ts, .edit 0 4 1, .redefine 0 ⟨[0], [], []⟩, .run 0 true false [] none]
    (runHist true h).status true 0 = .upToDate ∧ (step true (runHist true h) (.touch 0)).status true 0 = .run := by
  decide

end DoitModel.C04

namespace DoitModel.C04.Helpers
open DoitModel.UtdTools

/-! ## the uptodate helpers of doit/tools.py and `result_dep` (model `Model/UtdTools.lean`)

What each helper answers, for all inputs, as a function of (what the last successful execution saved, the present
world); `md5` is any function (injective where said so), `tps` any tick rate. -/

/-- **run_once** is up-to-date iff a (truthy) `run-once` value is saved. -/
theorem run_once_true_iff (saved : Saved) :
    (runOnce saved).ans = .yes ↔ ∃ v, lookup saved kRunOnce = some v ∧ v.truthy = true :=
  runOnce_yes_iff saved

example : (runOnce [(kRunOnce, .tt)]).ans = .yes ∧ (runOnce []).ans = .no := by decide

/-- **config_changed** is up-to-date iff a value was saved and it equals the digest of the present config (str: the
    string itself; dict: md5 of the canonical JSON); a config that is neither raises. -/
theorem config_changed_true_iff (md5 : Str → Str) (saved : Saved) (w : World) :
    (configChanged md5 saved w).ans = .yes ↔
      ∃ d, digest md5 w.cfg = .ok d ∧ lookup saved kConfig = some (.str d) :=
  config_yes_iff md5 saved w

/-- dict form, md5 taken as injective: up-to-date iff the canonical JSON texts are the same -/
theorem config_changed_dict_iff (md5 : Str → Str) (hinj : ∀ a b, md5 a = md5 b → a = b) (c0 c : Str) (w : World)
    (hw : w.cfg = .dict c) :
    (configChanged md5 [(kConfig, .str (md5 c0))] w).ans = .yes ↔ c0 = c := by
  rw [config_yes_iff, hw]
  simp only [digest, lookup_single]
  constructor
  · rintro ⟨d, hd, hs⟩
    cases hd
    simp only [Option.some.injEq, Val.str.injEq] at hs
    exact hinj _ _ hs
  · rintro rfl
    exact ⟨_, rfl, rfl⟩

/-- the saver registered by `configure_task` writes the digest computed at the check, whatever the world is when it
    runs (a dict mutated by the task's own action is recorded as it was *before* the action) -/
theorem config_saver_writes_checked_digest (md5 : Str → Str) (saved : Saved) (w w' : World) (d : Str)
    (hd : digest md5 w.cfg = .ok d) :
    (configChanged md5 saved w).saver w' = .ok [(kConfig, .str d)] := by
  simp [configChanged, hd]

example : (configChanged id [(kConfig, .str "x".toList)] { World.init with cfg := .dict "x".toList }).ans = .yes ∧
    (configChanged id [(kConfig, .str "x".toList)] { World.init with cfg := .dict "y".toList }).ans = .no ∧
    (configChanged id [] { World.init with cfg := .bad }).ans = .raised .badConfig := by decide

/-- **timeout** is up-to-date iff a success time is saved and the time elapsed since is strictly below the limit. -/
theorem timeout_true_iff (tps : Nat) (lim : Limit) (saved : Saved) (w : World) :
    (timeout tps lim saved w).ans = .yes ↔
      ∃ last, lookup saved kSuccessTime = some (.num last) ∧ w.clock - last < limitSec lim * tps :=
  timeout_yes_iff tps lim saved w

/-- once expired, a timeout stays expired while the clock moves on and no new success is recorded -/
theorem timeout_expiry_monotone (tps : Nat) (lim : Limit) (saved : Saved) (w w' : World)
    (hclk : w.clock ≤ w'.clock) (h : (timeout tps lim saved w).ans ≠ .yes) :
    (timeout tps lim saved w').ans ≠ .yes := by
  rw [Ne, timeout_yes_iff] at *
  rintro ⟨last, hl, hlt⟩
  exact h ⟨last, hl, by omega⟩

/-- after a success recorded at clock `c` the task is up-to-date exactly while less than the limit has elapsed;
    `timedelta` limits count whole seconds only (`days*86400 + seconds`, microseconds dropped) -/
theorem timeout_after_success_iff (tps : Nat) (lim : Limit) (saved : Saved) (w w' : World) (kv : Saved)
    (hs : (timeout tps lim saved w).saver w = .ok kv) :
    (timeout tps lim kv w').ans = .yes ↔ w'.clock - w.clock < limitSec lim * tps := by
  simp only [timeout] at hs
  cases hs
  rw [timeout_yes_iff]
  simp [lookup_single]

example : limitSec (.delta 1 2 999999) = 86402 ∧
    (timeout 4 (.int 2) [(kSuccessTime, .num 0)] { World.init with clock := 7 }).ans = .yes ∧
    (timeout 4 (.int 2) [(kSuccessTime, .num 0)] { World.init with clock := 8 }).ans = .no := by decide

/-- **check_timestamp_unchanged** is up-to-date iff a time is saved under `<file>.<st_attr>`, the file can be
    stat-ed and `cmp_op(saved, current)` holds. -/
theorem timestamp_unchanged_iff (f : Str) (a : Attr) (c : Cmp) (saved : Saved) (w : World) :
    (stamp f a c saved w).ans = .yes ↔
      ∃ prev st, lookup saved (stampKey f a) = some (.num prev) ∧ w.files f = some st ∧
        c.app prev (st.get a) = true :=
  stamp_yes_iff f a c saved w

/-- a missing file is an error once a time is saved (and only then: the first check does not stat) -/
theorem timestamp_missing_file (f : Str) (a : Attr) (c : Cmp) (saved : Saved) (w : World) (hf : w.files f = none) :
    (stamp f a c saved w).ans = (match lookup saved (stampKey f a) with
      | some (.num _) => .raised .osError
      | _ => .no) ∧ (stamp f a c saved w).saver w = .error .osError := by
  constructor
  · simp only [stamp, getTime, hf]
    cases lookup saved (stampKey f a) with
    | none => rfl
    | some v => cases v <;> rfl
  · simp [stamp, stampSaver, getTime, hf]

/-- the saved key tells the three timestamps of one file apart -/
theorem stampKey_attr_injective (f : Str) (a b : Attr) (h : stampKey f a = stampKey f b) : a = b := by
  simp only [stampKey, List.append_cancel_left_eq, List.cons.injEq, true_and] at h
  exact attrName_inj h

example : (stamp "f".toList .atime .eq [(stampKey "f".toList .atime, .num 3)]
      { World.init with files := fun _ => some ⟨3, 5, 9⟩ }).ans = .yes ∧
    (stamp "f".toList .mtime .eq [(stampKey "f".toList .atime, .num 3)]
      { World.init with files := fun _ => some ⟨3, 5, 9⟩ }).ans = .no := by decide

/-- **result_dep** is up-to-date iff a (non-null) result is saved under `_result:<name>` and it equals the present
    result of the task — for a group, the dict of the results of its sub-tasks (`<name>:…` entries of its task_dep). -/
theorem result_dep_true_iff (d : Str) (saved : Saved) (w : World) :
    (resultDep d saved w).ans = .yes ↔
      ∃ v, lookup saved (kResult d) = some v ∧ v ≠ .null ∧ valEq v (depResult w d) = true :=
  resultDep_yes_iff d saved w

example : (resultDep "d".toList [(kResult "d".toList, .dict [("d:b".toList, none), ("d:a".toList, some ['r'])])]
      { World.init with group := fun _ => some ["d:a".toList, "dx".toList, "d:b".toList],
                        resultOf := fun s => if s = "d:a".toList then .str ['r'] else .null }).ans = .yes := by decide

/-- **C03 flavour.**  No helper answers up-to-date when no successful execution recorded its key — in particular on
    an empty record (first run, after `forget`, after a failed execution, which removes the record). -/
theorem helper_never_yes_unrecorded (md5 : Str → Str) (tps : Nat) (it : Item) (saved : Saved) (w : World)
    (h : lookup saved it.key = none) : (it.call md5 tps saved w).ans ≠ .yes :=
  call_not_yes_of_unrecorded md5 tps it saved w h

/-- … hence a run in such a state never skips the task, and a failed execution leaves such a state -/
theorem helper_run_unrecorded (md5 : Str → Str) (tps : Nat) (it : Item) (s : St) (ok : Bool) (during : List Change)
    (h : lookup s.saved it.key = none) :
    (step md5 tps it s (.run ok during)).2 ≠ .skipped ∧ (step md5 tps it s .query).2 ≠ .answered .yes ∧
    (ok = false → (∀ e, (it.call md5 tps s.saved s.world).ans ≠ .raised e) →
      (step md5 tps it s (.run ok during)).1.saved = []) := by
  have hn := call_not_yes_of_unrecorded md5 tps it s.saved s.world h
  have hfin : ∀ o : Out, (finishRun s o ok during).2 ≠ .skipped := by
    intro o
    cases ok with
    | false => simp [finishRun]
    | true =>
      simp only [finishRun, if_true]
      cases o.saver (s.world.applyAll during) <;> simp
  refine ⟨?_, ?_, ?_⟩
  · simp only [step]
    cases ha : (it.call md5 tps s.saved s.world).ans with
    | yes => exact absurd ha hn
    | no => exact hfin _
    | ignored => exact hfin _
    | raised e => simp
  · simp only [step]
    intro hq
    injection hq with hq
    exact hn hq
  · intro hok hr
    subst hok
    simp only [step]
    cases ha : (it.call md5 tps s.saved s.world).ans with
    | yes => exact absurd ha hn
    | no => simp [finishRun]
    | ignored => simp [finishRun]
    | raised e => exact absurd ha (hr e)

/-- **C03 flavour, over histories.**  Starting from an empty record, whatever the world does and however often the
    task is checked or its execution fails: as long as no execution succeeded, no check answers up-to-date and no run
    skips the task (any helper, any sequence of world changes / status queries / failing runs). -/
theorem helper_history_never_yes_without_success (md5 : Str → Str) (tps : Nat) (it : Item) (ops : List Op)
    (w : World) (h : ops.all Op.noSuccess = true) :
    ∀ ob ∈ (runOps md5 tps it ⟨[], w⟩ ops).2, ob ≠ .skipped ∧ ob ≠ .answered .yes :=
  (runOps_noSuccess md5 tps it ops ⟨[], w⟩ rfl h).2

example : (runOps id 4 (.stampOf ['f'] .mtime (.const true)) St.init
    [.change (.setFile ['f'] (some ⟨1, 1, 1⟩)), .query, .run false [], .query]).2 =
    [.changed, .answered .no, .executedFailed .no, .answered .no] := by decide

/-- **C04 flavour.**  Right after a successful execution, in the world that execution left, every helper that can
    be up-to-date at all (`canRepeat`: timeout limit positive, `cmp_op` reflexive, the other task has a result, the
    config has a digest) answers up-to-date. -/
theorem helper_yes_after_success (md5 : Str → Str) (tps : Nat) (it : Item) (saved kv : Saved) (w : World)
    (hs : (it.call md5 tps saved w).saver w = .ok kv) (hc : it.canRepeat tps w = true) :
    (it.call md5 tps kv w).ans = .yes :=
  call_yes_after_save md5 tps it saved kv w hs hc

/-- the same on the machine: a run that executed and saved (nothing changing during the execution) is followed by
    `up-to-date` on a status query and by a skip on the next run -/
theorem helper_rerun_skips (md5 : Str → Str) (tps : Nat) (it : Item) (s s' : St) (a : Ans) (kv : Saved)
    (hrun : step md5 tps it s (.run true []) = (s', .executedSaved a kv)) (hc : it.canRepeat tps s.world = true)
    (ok : Bool) (during : List Change) :
    (step md5 tps it s' .query).2 = .answered .yes ∧ step md5 tps it s' (.run ok during) = (s', .skipped) := by
  have key : s' = ⟨kv, s.world⟩ ∧ (it.call md5 tps s.saved s.world).saver s.world = .ok kv := by
    simp only [step] at hrun
    cases ha : (it.call md5 tps s.saved s.world).ans with
    | yes => simp [ha] at hrun
    | raised e => simp [ha] at hrun
    | no =>
      simp only [ha, finishRun, World.applyAll, List.foldl_nil, if_true] at hrun
      cases hsv : (it.call md5 tps s.saved s.world).saver s.world with
      | error e => simp [hsv] at hrun
      | ok kv' => simp only [hsv, Prod.mk.injEq, Obs.executedSaved.injEq] at hrun; exact ⟨by rw [← hrun.1, hrun.2.2], by rw [hrun.2.2]⟩
    | ignored =>
      simp only [ha, finishRun, World.applyAll, List.foldl_nil, if_true] at hrun
      cases hsv : (it.call md5 tps s.saved s.world).saver s.world with
      | error e => simp [hsv] at hrun
      | ok kv' => simp only [hsv, Prod.mk.injEq, Obs.executedSaved.injEq] at hrun; exact ⟨by rw [← hrun.1, hrun.2.2], by rw [hrun.2.2]⟩
  obtain ⟨rfl, hsv⟩ := key
  have hy := call_yes_after_save md5 tps it s.saved kv s.world hsv hc
  simp only [step, hy, and_self]

example : Item.canRepeat 4 World.init (.tmo (.int 1)) = true ∧
    Item.canRepeat 4 World.init (.stampOf [] .ctime .ge) = true ∧ Item.canRepeat 4 World.init (.resDep []) = false ∧
    (step id 4 (.tmo (.int 1)) St.init (.run true [])).2 = .executedSaved .no [(kSuccessTime, .num 0)] ∧
    (step id 4 (.tmo (.int 1)) ⟨[(kSuccessTime, .num 0)], World.init⟩ .query).2 = .answered .yes := by decide

end DoitModel.C04.Helpers
