import DoitModel.Proofs.StatusTouch
import DoitModel.Props.C03
/-! # C04 — an unchanged task is never re-executed (minimal rebuild)

Property theorems only.  Same model, histories and invariant as C03 (`Props/C03.lean`); this is the converse
direction plus the two corollaries named in the property text.  Serial and parallel runners compute the status in
the main process from the same `Dependency` object, so the runner kind does not enter the model (it is exercised by
the correspondence harness). -/
namespace DoitModel.C04
open DoitModel.Status

/-- **C04.**  After every prefix of every history: if none of the not-up-to-date conditions holds for a task —
    the specification, which never looks at the DB, is true — then `get_status` answers `up-to-date`, so the runner
    does not execute it (absent `--always-execute`). -/
theorem C04_minimal (h : List Op) (hf : Faithful h = true) (k : Nat) (t : Name) :
    (runHist true (h.take k)).spec t = true → (runHist true (h.take k)).status true t = .upToDate :=
  (decision_eq_spec (hist_inv _ (C03.faithful_take h k hf)) t).mpr

/-- the runner really leaves an unchanged task alone: no execution, no change of record, files or ghost state -/
theorem C04_not_executed (h : List Op) (hf : Faithful h = true) (t : Name) (ok : Bool)
    (ws : List (Path × Nat × Nat)) (res : Option Res) :
    let σ := runHist true h
    σ.spec t = true → runTask true σ t ok false ws res = σ := by
  intro σ hs
  have hst := (decision_eq_spec (hist_inv _ hf) t).mpr hs
  simp only [runTask]
  split
  · rfl
  · rw [hst]; simp

/-- the status right after `process_task_result` recorded a success -/
theorem status_after_commit {s : St} (hinv : Inv s) (t : Name) (res : Option Res) (r : Rcd)
    (hs : saveSuccess s.checker (s.defs t).deps (s.rcd t) s.fs (newValues (s.defs t) s.resOf) res = .ok r) :
    (finish s t true res).status true t = .upToDate ∨
    earlyRun (s.defs t) (newValues (s.defs t) s.resOf) (finish s t true res).resOf s.fs = true := by
  have hfin : finish s t true res
      = commit s t r ⟨(s.defs t).deps, s.fs, newValues (s.defs t) s.resOf, r.result, s.checker⟩ := by
    simp only [finish, if_true, hs]
  have hinv' : Inv (finish s t true res) := finish_inv t true res hinv
  rw [decision_eq_spec hinv' t]
  have hres := resOf_eq_specRes hinv'
  rw [hres, hfin]
  simp only [St.spec, specUpToDate, commit, if_true, lastValues]
  rw [early_eq]
  cases hE : earlyRun (s.defs t) (newValues (s.defs t) s.resOf)
      (St.specRes (commit s t r ⟨(s.defs t).deps, s.fs, newValues (s.defs t) s.resOf, r.result, s.checker⟩)) s.fs with
  | true =>
    right
    simpa [commit] using hE
  | false =>
    left
    have hE' : earlyRun (s.defs t) (newValues (s.defs t) s.resOf)
      (St.specRes { defs := s.defs, rcd := fun k => if k = t then r else s.rcd k, fs := s.fs,
                    shadow := fun k => if k = t then some ⟨(s.defs t).deps, s.fs, newValues (s.defs t) s.resOf, r.result, s.checker⟩ else s.shadow k,
                    checker := s.checker, clock := s.clock, crashed := s.crashed }) s.fs = false := by
      simpa [commit] using hE
    simp only [hE', Bool.not_false, Bool.true_and, beq_self_eq_true, Bool.and_eq_true, List.all_eq_true]
    refine ⟨by simp [sameSet], ?_⟩
    intro p hp
    unfold saveSuccess at hs
    cases hmiss : (s.defs t).deps.any (depMissing s.fs) with
    | true => simp [hmiss] at hs
    | false =>
      have := any_false_of hmiss hp
      simp only [depMissing] at this
      cases hf : s.fs p with
      | none => simp [hf] at this
      | some cur =>
        simp only [depUnmod, hf, unmodBy]
        cases s.checker <;> simp [stateOf, checkModified]

/-- **C04, repeated run.**  In any reachable state, when the runner records the success of a task, an immediately
    repeated run finds it up-to-date — unless it can never be up-to-date by definition: an uptodate item that
    evaluates false, or no file dependency and no evaluated uptodate item, or (the action's own doing) a declared
    target that does not exist. -/
theorem C04_rerun (h : List Op) (hf : Faithful h = true) (t : Name) (res : Option Res) (r : Rcd) :
    let σ := runHist true h
    saveSuccess σ.checker (σ.defs t).deps (σ.rcd t) σ.fs (newValues (σ.defs t) σ.resOf) res = .ok r →
    (finish σ t true res).status true t = .upToDate
    ∨ utdFalse (newValues (σ.defs t) σ.resOf) (finish σ t true res).resOf (σ.defs t).uptodate = true
    ∨ ((σ.defs t).deps.isEmpty = true
        ∧ utdEvaluated (newValues (σ.defs t) σ.resOf) (finish σ t true res).resOf (σ.defs t).uptodate = false)
    ∨ (σ.defs t).targets.any (depMissing σ.fs) = true := by
  intro σ hs
  cases status_after_commit (hist_inv _ hf) t res r hs with
  | inl h1 => exact Or.inl h1
  | inr h2 =>
    right
    simp only [earlyRun, Bool.or_eq_true, Bool.and_eq_true, Bool.not_eq_true'] at h2
    cases h2 with
    | inl h3 =>
      cases h3 with
      | inl h4 => exact Or.inl h4
      | inr h4 => exact Or.inr (Or.inl h4)
    | inr h3 => exact Or.inr (Or.inr h3)

/-- **C04, touch / rewrite under md5.**  Giving a file a new mtime without changing its content — `touch`, or
    rewriting it with the same content — changes the status of no task when the md5 checker is configured. -/
theorem C04_touch_md5 (h : List Op) (hf : Faithful h = true) (p : Path) (t : Name) :
    let σ := runHist true h
    σ.checker = .md5 → σ.crashed = false →
    (step true σ (.touch p)).status true t = σ.status true t
    ∧ ∀ cur, σ.fs p = some cur → (step true σ (.edit p cur.size cur.cid)).status true t = σ.status true t := by
  intro σ hc hnc
  have hinv : Inv σ := hist_inv _ hf
  constructor
  · simp only [step, hnc, Bool.false_eq_true, if_false, St.status, hc]
    cases hcur : σ.fs p with
    | none =>
      have : (fun q => if q = p then touchMeta σ.clock none else σ.fs q) = σ.fs := by
        funext q
        by_cases hq : q = p
        · simp [hq, touchMeta, hcur]
        · simp [hq]
      rw [this]
      rfl
    | some cur =>
      apply statusOf_congr
      · intro q; exact depMissing_fresh σ.fs p q cur _ hcur
      · intro v q
        exact depIs_fresh_md5 (hinv.st t) v p q cur _ hcur rfl rfl (by simp)
  · intro cur hcur
    simp only [step, hnc, Bool.false_eq_true, if_false, St.status, hc, writeFile]
    apply statusOf_congr
    · intro q; exact depMissing_fresh σ.fs p q cur _ hcur
    · intro v q
      exact depIs_fresh_md5 (hinv.st t) v p q cur _ hcur rfl rfl (by simp)

/-! ## non-vacuity -/

/-- a history after which the specification holds for a task with two file dependencies, a target, run_once and
    config_changed — so `C04_minimal` forbids its execution — and a successful save is possible (`C04_rerun`) -/
example :
    let h : List Op := [.edit 0 4 1, .edit 1 5 2, .redefine 0 ⟨[0, 1], [2], [.runOnce, .configChanged 3]⟩,
      .run 0 true false [(2, 4, 7)] none, .touch 0, .edit 1 5 2]
    Faithful h = true ∧ (runHist true h).spec 0 = true ∧ (runHist true h).checker = .md5 ∧
    (runHist true h).crashed = false ∧
    (saveSuccess (runHist true h).checker ((runHist true h).defs 0).deps ((runHist true h).rcd 0) (runHist true h).fs
      (newValues ((runHist true h).defs 0) (runHist true h).resOf) none matches .ok _) = true := by decide

/-- under the timestamp checker the same touch does make the task stale: the md5 hypothesis of `C04_touch_md5`
    is needed -/
example :
    let h : List Op := [.switchChecker .ts, .edit 0 4 1, .redefine 0 ⟨[0], [], []⟩, .run 0 true false [] none]
    (runHist true h).status true 0 = .upToDate ∧ (step true (runHist true h) (.touch 0)).status true 0 = .run := by
  decide

end DoitModel.C04
