import DoitModel.Proofs.C10
import DoitModel.Proofs.C10NoState
/-! # C10 — actions receive faithful inputs: getargs values, `changed`, `dependencies`, `targets`, calc_dep results

Property theorems only (models: `Model/Inputs.lean` over `Model/Status.lean`; helpers: `Proofs/C10.lean`).

Quantification: every finite history over the operations of the status model (edits, touches, deletions, task
redefinition, atomic runs, failures before execution, forget, ignore, reset-dep, status-only commands, checker
switches) *and* the split steps `select t` / `complete t …` (the status check of a task and, after its setup-tasks
were processed, its execution and recording); every prefix; any number of tasks and files; both checkers.
`IFaithful` is the checker's documented premise (a content change comes with an mtime change), as in C03.
"Differs from what the last successful execution saw" is judged by the rule of the configured checker. -/
namespace DoitModel.C10
open DoitModel.Status DoitModel.Inputs

/-- the statement of the `changed` / `dependencies` / `targets` clause at full strength: whenever the status check
    lets a task execute, the kwargs derived from the task object satisfy `changedOk` (every file dependency with no
    recorded execution, not among the dependencies of the last recorded execution, or modified by the checker's rule
    is in `changed`; `dependencies` = file_dep; `targets` = targets).  **False of the code** on two paths, see
    `C10_false_uptodate_counterexample` (finding F-C10) and `C10_readded_dep_counterexample`; the monitor (P)
    evaluates exactly this predicate on the implementation's behaviour. -/
def C10_changed_full : Prop :=
  ∀ (h : List IOp), IFaithful h = true → ∀ (k : Nat) (t : Name) (always : Bool),
    executes (runI (h.take k)) t always = true →
    changedOk (runI (h.take k)) t (kwargsOf (runI (h.take k)) t) = true

/-- **C10, `changed` (partial).**  After every prefix of every history, when the status check lets `t` execute and
    no uptodate item of `t` evaluates to false, then
    * every file dependency that the last recorded successful execution had and that the configured checker judges
      modified relative to what that execution saw is in `changed`; with no recorded execution (first run, after a
      failure, after `forget`) *every* file dependency is in `changed`;
    * every file dependency for which the record holds no per-file state is in `changed`
      (see `C10_never_dep_has_no_state`: a file that never was a dependency of the task);
    * `dependencies` is the task's file_dep and `targets` its targets.
    Missing relative to `C10_changed_full`: the early return on a false uptodate item (F-C10) and a dependency that was
    dropped and taken up again while the record kept its state from an older execution. -/
theorem C10_changed_partial (h : List IOp) (hf : IFaithful h = true) (k : Nat) (t : Name) (always : Bool) :
    let σ := runI (h.take k)
    executes σ t always = true → falseItemAt σ t = false →
    (∀ p, p ∈ (σ.defs t).deps → needsSeenAt σ t p = true → p ∈ (kwargsOf σ t).changed) ∧
    (∀ p, p ∈ (σ.defs t).deps → (σ.rcd t).fstate p = none → p ∈ (kwargsOf σ t).changed) ∧
    (kwargsOf σ t).dependencies = (σ.defs t).deps ∧ (kwargsOf σ t).targets = (σ.defs t).targets := by
  intro σ hex hF
  have hinv : Inv σ := runI_inv _ (ifaithful_take h k hf)
  have hst : σ.status true t = .run ∨ σ.status true t = .upToDate := by
    simp only [executes, Bool.or_eq_true, Bool.and_eq_true, beq_iff_eq] at hex
    rcases hex with h1 | ⟨_, h1⟩
    · exact Or.inl h1
    · exact Or.inr h1
  exact ⟨fun p hp hn => changed_of_needsSeen hinv t p hF hst hp hn,
         fun p hp hn => changed_of_no_state hinv t p hF hst hp hn, rfl, rfl⟩

/-- with no recorded successful execution (first run, after a failed run, after `forget`) and no false uptodate
    item, `changed` is the whole file_dep -/
theorem C10_changed_all_when_nothing_recorded (h : List IOp) (hf : IFaithful h = true) (t : Name) (always : Bool) :
    let σ := runI h
    σ.shadow t = none → executes σ t always = true → falseItemAt σ t = false →
    ∀ p, p ∈ (σ.defs t).deps → p ∈ (kwargsOf σ t).changed := by
  intro σ hs hex hF p hp
  have := C10_changed_partial h hf h.length t always
  simp only [List.take_length] at this
  have hs' : (runI h).shadow t = none := hs
  exact (this hex hF).1 p hp (by simp [needsSeenAt, needsSeen, hs'])

/-- the record of a task holds per-file state only for files that some definition of the task in the history named
    as file_dep -/
theorem C10_never_dep_has_no_state (h : List IOp) (t : Name) (p : Path) :
    everDep h t p = false → ((runI h).rcd t).fstate p = none :=
  no_state_of_never_dep h t p

/-- **C10, `changed`, new dependencies.**  A file that is a file_dep of `t` for the first time in the history (no
    earlier definition of `t` named it) is in `changed` whenever `t` executes and no uptodate item is false. -/
theorem C10_changed_new_dep (h₀ : List IOp) (hf : IFaithful h₀ = true) (t : Name) (d : TaskDef) (always : Bool) (p : Path) :
    let σ := runI (h₀ ++ [.base (.redefine t d)])
    everDep h₀ t p = false → p ∈ (σ.defs t).deps → executes σ t always = true → falseItemAt σ t = false →
    p ∈ (kwargsOf σ t).changed := by
  intro σ hn hp hex hF
  have hf' : IFaithful (h₀ ++ [.base (.redefine t d)]) = true := by
    simp only [IFaithful, List.all_append, List.all_cons, List.all_nil, Bool.and_true, Bool.and_eq_true] at hf ⊢
    exact ⟨hf, rfl⟩
  have hrcd : (σ.rcd t).fstate p = none := by
    have h0 := no_state_of_never_dep h₀ t p hn
    have : σ.rcd = (runI h₀).rcd := by
      simp only [σ, runI, List.foldl_append, List.foldl_cons, List.foldl_nil, istep, step]
      split <;> rfl
    rw [this]; exact h0
  have := C10_changed_partial (h₀ ++ [IOp.base (.redefine t d)]) hf' (h₀ ++ [IOp.base (.redefine t d)]).length t always
  simp only [List.take_length] at this
  exact (this hex hF).2.1 p hp hrcd

/-- **With the repair proposed in findings/pending/C10-readded-dep-stale-state.md** (`depChangedRepaired`: a
    dependency missing from the saved `deps:` list counts as changed; not the code of the present tree) the full
    statement holds on every path except the false-uptodate exit of F-C10. -/
theorem C10_changed_repaired (h : List IOp) (hf : IFaithful h = true) (k : Nat) (t : Name) (always : Bool) :
    let σ := runI (h.take k)
    executes σ t always = true → falseItemAt σ t = false → changedOk σ t (kwargsRepaired σ t) = true := by
  intro σ hex hF
  have hinv : Inv σ := runI_inv _ (ifaithful_take h k hf)
  have hst : σ.status true t = .run ∨ σ.status true t = .upToDate := by
    simp only [executes, Bool.or_eq_true, Bool.and_eq_true, beq_iff_eq] at hex
    rcases hex with h1 | ⟨_, h1⟩
    · exact Or.inl h1
    · exact Or.inr h1
  have hself : sameSet (σ.defs t).deps (σ.defs t).deps = true := by simp [sameSet]
  simp only [changedOk, kwargsRepaired, hself, Bool.and_true, decide_true, List.all_eq_true,
    Bool.or_eq_true, Bool.not_eq_true']
  intro p hp
  cases hn : needsAt σ t p with
  | false => exact Or.inl rfl
  | true =>
    refine Or.inr (decide_eq_true ?_)
    cases hs : σ.shadow t with
    | none =>
      exact repaired_superset _ _ _ _ _ _
        (changed_of_needsSeen hinv t p hF hst hp (by simp [needsSeenAt, needsSeen, hs]))
    | some e =>
      by_cases hmem : p ∈ e.deps
      · have hn' : needsSeenAt σ t p = true := by
          simp only [needsAt, needs, hs, hmem, decide_true, Bool.not_true, Bool.false_or] at hn
          simp [needsSeenAt, needsSeen, hs, hmem, hn]
        exact repaired_superset _ _ _ _ _ _ (changed_of_needsSeen hinv t p hF hst hp hn')
      · exact repaired_new_dep hinv t p e hF hp hs hmem

/-- a modified or new file dependency is never hidden behind a skip: the task is not up-to-date
    (so under every runner its action is executed and receives kwargs at all) -/
theorem C10_needed_dep_forces_execution (h : List IOp) (hf : IFaithful h = true) (k : Nat) (t : Name) (p : Path) :
    let σ := runI (h.take k)
    p ∈ (σ.defs t).deps → needsAt σ t p = true → σ.status true t ≠ .upToDate := by
  intro σ hp hn
  exact needed_not_uptodate (runI_inv _ (ifaithful_take h k hf)) t p hp hn

/-- F-C10 (open finding, pinned by six tests of doit's suite): the run is caused by a false `uptodate` item,
    `get_status` returns before looking at the files and the action sees `changed == []` although the file
    dependency was modified. -/
def falseUptodateHist : List IOp :=
  [.base (.edit 0 4 1), .base (.redefine 0 ⟨[0], [], [.const true]⟩), .select 0, .complete 0 true [] none,
   .base (.edit 0 5 2), .base (.redefine 0 ⟨[0], [], [.const false]⟩)]

theorem C10_false_uptodate_counterexample :
    IFaithful falseUptodateHist = true ∧ executes (runI falseUptodateHist) 0 false = true ∧
    needsAt (runI falseUptodateHist) 0 0 = true ∧ falseItemAt (runI falseUptodateHist) 0 = true ∧
    (kwargsOf (runI falseUptodateHist) 0).changed = [] ∧
    changedOk (runI falseUptodateHist) 0 (kwargsOf (runI falseUptodateHist) 0) = false := by decide

/-- a dependency dropped from file_dep and taken up again: `save_success` keeps the per-file state of the older
    execution.  On the tree before the fix commit faa294a (`Status.depIsPinned`: the loop without the
    `dep not in previous_set` test) the file was compared with what an execution *before the last one* saw and was
    left out of `changed` although the last successful execution did not see it at all; the present tree lists it. -/
def readdedDepHist : List IOp :=
  [.base (.edit 0 4 1), .base (.edit 1 4 2), .base (.redefine 0 ⟨[0, 1], [], []⟩), .select 0, .complete 0 true [] none,
   .base (.redefine 0 ⟨[1], [], []⟩), .select 0, .complete 0 true [] none,
   .base (.redefine 0 ⟨[0, 1], [], []⟩)]

theorem C10_readded_dep_counterexample :
    IFaithful readdedDepHist = true ∧ executes (runI readdedDepHist) 0 false = true ∧
    needsAt (runI readdedDepHist) 0 0 = true ∧ falseItemAt (runI readdedDepHist) 0 = false ∧
    ((runI readdedDepHist).defs 0).deps.filter
      (depIsPinned .modified (runI readdedDepHist).checker ((runI readdedDepHist).rcd 0) (runI readdedDepHist).fs) = [] ∧
    (kwargsOf (runI readdedDepHist) 0).changed = [0] := by decide

theorem C10_changed_full_is_false : ¬ C10_changed_full := by
  intro hfull
  have := hfull falseUptodateHist (by decide) falseUptodateHist.length 0 false
  simp only [List.take_length] at this
  have h2 := this C10_false_uptodate_counterexample.2.1
  rw [C10_false_uptodate_counterexample.2.2.2.2.2] at h2
  exact absurd h2 (by decide)

/-! ## getargs -/

/-- **C10, getargs.**  After any sequence of DB effects (successful executions saving their values, failures and
    `forget` removing the record, anything else), the value `_get_task_args` computes for a getargs entry — single
    source or group source (dict over the sub-tasks), whole dict or one key, errors included — is the one computed
    from the values of each source's most recent successful execution that is still recorded (`latest` reads the
    history backwards and never a DB): the execution of this run if there was one, else what an earlier run saved. -/
theorem C10_getargs (ops : List VOp) (subs : Option (List Name)) (src : Name) (key : Option Key) :
    getArg (vrun ops) subs src key = getArg (latest ops.reverse) subs src key := by
  rw [vrun_eq_latest]

/-- spelled out for a single source read right after it saved: the consumer gets exactly the saved dict / value -/
theorem C10_getargs_after_save (ops : List VOp) (src : Name) (v : UV) :
    getArg (vrun (ops ++ [.save src v])) none src none = .ok (.single (.whole v)) := by
  rw [C10_getargs]
  simp [getArg, getValue, latest]

/-- … and after a failure or `forget` of the source a keyed getargs is an error, never a stale value -/
theorem C10_getargs_after_remove (ops : List VOp) (src : Name) (k : Key) :
    getArg (vrun (ops ++ [.remove src])) none src (some k) = .error .noRecord := by
  rw [C10_getargs]
  simp [getArg, getValue, latest]

/-- group source: the result has exactly one entry per sub-task, in the order of the group's sub-task list, each
    holding that sub-task's own value -/
theorem C10_getargs_group (db : VDB) (key : Option Key) (subs : List Name) (m : List (Name × Leaf)) :
    getGroup db key subs = .ok m →
    m.map Prod.fst = subs ∧ ∀ s l, (s, l) ∈ m → getValue db s key = .ok l := by
  induction subs generalizing m with
  | nil => intro h; simp only [getGroup, Except.ok.injEq] at h; subst h; simp
  | cons a rest ih =>
    intro h
    simp only [getGroup] at h
    cases hv : getValue db a key with
    | error e => simp [hv] at h
    | ok l =>
      cases hg : getGroup db key rest with
      | error e => simp [hv, hg] at h
      | ok m' =>
        simp only [hv, hg, Except.ok.injEq] at h
        subst h
        obtain ⟨h1, h2⟩ := ih m' hg
        refine ⟨by simp [h1], ?_⟩
        intro s l' hm
        simp only [List.mem_cons, Prod.mk.injEq] at hm
        rcases hm with ⟨rfl, rfl⟩ | hm
        · exact hv
        · exact h2 s l' hm

/-- the dict built for a group source is keyed by the sub-task's own name — what follows `<group>:` in the full task
    name — whatever characters that name contains (':' included) -/
theorem C10_group_key_strips_prefix (group name : List Char) : subKey group (group ++ ':' :: name) = name := by
  simp [subKey, List.drop_append]

/-- … so distinct sub-tasks of one group never collapse into one entry -/
theorem C10_group_keys_injective (group n₁ n₂ : List Char)
    (h : subKey group (group ++ ':' :: n₁) = subKey group (group ++ ':' :: n₂)) : n₁ = n₂ := by
  simpa [C10_group_key_strips_prefix] using h

/-- taking the last ':'-separated segment instead (seeded change `C10-r4-group-getargs-key-rsplit`) is not the same
    function: `build:linux:x86` and `build:mac:x86` would both be delivered under `x86` -/
theorem C10_group_key_rsplit_counterexample :
    subKeyLastSegment "build:linux:x86".toList = subKeyLastSegment "build:mac:x86".toList ∧
    subKey "build".toList "build:linux:x86".toList = "linux:x86".toList ∧
    subKey "build".toList "build:mac:x86".toList = "mac:x86".toList := by decide

/-- an execution whose values can not be saved (`completeOk actionsOk false = false`) leaves no record and no value:
    the next status check of the task has nothing recorded (it runs again), and a keyed getargs on it is an error,
    never the value the actions computed -/
theorem C10_unsaveable_execution_leaves_nothing (h : List IOp) (t : Name) (actionsOk : Bool)
    (ws : List (Path × Nat × Nat)) (res : Option Res) (hal : (runI h).crashed = false) :
    (runI (h ++ [.complete t (completeOk actionsOk false) ws res])).shadow t = none ∧
    ∀ (ops : List VOp) (k : Key), getArg (vrun (ops ++ [.remove t])) none t (some k) = .error .noRecord := by
  constructor
  · have hal' : (List.foldl istep St.init h).crashed = false := hal
    simp [runI, List.foldl_append, istep, completeOk, hal', finish, erase]
  · intro ops k
    exact C10_getargs_after_remove ops t k

/-! ## calc_dep results in the same run -/

/-- **C10, calc_dep.**  `update_deps` with the file_dep delivered by a calc_dep task is a redefinition of the
    consumer (`withCalc`); in the state right after it — the one its status check of the same run sees —
    every delivered dependency is among `dependencies`, a delivered dependency that is new or modified makes the
    consumer not up-to-date, and (no false uptodate item) it is in `changed` when the last recorded execution had it
    and it is modified, or when the record holds no state for it. -/
theorem C10_calc_same_run (h : List IOp) (hf : IFaithful h = true) (t : Name) (delivered : List Path) (always : Bool) :
    let σ := runI (h ++ [.base (.redefine t (withCalc ((runI h).defs t) delivered))])
    ((runI h).crashed = false → ∀ p, p ∈ delivered → p ∈ (kwargsOf σ t).dependencies) ∧
    (∀ p, p ∈ (σ.defs t).deps → needsAt σ t p = true → σ.status true t ≠ .upToDate) ∧
    (executes σ t always = true → falseItemAt σ t = false →
      ∀ p, p ∈ (σ.defs t).deps → (needsSeenAt σ t p = true ∨ (σ.rcd t).fstate p = none) → p ∈ (kwargsOf σ t).changed) := by
  intro σ
  have hf' : IFaithful (h ++ [.base (.redefine t (withCalc ((runI h).defs t) delivered))]) = true := by
    simp only [IFaithful, List.all_append, List.all_cons, List.all_nil, Bool.and_true, Bool.and_eq_true] at hf ⊢
    exact ⟨hf, rfl⟩
  have hinv : Inv σ := runI_inv _ hf'
  refine ⟨?_, fun p hp hn => needed_not_uptodate hinv t p hp hn, ?_⟩
  · intro hal p hp
    have : (σ.defs t).deps = addDeps ((runI h).defs t).deps delivered := by
      simp only [σ, runI, List.foldl_append, List.foldl_cons, List.foldl_nil, istep, step]
      have hal' : (List.foldl istep St.init h).crashed = false := hal
      simp [hal', withCalc]
    simp only [kwargsOf, this]
    exact (mem_addDeps _ _ _).mpr (Or.inr hp)
  · intro hex hF p hp hn
    have hst : σ.status true t = .run ∨ σ.status true t = .upToDate := by
      simp only [executes, Bool.or_eq_true, Bool.and_eq_true, beq_iff_eq] at hex
      rcases hex with h1 | ⟨_, h1⟩
      · exact Or.inl h1
      · exact Or.inr h1
    rcases hn with hn | hn
    · exact changed_of_needsSeen hinv t p hF hst hp hn
    · exact changed_of_no_state hinv t p hF hst hp hn

/-- a calc_dep result may also carry `uptodate` items (`Task.update_deps` → `_extend_uptodate`): a delivered `False`
    makes the consumer execute in the same run — on the false-uptodate path of F-C10, i.e. with `changed == []` -/
theorem C10_calc_delivered_uptodate_false (h : List IOp) (t : Name) (delivered : List Path) (utd : List Utd)
    (hal : (runI h).crashed = false) (hu : Utd.const false ∈ utd) :
    let σ := runI (h ++ [.base (.redefine t (withCalcU ((runI h).defs t) delivered utd))])
    σ.status true t = .run ∧ (kwargsOf σ t).changed = [] := by
  intro σ
  have hdef : σ.defs t = withCalcU ((runI h).defs t) delivered utd := by
    simp only [σ, runI, List.foldl_append, List.foldl_cons, List.foldl_nil, istep, step]
    have hal' : (List.foldl istep St.init h).crashed = false := hal
    simp [hal']
  have hF : ∀ vals resOf, utdFalse vals resOf (σ.defs t).uptodate = true := by
    intro vals resOf
    rw [hdef]
    simp only [utdFalse, withCalcU, List.any_append, List.any_eq_true, Bool.or_eq_true]
    exact Or.inr ⟨_, hu, by simp [evalUtd]⟩
  constructor
  · simp [St.status, statusOf, earlyRun, hF]
  · simp [kwargsOf, depChangedOf, hF]

/-! ## non-vacuity -/

/-- a history on which a consumer with two dependencies and a target really executes a second time, with one
    dependency modified, one untouched: `changed` is exactly the modified one -/
def demoHist : List IOp :=
  [.base (.edit 0 4 1), .base (.edit 1 4 2), .base (.redefine 0 ⟨[0, 1], [2], [.const true]⟩),
   .select 0, .complete 0 true [(2, 4, 9)] (some 3), .base (.edit 1 5 7), .base (.touch 0)]

example : IFaithful demoHist = true ∧ executes (runI demoHist) 0 false = true ∧ falseItemAt (runI demoHist) 0 = false ∧
    needsSeenAt (runI demoHist) 0 1 = true ∧ needsAt (runI demoHist) 0 0 = false ∧
    kwargsOf (runI demoHist) 0 = ⟨[1], [0, 1], [2]⟩ ∧
    changedOk (runI demoHist) 0 (kwargsOf (runI demoHist) 0) = true := by decide

/-- getargs through a producer that executed in an earlier run, was forgotten, executed again, and a group -/
example :
    getArg (vrun [.save 1 [(0, 5)], .other, .remove 1, .save 1 [(0, 6), (1, 7)], .save 2 [(0, 8)], .other]) none 1 (some 0)
      = .ok (.single (.one 6)) ∧
    getArg (vrun [.save 1 [(0, 5)], .other, .remove 1, .save 1 [(0, 6), (1, 7)], .save 2 [(0, 8)], .other]) (some [1, 2]) 9 (some 0)
      = .ok (.group [(1, .one 6), (2, .one 8)]) ∧
    getArg (vrun [.save 1 [(0, 5)], .remove 1]) none 1 (some 0) = .error .noRecord := ⟨rfl, rfl, rfl⟩

/-- calc_dep: a delivered dependency that the last execution did not have *and* that the record never saw -/
example :
    let h : List IOp := [.base (.edit 0 4 1), .base (.edit 1 4 2), .base (.redefine 0 ⟨[0], [], []⟩), .select 0,
                         .complete 0 true [] none]
    let σ := runI (h ++ [.base (.redefine 0 (withCalc ((runI h).defs 0) [1]))])
    executes σ 0 false = true ∧ (kwargsOf σ 0).dependencies = [0, 1] ∧ (kwargsOf σ 0).changed = [1] := by decide

end DoitModel.C10
