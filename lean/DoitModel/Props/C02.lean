import DoitModel.Proofs.RunAcct
/-! # C02 — each needed task is processed exactly once; nothing else runs

Property theorems only (model: `Model/Run.lean`; invariants: `Proofs/Run*.lean`).
Quantification as for C01: every task table, selection, oracle, flag, set-iteration order and every reachable state
(every prefix of every run). -/
namespace DoitModel.C02
open DoitModel.Run

/-- at most one action start and at most one terminal report (`add_success` / `add_failure` / `skip_uptodate` /
    `skip_ignore`) per task, in every reachable state of the given transition system -/
def AtMostOnce (reach : Sys → Prop) : Prop :=
  ∀ s, reach s → ∀ t : Name,
    s.events.countP (Ev.isStartOf t) ≤ 1 ∧ s.events.countP (Ev.isTerminalOf t) ≤ 1

/-- C02 (safety part) for the serial runner: however many tasks depend on `t` and however often it is selected,
    its actions start at most once and it is reported at most once -/
theorem C02_at_most_once_serial (inp : RunInput) : AtMostOnce (Reach inp) := by
  intro s hr t
  have h3 := reach_inv3 hr
  have hj := h3.j t
  have hp := h3.p0 t
  refine ⟨?_, h3.t2 t⟩
  show cStart s t ≤ 1
  omega

/-- a task is started only after `select_task` chose it, and it is chosen at most once -/
theorem C02_selected_once_serial (inp : RunInput) (s : Sys) (hr : Reach inp s) (t : Name) :
    s.events.countP (Ev.isGoOf t) ≤ 1 ∧ s.events.countP (Ev.isStartOf t) ≤ s.events.countP (Ev.isGoOf t) := by
  have h3 := reach_inv3 hr
  have hj := h3.j t
  refine ⟨(h3.p0 t).1, ?_⟩
  show cStart s t ≤ cGo s t
  omega

/-- the monitor evaluated by the driver on implementation traces is implied for the model's observable trace -/
theorem C02_monitor_serial (inp : RunInput) (s : Sys) (hr : Reach inp s) (nTasks : Nat) :
    monC02AtMostOnce nTasks (trace inp s) = true := by
  have h := C02_at_most_once_serial inp s hr
  unfold monC02AtMostOnce
  simp only [List.all_eq_true, List.mem_range, Bool.and_eq_true, decide_eq_true_eq]
  intro t _
  have key : ∀ p : Ev → Bool, ((trace inp s).filter p).length ≤ s.events.countP p := by
    intro p
    unfold trace
    rw [← List.countP_eq_length_filter, List.countP_reverse, List.countP_filter]
    apply List.countP_mono_left
    intro x _ hx; simp only [Bool.and_eq_true] at hx; exact hx.1
  exact ⟨Nat.le_trans (key _) (h t).1, Nat.le_trans (key _) (h t).2⟩

/-- C02 (safety part) for the parallel runners, every worker interleaving and every `numProcess` -/
theorem C02_at_most_once_parallel (inp : RunInput) : AtMostOnce (PReach inp) := by
  intro s hr t
  have h3 := (preach_inv hr).2
  have hj := h3.j t
  have hp := h3.p0 t
  refine ⟨?_, h3.t2 t⟩
  show cStart s t ≤ 1
  omega

/-- hand-out accounting of the parallel main loop: a task chosen by `select_task` is in exactly one place — held by
    `get_next_job`, in the job queue, or already started — so no job is handed out twice and none is lost before it
    starts; a started task is executed by at most one worker -/
theorem C02_job_accounting (inp : RunInput) (s : Sys) (hr : PReach inp s) (t : Name) :
    s.jobQ.count (.task t) + holding s t + s.events.countP (Ev.isStartOf t) = s.events.countP (Ev.isGoOf t) ∧
    (∀ w w', s.workers w = .running t → s.workers w' = .running t → w = w') ∧
    (t ∈ s.resQ → ∀ w, s.workers w ≠ .running t) := by
  have h3 := (preach_inv hr).2
  refine ⟨h3.j t, fun w w' a b => h3.w2 w w' t a b, ?_⟩
  intro hq w hw
  have := (h3.q1 t hq).1
  have := (h3.w1 w t hw).2.1
  omega

/-- nothing outside the closure of the selection is ever touched: every event of a run — `get_status`, the skip /
    failure / success reports, `execute_task`, action start and end, teardown — names a member of `Cl inp`, the least
    set containing the selection and closed under task_dep, calc_dep, what a member delivers as calc result (also what
    it returned before its execution failed: `_process_calc_dep_results` does not look at `run_status`), and the
    setup-tasks of members that are neither ignored nor up-to-date (`MayRun`).  (`Cl` is static: it over-approximates
    the run-dependent closure that the monitor `monC02InsideClosure` computes from a trace.) -/
def InsideClosure (inp : RunInput) (reach : Sys → Prop) : Prop :=
  ∀ s, reach s → ∀ e ∈ s.events, ∀ t : Name, Ev.mentions t e = true → Cl inp t

theorem C02_inside_closure_serial (inp : RunInput) : InsideClosure inp (Reach inp) :=
  fun _ hr e he t ht => (reach_minv hr).ev e he t ht

theorem C02_inside_closure_parallel (inp : RunInput) : InsideClosure inp (PReach inp) :=
  fun _ hr e he t ht => (preach_minv hr).ev e he t ht

/-- also no node is created, no job queued and no worker occupied for a task outside the closure -/
theorem C02_no_outside_work (inp : RunInput) (s : Sys) (hr : PReach inp s) :
    (∀ t nd, s.nodes t = some nd → Cl inp t) ∧ (∀ t, Job.task t ∈ s.jobQ → Cl inp t) ∧
    (∀ w t, s.workers w = .running t → Cl inp t) :=
  ⟨fun t nd h => ((preach_minv hr).nodes t nd h).self, (preach_minv hr).jobs, (preach_minv hr).wk⟩

/-- task `0` is selected, up-to-date, and has the setup-task `1` -/
def exUtd : RunInput :=
  { taskDep := fun _ => [], calcDep := fun _ => [], setup := fun n => if n = 0 then [1] else [],
    sel := [0], statusOf := fun _ => .utd }

/-- the setup-tasks of a task that is up-to-date (or ignored) are not in the closure on its account, so by
    `C02_inside_closure` they are never started: the closure is not trivially everything -/
theorem C02_closure_excludes_lazy_setup : ¬ Cl exUtd 1 := by
  intro h
  have key : ∀ t, Cl exUtd t → t = 0 := by
    intro t ht
    induction ht with
    | ofSel h => simpa [exUtd] using h
    | ofTask _ h => simp [exUtd] at h
    | ofCalc _ h => simp [exUtd] at h
    | ofSetup _ hm _ => simp [MayRun, effStatus, exUtd] at hm
    | ofRes _ h => simp [exUtd] at h
    | ofResFail _ h => simp [exUtd] at h
  have := key 1 h; cases this

/-- C02 (completeness part) for the serial runner: if the run ends because the dispatcher has nothing left — it was
    not cut short by a failure without `--continue` (`stop = false`) nor by an internal error / a cyclic-dependency
    error (`halt = none`) — then every task in the closure of the selection (`RunCl`: the selection, closed under
    task_dep and calc_dep as extended by calc results, and under the setup-tasks of tasks chosen for execution) has
    exactly one terminal report: it was executed, skipped as up-to-date, skipped as ignored, or reported failed/unmet,
    once.  No acyclicity hypothesis is needed: a cyclic closure makes the run end with `halt = cyclic`. -/
theorem C02_all_processed_serial (inp : RunInput) (s : Sys) (hr : Reach inp s) (hend : s.rpc = .halted)
    (hhalt : s.halt = .none) (hstop : s.stop = false) (t : Name) (ht : RunCl inp s t) :
    s.events.countP (Ev.isTerminalOf t) = 1 :=
  all_processed_serial hr hend hhalt hstop t ht

/-- C02 (completeness part) for the parallel runners (`MRunner` / `MThreadRunner`), every worker interleaving and
    every `numProcess`: at a normal end of the main loop every member of the closure has exactly one terminal report -/
theorem C02_all_processed_parallel (inp : RunInput) (s : Sys) (hr : PReach inp s) (hend : s.rpc = .halted)
    (hhalt : s.halt = .none) (hstop : s.stop = false) (t : Name) (ht : RunCl inp s t) :
    s.events.countP (Ev.isTerminalOf t) = 1 :=
  all_processed_parallel hr hend hhalt hstop t ht

/-- I9, the `free_proc` / `proc_count` accounting of `MRunner.run_tasks`: outside the start loop `proc_count` covers
    the outstanding work (task jobs queued or held, tasks being executed, unprocessed results), the workers parked on a
    `JobHold` and the `get_next_job` calls still owed in the current round; in the start loop every started worker has
    exactly one job.  Hence the loop never ends (`proc_count = 0`) with work left, and no started worker is left without
    its `None`. -/
theorem C02_queue_accounting (inp : RunInput) (s : Sys) (hr : PReach inp s) :
    (inStart s = true → s.nStarted + pendStart s = outst s + s.freeProc) ∧
    (inStart s = false → s.halt = .none → s.procCount ≥ ((outst s + s.freeProc + kRem s : Nat) : Int)) :=
  ⟨(preach_inv5 hr).accS, (preach_inv5 hr).accM⟩

/-- at a normal end nothing is in flight and the dispatcher generator is exhausted -/
theorem C02_end_quiescent (inp : RunInput) (s : Sys) (hr : PReach inp s) (hend : s.rpc = .halted)
    (hhalt : s.halt = .none) (hstop : s.stop = false) :
    s.susp = some .stopIter ∧ s.resQ = [] ∧ (∀ t, Job.task t ∉ s.jobQ) ∧ (∀ w t, s.workers w ≠ .running t) := by
  obtain ⟨a, b⟩ := parallel_end_quiescent hr hend hhalt hstop
  refine ⟨a, ?_, fun t h => b t (Or.inl h), fun w t h => b t (Or.inr (Or.inr (Or.inl ⟨w, h⟩)))⟩
  cases hq : s.resQ with
  | nil => rfl
  | cons x xs => exact absurd (Or.inr (Or.inr (Or.inr (by rw [hq]; simp)))) (b x)

/-! ### non-vacuity -/

/-- a shared dependency (`0` below `1`, `2`, `3`), a shared setup-task (`4` of `1` and `2`), `0` selected twice more;
    three worker threads -/
def exShared : RunInput :=
  { taskDep := fun n => if n = 1 ∨ n = 2 ∨ n = 3 then [0] else []
    calcDep := fun _ => []
    setup := fun n => if n = 1 ∨ n = 2 then [4] else []
    sel := [1, 0, 2, 3, 0], runner := .thread, numProc := 3 }

/-- every task of the closure is started and reported (so "at most once" is about events that do occur), under a
    schedule that keeps several workers busy -/
example : ∃ s, PReach exShared s ∧ s.events.contains Ev.complete = true ∧
    ((List.range 5).all fun t => s.events.countP (Ev.isStartOf t) == 1 && s.events.countP (Ev.isTerminalOf t) == 1) = true :=
  ⟨_, autoRun_preach (by decide) false true 600 _ PReach.init, by decide +kernel⟩

/-- the hypotheses of `C02_all_processed_serial` are met by a real run: the shared-dependency graph above under the
    serial runner ends normally, and its sink-side tasks are in the run's closure -/
example : ∃ s, Reach { exShared with runner := .serial, numProc := 0 } s ∧ s.rpc = .halted ∧ s.halt = .none ∧
    s.stop = false ∧ RunCl { exShared with runner := .serial, numProc := 0 } s 0 :=
  ⟨_, autoRun_reach (by decide) false false 600 _ Reach.init, by decide +kernel, by decide +kernel,
    by decide +kernel, RunCl.ofSel (by decide)⟩

/-- ... and by a run with three worker threads -/
example : ∃ s, PReach exShared s ∧ s.rpc = .halted ∧ s.halt = .none ∧ s.stop = false ∧ RunCl exShared s 4 :=
  ⟨_, autoRun_preach (by decide) false true 600 _ PReach.init, by decide +kernel, by decide +kernel,
    by decide +kernel,
    RunCl.ofSetup (t := 1) (deps := [0, 4]) (RunCl.ofSel (by decide)) (by decide +kernel) (by decide)⟩

/-- task `0` (selected) has the calc_dep `1`; `1` returns `{'task_dep': [2]}` from its first action and fails in a later
    one; `--continue` -/
def exFailDeliver : RunInput :=
  { taskDep := fun _ => [], calcDep := fun n => if n = 0 then [1] else [], setup := fun _ => [],
    sel := [0], continue_ := true, outcome := fun n => if n = 1 then .failed else .ok,
    calcResFail := fun n => if n = 1 then { tasks := [2] } else {} }

/-- the delivery of a FAILED calc task's values is part of the model (`deliverF`): `2` is created and executed on
    account of what the failed `1` returned, `0` is reported unmet and never starts — and `2` is a member of `Cl` only
    through `Cl.ofResFail` -/
example : ∃ s, Reach exFailDeliver s ∧ s.events.contains Ev.complete = true ∧
    s.events.countP (Ev.isStartOf 2) = 1 ∧ s.events.countP (Ev.isStartOf 0) = 0 ∧
    s.events.contains (Ev.failure 0 .unmet) = true ∧ s.events.contains (Ev.failure 1 .failed) = true :=
  ⟨_, autoRun_reach (by decide) false false 600 _ Reach.init, by decide +kernel, by decide +kernel,
    by decide +kernel, by decide +kernel, by decide +kernel⟩

end DoitModel.C02
