import DoitModel.Proofs.StatusDecision
import DoitModel.Proofs.StatusNoCrash
/-! # C03 — a stale task is never skipped (up-to-date soundness over histories)

Property theorems only (model: `Model/Status.lean`, helpers: `Proofs/Status*.lean`).
Quantification: every finite history over edit / touch / delete of any file, task redefinition, runs of any task
(successful, failing, with `--always-execute`, with any writes by the action, failing while saving), failures
before execution, forget, ignore, reset-dep, status-only commands and switches of the configured checker;
any number of tasks and files; every prefix of the history; the repaired `deps:` test of the present tree.
`Faithful` is the checker's documented premise (a content change comes with an mtime change).
Backends: by C07 every backend is the map `task → key → value` this model works on. -/
namespace DoitModel.C03
open DoitModel.Status

theorem faithful_take (h : List Op) (k : Nat) (hf : Faithful h = true) : Faithful (h.take k) = true := by
  unfold Faithful at hf ⊢
  rw [List.all_eq_true] at hf ⊢
  intro o ho
  exact hf o (List.mem_of_mem_take ho)

/-- **C03.**  After every prefix of every history, a task whose status is `up-to-date` (the only status on which the
    runner skips) satisfies the specification relative to its last recorded successful execution: same set of file
    dependencies, every dependency present and unmodified by the rule of the configured checker relative to what
    that execution saw, same checker, every target present, every uptodate item true, at least one file dependency
    or evaluated uptodate item; with no recorded execution, no file dependency at all. -/
theorem C03_sound (h : List Op) (hf : Faithful h = true) (k : Nat) (t : Name) :
    (runHist true (h.take k)).status true t = .upToDate → (runHist true (h.take k)).spec t = true :=
  (decision_eq_spec (hist_inv _ (faithful_take h k hf)) t).mp

/-- the runner's skip itself: `runTask` leaves the state untouched without `--always-execute` only when the task
    is ignored or the specification holds -/
theorem C03_skip_is_justified (h : List Op) (hf : Faithful h = true) (t : Name) (ok : Bool)
    (ws : List (Path × Nat × Nat)) (res : Option Res) :
    let σ := runHist true h
    (σ.rcd t).ign = false → σ.status true t = .upToDate → σ.spec t = true ∧ runTask true σ t ok false ws res = σ := by
  intro σ hign hst
  refine ⟨(decision_eq_spec (hist_inv _ hf) t).mp hst, ?_⟩
  simp only [runTask, hign, Bool.false_eq_true, if_false]
  rw [hst]

/-- under md5 the skipped task's dependencies have exactly the size and content the last recorded successful
    execution saw (not merely "unmodified by the checker's shortcut") -/
theorem C03_md5_content (h : List Op) (hf : Faithful h = true) (t : Name) :
    let σ := runHist true h
    σ.checker = .md5 → σ.status true t = .upToDate →
    ∀ e, σ.shadow t = some e → ∀ p, p ∈ (σ.defs t).deps →
      ∃ now sm, σ.fs p = some now ∧ e.saw p = some sm ∧ now.size = sm.size ∧ now.cid = sm.cid := by
  intro σ hc hst e he p hp
  have hinv : Inv σ := hist_inv _ hf
  have hspec := (decision_eq_spec hinv t).mp hst
  simp only [St.spec, specUpToDate, he, Bool.and_eq_true, List.all_eq_true] at hspec
  have hu := hspec.2.2 p hp
  simp only [depUnmod] at hu
  cases hnow : σ.fs p with
  | none => simp [hnow] at hu
  | some now =>
    cases hsaw : e.saw p with
    | none => simp [hnow, hsaw] at hu
    | some sm =>
      refine ⟨now, sm, rfl, rfl, ?_⟩
      simp only [hnow, hsaw, unmodBy, hc, stateOf, checkModified, beq_iff_eq] at hu
      by_cases hm : now.mtime = sm.mtime
      · have := (hinv.saw t e he p sm hsaw).2 now hnow hm
        simp [this]
      · simp only [hm, if_false] at hu
        by_cases hsz : now.size = sm.size
        · by_cases hcid : sm.cid = now.cid
          · exact ⟨hsz, hcid.symm⟩
          · simp [hsz, hcid] at hu
        · simp [hsz] at hu

/-! ## the absorbing `crash` state

`St.crashed` models an unhandled `TypeError` of doit (`MD5Checker` meeting a state saved by `TimestampChecker`);
after it the model state is frozen at the last state before the exception, so the theorems above say nothing about
what doit left in the DB.  It needs a switch of the checker: -/

/-- a history without `switchChecker` never reaches the crash state (and the md5 checker stays configured) -/
theorem C03_no_crash_without_checker_switch (h : List Op) (hn : NoSwitch h = true) (k : Nat) :
    (runHist true (h.take k)).crashed = false := by
  have : NoSwitch (h.take k) = true := by
    unfold NoSwitch at hn ⊢
    rw [List.all_eq_true] at hn ⊢
    intro o ho
    exact hn o (List.mem_of_mem_take ho)
  exact (noSwitch_md5 true _ this).alive

/-- the crash is reachable: `get_status` leaves through "missing target" before it would drop the record of the
    other checker, then `save_success` (called by `reset-dep`, which has no handler) hands the float state to
    `MD5Checker.get_state` -/
theorem C03_crash_reachable :
    (runHist true [.switchChecker .ts, .edit 0 4 1, .redefine 0 ⟨[0], [1], []⟩, .run 0 true false [(1, 4, 9)] none,
      .delete 1, .switchChecker .md5, .resetDep 0]).crashed = true := by decide

/-- the same situation met by `run`: since the fix commit 8fa62ea the `TypeError` of `save_success` is a task failure;
    the record is erased (no crash, and the task is not up-to-date afterwards) -/
example :
    let σ := runHist true [.switchChecker .ts, .edit 0 4 1, .redefine 0 ⟨[0], [1], []⟩, .run 0 true false [(1, 4, 9)] none,
      .delete 1, .switchChecker .md5, .run 0 true false [(1, 4, 9)] none]
    σ.crashed = false ∧ (σ.shadow 0).isNone = true ∧ σ.status true 0 = .run := by decide

/-! ## non-vacuity: a history on which a task with a file dependency and a target really ends up-to-date, after a
    failed run, a forget, a checker switch and a dep-set change -/

def demoDef (deps : List Path) : TaskDef := ⟨deps, [2], [.const true, .noneItem]⟩

def demoHist : List Op :=
  [.edit 0 4 1, .edit 1 4 2, .redefine 0 (demoDef [0]), .run 0 false false [(2, 4, 7)] none, .run 0 true false [(2, 4, 8)] none,
   .touch 0, .forget 0, .run 0 true false [] (some 5), .switchChecker .ts, .run 0 true false [] none,
   .redefine 0 (demoDef [0, 1]), .run 0 true false [] none, .touch 1, .resetDep 0]

example : Faithful demoHist = true ∧ (runHist true demoHist).crashed = false ∧
    (runHist true demoHist).status true 0 = .upToDate ∧ (runHist true demoHist).spec 0 = true := by decide

/-! ## the pinned tree (`previous_set and previous_set != task.file_dep`): F-C03 -/

def pinnedHist : List Op :=
  [.edit 0 4 1, .redefine 0 ⟨[0], [], []⟩, .run 0 true false [] none,
   .redefine 0 ⟨[], [], [.const true]⟩, .run 0 true false [] none,
   .redefine 0 ⟨[0], [], [.const true]⟩]

/-- with the pinned truthiness test the statement is false: the dependency set differs from the one of the last
    successful execution (which had none), yet the task is skipped -/
theorem C03_pinned_counterexample :
    let σ := runHist false pinnedHist
    Faithful pinnedHist = true ∧ pinnedUpToDate σ.checker (σ.defs 0) (σ.rcd 0) σ.fs σ.resOf = true ∧
    σ.spec 0 = false := by decide

/-- the same history on the repaired test -/
example : (runHist true pinnedHist).status true 0 = .run := by decide

/-! ## outside the checker's premise: an edit that keeps the mtime -/

def mtimePreservingHist : List Op :=
  [.edit 0 4 1, .redefine 0 ⟨[0], [1], []⟩, .run 0 true false [(1, 4, 9)] none,
   .editKeep 0 4 2, .delete 1, .run 0 true false [(1, 4, 9)] none, .edit 0 4 1]

/-- `Faithful` cannot be dropped: when a file's content changes under an unchanged mtime, `MD5Checker.get_state`
    keeps the state of the older content; going back to that content is then judged unmodified although the last
    successful execution saw something else.  (Informational stream of the harness, never a violation.) -/
theorem C03_mtime_preserving_counterexample :
    Faithful mtimePreservingHist = false ∧ (runHist true mtimePreservingHist).status true 0 = .upToDate ∧
    (runHist true mtimePreservingHist).spec 0 = false := by decide

end DoitModel.C03
