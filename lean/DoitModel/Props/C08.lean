import DoitModel.Proofs.C08Data
/-! # C08 — parallel runs are outcome-equivalent to the serial run

Property theorems only.  Models: `Model/Run.lean` (M1, transition systems of the three runners), `Model/RunData.lean`
(denotation of a complete run; data path worker → main).  Helper lemmas: `Proofs/C08*.lean`, `Proofs/Run*.lean`. -/
namespace DoitModel.C08
open DoitModel.Run

/-! ## `data_intact`: what a worker process produced reaches the main process -/

/-- After `MRunner._process_result(node, task, result)` with the result dict the worker built after executing the task
    (`workerResult`), for ANY main-side task object, ANY worker-side copy and any action outputs:
    * every attribute `pickle_safe_dict` ships — `values`, `result`, `executed`, `options`, `task_dep`, the name and all
      other plain data — has the worker's value on the main side;
    * the seven attributes it does not ship (actions, action instances, clean actions, teardown, title, value savers,
      uptodate) are the main side's own, untouched;
    * `process_task_result` is called with exactly the worker's failure object (or none);
    * the main side keeps its number of action instances; action `i` has the worker's `out` / `err` whenever the worker
      had an action `i`, and keeps its own otherwise. -/
theorem C08_data_intact (m : MainSide) (w : WorkerSide) :
    (∀ a, a.notShipped = false → (processResultData m (workerResult w)).task a = w.task a) ∧
    (∀ a, a.notShipped = true → (processResultData m (workerResult w)).task a = m.task a) ∧
    (processResultData m (workerResult w)).baseFail = w.failure ∧
    (processResultData m (workerResult w)).acts.length = m.acts.length ∧
    (∀ (i : Nat) (a : ActOut), m.acts[i]? = some a → (processResultData m (workerResult w)).acts[i]? =
      some (ActOut.mk (((w.acts.map (·.out))[i]?).getD a.out) (((w.acts.map (·.err))[i]?).getD a.err))) := by
  refine ⟨?_, ?_, rfl, ?_, ?_⟩
  · intro a ha; simp [processResultData, workerResult, updateFromPickle, pickleSafe, ha]
  · intro a ha; simp [processResultData, workerResult, updateFromPickle, pickleSafe, ha]
  · simp [processResultData, zipErr_length, zipOut_length]
  · intro i a h
    have h1 := zipOut_get m.acts (w.acts.map (·.out)) i a h
    have h2 := zipErr_get _ (w.acts.map (·.err)) i _ h1
    simpa [processResultData, workerResult] using h2

/-- the case doit is in (both sides instantiate the same action list): values, result, the executed flag and the
    per-action captured output arrive exactly -/
theorem C08_data_intact_same_actions (m : MainSide) (w : WorkerSide) (h : m.acts.length = w.acts.length) :
    (processResultData m (workerResult w)).task .values = w.task .values ∧
    (processResultData m (workerResult w)).task .result = w.task .result ∧
    (processResultData m (workerResult w)).task .executed = w.task .executed ∧
    (processResultData m (workerResult w)).acts = w.acts ∧
    (processResultData m (workerResult w)).baseFail = w.failure := by
  refine ⟨?_, ?_, ?_, ?_, rfl⟩
  · simp [processResultData, workerResult, updateFromPickle, pickleSafe, Attr.notShipped]
  · simp [processResultData, workerResult, updateFromPickle, pickleSafe, Attr.notShipped]
  · simp [processResultData, workerResult, updateFromPickle, pickleSafe, Attr.notShipped]
  · simp only [processResultData, workerResult]; exact zip_all m.acts w.acts h

/-- the other direction (`JobTaskPickle` received by a worker process): the worker's copy takes every shipped
    attribute from the main side (run-time state such as `options`, `values` of getargs sources) and keeps its own
    actions -/
theorem C08_job_pickle_intact (workerCopy mainTask : TaskRec) :
    (∀ a, a.notShipped = false → workerReceivesPickle workerCopy mainTask a = mainTask a) ∧
    (∀ a, a.notShipped = true → workerReceivesPickle workerCopy mainTask a = workerCopy a) := by
  constructor <;> intro a ha <;> simp [workerReceivesPickle, updateFromPickle, pickleSafe, ha]

/-- round trip: a worker that changes nothing hands the main task back unchanged (nothing is lost by shipping a task
    out and merging it back) -/
theorem C08_roundtrip_identity (m : MainSide) (workerCopy : TaskRec) :
    (processResultData m (workerResult
      { task := workerReceivesPickle workerCopy m.task, acts := m.acts, failure := none })).task = m.task ∧
    (processResultData m (workerResult
      { task := workerReceivesPickle workerCopy m.task, acts := m.acts, failure := none })).acts = m.acts := by
  constructor
  · funext a
    cases h : a.notShipped <;>
      simp [processResultData, workerResult, workerReceivesPickle, updateFromPickle, pickleSafe, h]
  · simp only [processResultData, workerResult]; exact zip_all m.acts m.acts rfl

/-- non-vacuity: a worker that executed a two-action task (values 7, result 8, outputs 1/2 and 3/4) against a main
    side that still has the pre-run state; the unshipped `teardown` stays the main side's -/
example :
    let m : MainSide := { task := fun a => if a = .teardown then 99 else 0, acts := [⟨0, 0⟩, ⟨0, 0⟩], baseFail := none }
    let w : WorkerSide := { task := fun a => match a with | .values => 7 | .result => 8 | .executed => 1 | _ => 0,
                            acts := [⟨1, 2⟩, ⟨3, 4⟩], failure := some 5 }
    let m' := processResultData m (workerResult w)
    m'.task .values = 7 ∧ m'.task .result = 8 ∧ m'.task .executed = 1 ∧ m'.task .teardown = 99 ∧
    m'.acts = [⟨1, 2⟩, ⟨3, 4⟩] ∧ m'.baseFail = some 5 := by decide

/-- what `data_intact` does NOT promise, and why the correspondence probes list lengths: with fewer action instances
    on the main side than outputs in the result, the surplus outputs are dropped by `zip` -/
theorem C08_zip_truncates :
    (processResultData { task := fun _ => 0, acts := [⟨0, 0⟩], baseFail := none }
      (workerResult { task := fun _ => 0, acts := [⟨1, 2⟩, ⟨3, 4⟩], failure := none })).acts = [⟨1, 2⟩] := by decide

end DoitModel.C08
