import DoitModel.Proofs.C08Data
import DoitModel.Proofs.C08Confluence
import DoitModel.Proofs.C08DynConfluence
import DoitModel.Proofs.C08DynExec
import DoitModel.Proofs.C08DynStatic
/-! # C08 — parallel runs are outcome-equivalent to the serial run

Property theorems only.  Models: `Model/Run.lean` (M1, transition systems of the three runners), `Model/RunData.lean`
(denotation of a complete run, static `denF` and with dynamic calc_dep edges `denTab`; data path worker → main).
Helper lemmas: `Proofs/C08Conf*.lean` (graphs without calc_dep), `Proofs/C08Dyn*.lean` (any graph), `Proofs/Run*.lean`.
The confluence half is proved in full: `C08_confluence` (no `NoCalc`, no `Acyclic`); `C08_confluence_partial` is kept.

Failed calc tasks: doit also delivers the values a calc task returned before its execution FAILED
(`_process_calc_dep_results` does not look at `run_status`; M1 `deliverF`, oracle `calcResFail`).  The denotation with
dynamic edges (`Dyn.DenOf`, `denTab`) accounts for it: what a calc task `c` delivers under the outcome `d` is
`delivOf inp c d` — `calcRes c` when `c` was executed successfully or is up-to-date, `calcResFail c` when it failed
DURING its execution (`startedFail`: the actions failed or `save_success` did; decided by the outcome and the oracle,
a `get_status` / `getargs` error or an unmet dependency is found before any action runs and delivers nothing).  The
theorems of the second group (`…_dyn`, `C08_confluence`) hold for every input; `Dyn.InvDen.started_iff` is the
operational link (a failed task has a start event iff its derived outcome is a failure during execution).  The
theorems of the first group (`NoCalc`) are corollaries of the second (`Proofs/C08DynStatic.lean`: on graphs without
calc_dep the two denotations and the two closures coincide), so no theorem of this file carries the former scope
hypothesis `NoFailDeliver` (`Proofs/Run.lean`: `calcResFail` empty) any more; the static development
`Proofs/C08Conf*.lean` still uses it internally. -/
namespace DoitModel.C08
open DoitModel.Run

/-! ## `data_intact`: what a worker process produced reaches the main process -/

/-- After `MRunner._process_result(node, task, result)` with the result dict the worker built after executing the task
    (`workerResult`), for ANY main-side task object, ANY worker-side copy and any action outputs:
    * every attribute `pickle_safe_dict` ships — `values`, `result`, `executed`, `options`, `task_dep`, the name and all
      other plain data — has the worker's value on the main side;
    * the seven attributes it does not ship (actions, action instances, clean actions, teardown, title, value savers,
      uptodate) are the main side's own, untouched;
    * `process_task_result` is called with exactly the worker's failure object (or none);
    * the main side keeps its number of action instances; action `i` has the worker's `out` / `err` whenever the worker
      had an action `i`, and keeps its own otherwise. -/
theorem C08_data_intact (m : MainSide) (w : WorkerSide) :
    (∀ a, a.notShipped = false → (processResultData m (workerResult w)).task a = w.task a) ∧
    (∀ a, a.notShipped = true → (processResultData m (workerResult w)).task a = m.task a) ∧
    (processResultData m (workerResult w)).baseFail = w.failure ∧
    (processResultData m (workerResult w)).acts.length = m.acts.length ∧
    (∀ (i : Nat) (a : ActOut), m.acts[i]? = some a → (processResultData m (workerResult w)).acts[i]? =
      some (ActOut.mk (((w.acts.map (·.out))[i]?).getD a.out) (((w.acts.map (·.err))[i]?).getD a.err))) := by
  refine ⟨?_, ?_, rfl, ?_, ?_⟩
  · intro a ha; simp [processResultData, workerResult, updateFromPickle, pickleSafe, ha]
  · intro a ha; simp [processResultData, workerResult, updateFromPickle, pickleSafe, ha]
  · simp [processResultData, zipErr_length, zipOut_length]
  · intro i a h
    have h1 := zipOut_get m.acts (w.acts.map (·.out)) i a h
    have h2 := zipErr_get _ (w.acts.map (·.err)) i _ h1
    simpa [processResultData, workerResult] using h2

/-- the case doit is in (both sides instantiate the same action list): values, result, the executed flag and the
    per-action captured output arrive exactly -/
theorem C08_data_intact_same_actions (m : MainSide) (w : WorkerSide) (h : m.acts.length = w.acts.length) :
    (processResultData m (workerResult w)).task .values = w.task .values ∧
    (processResultData m (workerResult w)).task .result = w.task .result ∧
    (processResultData m (workerResult w)).task .executed = w.task .executed ∧
    (processResultData m (workerResult w)).acts = w.acts ∧
    (processResultData m (workerResult w)).baseFail = w.failure := by
  refine ⟨?_, ?_, ?_, ?_, rfl⟩
  · simp [processResultData, workerResult, updateFromPickle, pickleSafe, Attr.notShipped]
  · simp [processResultData, workerResult, updateFromPickle, pickleSafe, Attr.notShipped]
  · simp [processResultData, workerResult, updateFromPickle, pickleSafe, Attr.notShipped]
  · simp only [processResultData, workerResult]; exact zip_all m.acts w.acts h

/-- the other direction (`JobTaskPickle` received by a worker process): the worker's copy takes every shipped
    attribute from the main side (run-time state such as `options`, `values` of getargs sources) and keeps its own
    actions -/
theorem C08_job_pickle_intact (workerCopy mainTask : TaskRec) :
    (∀ a, a.notShipped = false → workerReceivesPickle workerCopy mainTask a = mainTask a) ∧
    (∀ a, a.notShipped = true → workerReceivesPickle workerCopy mainTask a = workerCopy a) := by
  constructor <;> intro a ha <;> simp [workerReceivesPickle, updateFromPickle, pickleSafe, ha]

/-- round trip: a worker that changes nothing hands the main task back unchanged (nothing is lost by shipping a task
    out and merging it back) -/
theorem C08_roundtrip_identity (m : MainSide) (workerCopy : TaskRec) :
    (processResultData m (workerResult
      { task := workerReceivesPickle workerCopy m.task, acts := m.acts, failure := none })).task = m.task ∧
    (processResultData m (workerResult
      { task := workerReceivesPickle workerCopy m.task, acts := m.acts, failure := none })).acts = m.acts := by
  constructor
  · funext a
    cases h : a.notShipped <;>
      simp [processResultData, workerResult, workerReceivesPickle, updateFromPickle, pickleSafe, h]
  · simp only [processResultData, workerResult]; exact zip_all m.acts m.acts rfl

/-- non-vacuity: a worker that executed a two-action task (values 7, result 8, outputs 1/2 and 3/4) against a main
    side that still has the pre-run state; the unshipped `teardown` stays the main side's -/
example :
    let m : MainSide := { task := fun a => if a = .teardown then 99 else 0, acts := [⟨0, 0⟩, ⟨0, 0⟩], baseFail := none }
    let w : WorkerSide := { task := fun a => match a with | .values => 7 | .result => 8 | .executed => 1 | _ => 0,
                            acts := [⟨1, 2⟩, ⟨3, 4⟩], failure := some 5 }
    let m' := processResultData m (workerResult w)
    m'.task .values = 7 ∧ m'.task .result = 8 ∧ m'.task .executed = 1 ∧ m'.task .teardown = 99 ∧
    m'.acts = [⟨1, 2⟩, ⟨3, 4⟩] ∧ m'.baseFail = some 5 := by decide

/-- what `data_intact` does NOT promise, and why the correspondence probes list lengths: with fewer action instances
    on the main side than outputs in the result, the surplus outputs are dropped by `zip` -/
theorem C08_zip_truncates :
    (processResultData { task := fun _ => 0, acts := [⟨0, 0⟩], baseFail := none }
      (workerResult { task := fun _ => 0, acts := [⟨1, 2⟩, ⟨3, 4⟩], failure := none })).acts = [⟨1, 2⟩] := by decide

/-! ## `confluence`: every schedule of every runner computes the same outcomes

`DenOf inp t d` (`Proofs/C08Conf1.lean`) is the denotational outcome: `d` is obtained from the outcomes of the task_deps
of `t` (and, when the first `select_task` pass says `run`, of its setup-tasks) by `combine` — no dispatcher, no queue,
no schedule.  It is functional (`DenOf.functional`) without any acyclicity hypothesis, and on acyclic graphs it is what
the executable `denF` computes (`C08_den_computable`).  Hypothesis `NoCalc` of this first group: no `calc_dep` edges;
the second group below (`C08_confluence`, `Dyn.DenOf`) covers every graph, dynamic edges included.  The oracle of
`RunInput` (`statusOf`, `outcome`, `ignored`, `argsOk`, `calcRes`) is a function of the task alone, which is the
reading of "deterministic tasks". -/

/-- (I10) In EVERY reachable state of the serial system and of the parallel system (thread or process runner, any
    `numProcess`, any interleaving of main and workers, any iteration order of the dispatcher's sets), a finished
    `run_status` is the denotation of the task, and so is every terminal report (`add_success`, `skip_uptodate`,
    `skip_ignore`, `add_failure` with its kind) in the event list. -/
theorem C08_status_is_den (inp : RunInput) (hnc : NoCalc inp) (s : Sys) (hr : Reach inp s ∨ PReach inp s) (t : Name) :
    ((stOf s t).finished = true → ∃ d, DenOf inp t d ∧ d.rs = stOf s t) ∧
    (∀ d, (∃ e ∈ s.events, Ev.den? t e = some d) → DenOf inp t d) :=
  ⟨DynS.status_is_den hnc hr t, fun d h => DynS.report_is_den hnc hr t d h⟩

/-- the denotation is a function of the task table and the oracle only: it does not depend on runner kind, worker count,
    `--continue`, the selection or teardown/group marks -/
theorem C08_den_schedule_independent (inp1 inp2 : RunInput) (h : SameTasks inp1 inp2) (t : Name) (d1 d2 : Den)
    (h1 : DenOf inp1 t d1) (h2 : DenOf inp2 t d2) : d1 = d2 :=
  DenOf.functional ((DenOf_congr h t d1).mp h1) h2

/-- on acyclic graphs (`rank` decreasing along task_dep and setup edges) the executable `denF` with fuel above the rank
    IS the denotation: it is never `bot` and any `DenOf` derivation gives the same value (fuel suffices) -/
theorem C08_den_computable (inp : RunInput) (rank : Name → Nat) (hac : Acyclic inp rank) (t : Name) (f : Nat)
    (hf : rank t < f) : DenOf inp t (denF inp f t) ∧ denF inp f t ≠ .bot ∧ ∀ d, DenOf inp t d → denF inp f t = d :=
  ⟨denF_is_den hac f t hf, denF_complete hac f t hf, fun _ h => denF_unique hac h f hf⟩

/-- confluence, state-wise: any two reachable states of any two of the transition systems over the same task table
    (`SameTasks`: they may differ in runner, `numProcess`, selection, `--continue`) agree on every task that is finished
    in both, and on every task reported in both -/
theorem C08_confluence_status (inp1 inp2 : RunInput) (hsame : SameTasks inp1 inp2) (hnc : NoCalc inp1) (s1 s2 : Sys)
    (h1 : Reach inp1 s1 ∨ PReach inp1 s1) (h2 : Reach inp2 s2 ∨ PReach inp2 s2) (t : Name) :
    ((stOf s1 t).finished = true → (stOf s2 t).finished = true → stOf s1 t = stOf s2 t) ∧
    (∀ d1 d2, (∃ e ∈ s1.events, Ev.den? t e = some d1) → (∃ e ∈ s2.events, Ev.den? t e = some d2) → d1 = d2) :=
  ⟨DynS.confluent_status hsame hnc h1 h2 t, fun d1 d2 r1 r2 => DynS.confluent_report hsame hnc h1 h2 t d1 d2 r1 r2⟩

/-- the exit code of a run that was not ended by an internal error is `final_result` folded over its failure reports,
    and that fold only reads the SET of failure kinds (ERROR sticky, FAILURE only over SUCCESS): no `NoCalc` needed -/
theorem C08_exit_of_reports (inp : RunInput) (s : Sys) (hr : Reach inp s ∨ PReach inp s) (hh : s.halt = .none)
    (tr' : List Ev) (h : ∀ k, (∃ n, Ev.failure n k ∈ trace inp s) ↔ (∃ n, Ev.failure n k ∈ tr')) :
    exitCode s = exitOfTrace tr' := by
  rw [exit_of_trace hr hh]; exact exitOfTrace_set h

/-- a complete run (normal end, not stopped: no failure, or `--continue`) reports exactly the denotational closure of
    the selection (`DenCl`: the selection, closed under task_dep and under the setup-tasks of members whose first
    pass says `run`) — each member once (`C02_at_most_once`) -/
theorem C08_complete_reports_closure (inp : RunInput) (hnc : NoCalc inp) (s : Sys) (hr : Reach inp s ∨ PReach inp s)
    (hend : s.rpc = .halted) (hhalt : s.halt = .none) (hstop : s.stop = false) (t : Name) :
    Reported s t ↔ DenCl inp t :=
  DynS.reported_iff_closure hnc hr hend hhalt hstop t

/-- C08, confluence half, for graphs without calc_dep: two complete runs of the same task table and selection — the
    serial run and a run with any number of worker threads or processes under any interleaving, or any two such runs —
    report the same set of tasks, give every task the same terminal report (executed successfully / up-to-date /
    ignored / failed with the same kind; hence the same `save_success` / `remove_success` DB effects, which are
    attached to exactly these reports), leave the same `run_status` on every task both have finished, and return the
    same exit code. -/
theorem C08_confluence_partial (inp1 inp2 : RunInput) (hsame : SameTasks inp1 inp2)
    (hsel : ∀ t, t ∈ inp1.sel ↔ t ∈ inp2.sel) (hnc : NoCalc inp1) (s1 s2 : Sys)
    (h1 : Reach inp1 s1 ∨ PReach inp1 s1) (h2 : Reach inp2 s2 ∨ PReach inp2 s2)
    (e1 : s1.rpc = .halted ∧ s1.halt = .none ∧ s1.stop = false)
    (e2 : s2.rpc = .halted ∧ s2.halt = .none ∧ s2.stop = false) :
    (∀ t, Reported s1 t ↔ Reported s2 t) ∧
    (∀ t, reportOf (trace inp1 s1) t = reportOf (trace inp2 s2) t) ∧
    (∀ t, (stOf s1 t).finished = true → (stOf s2 t).finished = true → stOf s1 t = stOf s2 t) ∧
    exitCode s1 = exitCode s2 :=
  ⟨DynS.complete_runs_same_reported hsame hsel hnc h1 h2 e1 e2, DynS.complete_runs_same_reportOf hsame hsel hnc h1 h2 e1 e2,
   fun t => DynS.confluent_status hsame hnc h1 h2 t, DynS.complete_runs_same_exit hsame hsel hnc h1 h2 e1 e2⟩

/-! ## `confluence` for every task graph, dynamic `calc_dep` edges included

`Dyn.DenOf inp t d` (`Proofs/C08Dyn1.lean`): the dependency set of `t` is no longer read off the task table — its
calc_deps are the least set that contains `calcDep t` and is closed under the `values['calc_dep']` its members deliver
(`Dyn.CalcOf`; `delivOf`: executed / up-to-date members deliver `calcRes`, members that failed during their execution
deliver `calcResFail`), its task_deps are `taskDep t` plus the `values['task_dep']` and the owners of the
`values['file_dep']` those members deliver (`Dyn.DepOf`); whether a member is executed / up-to-date / failed during
execution is its own derived outcome.  The oracles `calcRes` / `calcResFail` (what a calc task delivers) are functions
of the task, like `outcome`.  `Dyn.DenOf` is
functional with no acyclicity hypothesis; a run that ends without exception has derived every outcome it reports, so
none of the theorems below needs `Acyclic`.  The model side is the node invariant `Dyn.NodeS`: every entry of
`task.task_dep` / `task.calc_dep` (`dynTask` / `dynCalc`) is static or was delivered by a finished good calc_dep or by
one that failed during its execution (soundness), and `AllDC` / `AllDCF` (C01_order_delivered: everything a processed
good / failed-during-execution calc_dep delivers is in them, completeness). -/

/-- (I10, any graph) In EVERY reachable state of the serial and of the parallel system — any runner, any `numProcess`,
    any interleaving, any iteration order of the dispatcher's sets, any order in which calc results arrive — a finished
    `run_status` is the denotation of the task, and so is every terminal report in the event list. -/
theorem C08_status_is_den_dyn (inp : RunInput) (s : Sys) (hr : Reach inp s ∨ PReach inp s) (t : Name) :
    ((stOf s t).finished = true → ∃ d, Dyn.DenOf inp t d ∧ d.rs = stOf s t) ∧
    (∀ d, (∃ e ∈ s.events, Ev.den? t e = some d) → Dyn.DenOf inp t d) :=
  ⟨Dyn.status_is_den hr t, fun d h => Dyn.report_is_den hr t d h⟩

/-- the operational link behind the failed-delivery clause of the denotation: in every reachable state, a task whose
    `run_status` is `fail` has a start event (`Run.started`, the flag `deliverF` reads: `Task.execute` ran, so
    `task.values` may hold what the actions returned before the failing one) iff its derived outcome is a failure
    DURING its execution (`startedFail`: the actions failed or `save_success` did — not an unmet dependency, a
    `get_status` error or a `getargs` error, which `select_task` finds before any action runs) -/
theorem C08_failed_started_iff (inp : RunInput) (s : Sys) (hr : Reach inp s ∨ PReach inp s) (c : Name)
    (hf : stOf s c = .fail) :
    started s c = true ↔ ∃ d, Dyn.DenOf inp c d ∧ startedFail inp c d = true :=
  (Dyn.reachable_invDen hr).started_iff (by rcases hr with a | a; exact reach_inv3 a; exact (preach_inv a).2) c hf

/-- the dynamic denotation is a function of the task table and the oracle (including `calcRes`, `calcResFail`) only -/
theorem C08_den_schedule_independent_dyn (inp1 inp2 : RunInput) (h : SameTasks inp1 inp2)
    (hc : ∀ t, inp1.calcRes t = inp2.calcRes t) (hcf : ∀ t, inp1.calcResFail t = inp2.calcResFail t) (t : Name)
    (d1 d2 : Den) (h1 : Dyn.DenOf inp1 t d1) (h2 : Dyn.DenOf inp2 t d2) : d1 = d2 :=
  Dyn.DenOf.functional ((Dyn.DenOf_congr ⟨h, funext hc, funext hcf⟩ t d1).mp h1) h2

/-- on graphs without calc_dep the dynamic denotation is the static one: the `NoCalc` theorems above are the special
    case, and `denF` computes `Dyn.DenOf` there -/
theorem C08_den_dyn_noCalc (inp : RunInput) (hnc : NoCalc inp) (t : Name) (d : Den) :
    Dyn.DenOf inp t d ↔ DenOf inp t d :=
  Dyn.DenOf_noCalc hnc t d

/-- the dynamic denotation is total on finite acyclic graphs — `Dyn.Ranked` is C09's hypothesis `Ranked`: the rank decreases along
    task_dep, setup, static and deliverable calc_dep edges and along everything a calc_dep can deliver — so with
    `DenOf.functional` every task has exactly one outcome there.  (Confluence itself does not need this: a run that
    ends without exception has derived what it reports.) -/
theorem C08_den_total_dyn (inp : RunInput) (rank : Name → Nat) (hr : Dyn.Ranked inp rank) (N : Nat)
    (hN : ∀ n d, Dyn.Dep inp n d → d < N) (t : Name) :
    ∃ d, Dyn.DenOf inp t d ∧ d ≠ .bot ∧ ∀ d', Dyn.DenOf inp t d' → d' = d := by
  obtain ⟨d, hd⟩ := Dyn.DenOf_total hr N hN t
  exact ⟨d, hd, hd.ne_bot, fun d' h' => h'.functional hd⟩

/-- non-vacuity: the example with dynamic edges below (`Dyn.exC08calc`) meets the hypotheses of `C08_den_total_dyn` -/
example : Dyn.Ranked Dyn.exC08calc (fun n => if n = 1 ∨ n = 3 then 1 else 0) ∧
    ∀ n d, Dyn.Dep Dyn.exC08calc n d → d < 6 :=
  Dyn.exC08calc_ranked

/-- a complete run (normal end, not stopped) of ANY graph reports exactly the denotational closure of the selection
    (`Dyn.DenCl`: closed under task_dep, static and delivered calc_dep, what executed / up-to-date calc_deps and
    calc_deps that failed during their execution deliver, and the setup-tasks of members whose first pass says `run`) -/
theorem C08_complete_reports_closure_dyn (inp : RunInput) (s : Sys) (hr : Reach inp s ∨ PReach inp s)
    (hend : s.rpc = .halted) (hhalt : s.halt = .none) (hstop : s.stop = false) (t : Name) :
    Reported s t ↔ Dyn.DenCl inp t :=
  Dyn.reported_iff_closure hr hend hhalt hstop t

/-- C08, confluence half, FULL statement (dynamic `calc_dep` edges included, no `NoCalc`, no `Acyclic`): two complete
    runs of the same task table, the same `calcRes` / `calcResFail` oracles and the same selection — the serial run and a run with any
    number of worker threads or processes under any interleaving, or any two such runs — report the same set of tasks,
    give every task the same terminal report in the observable trace (executed successfully / up-to-date / ignored /
    failed with the same kind; hence the same `save_success` / `remove_success` DB effects), leave the same
    `run_status` on every task both have finished, and return the same exit code. -/
theorem C08_confluence (inp1 inp2 : RunInput) (hsame : SameTasks inp1 inp2)
    (hcalc : ∀ t, inp1.calcRes t = inp2.calcRes t) (hcalcF : ∀ t, inp1.calcResFail t = inp2.calcResFail t)
    (hsel : ∀ t, t ∈ inp1.sel ↔ t ∈ inp2.sel) (s1 s2 : Sys)
    (h1 : Reach inp1 s1 ∨ PReach inp1 s1) (h2 : Reach inp2 s2 ∨ PReach inp2 s2)
    (e1 : s1.rpc = .halted ∧ s1.halt = .none ∧ s1.stop = false)
    (e2 : s2.rpc = .halted ∧ s2.halt = .none ∧ s2.stop = false) :
    (∀ t, Reported s1 t ↔ Reported s2 t) ∧
    (∀ t, reportOf (trace inp1 s1) t = reportOf (trace inp2 s2) t) ∧
    (∀ t, (stOf s1 t).finished = true → (stOf s2 t).finished = true → stOf s1 t = stOf s2 t) ∧
    exitCode s1 = exitCode s2 :=
  have hs : Dyn.SameTasksC inp1 inp2 := ⟨hsame, funext hcalc, funext hcalcF⟩
  ⟨Dyn.complete_runs_same_reported hs hsel h1 h2 e1 e2, Dyn.complete_runs_same_reportOf hs hsel h1 h2 e1 e2,
   fun t => Dyn.confluent_status hs h1 h2 t, Dyn.complete_runs_same_exit hs hsel h1 h2 e1 e2⟩

/-- the pair monitor (P) the driver evaluates on a serial and a parallel real run (`monC08Pair`: same report per task,
    same exit code) holds of any two complete runs of the model on ANY graph -/
theorem C08_pair_monitor_holds (inp1 inp2 : RunInput) (hsame : SameTasks inp1 inp2)
    (hcalc : ∀ t, inp1.calcRes t = inp2.calcRes t) (hcalcF : ∀ t, inp1.calcResFail t = inp2.calcResFail t)
    (hsel : ∀ t, t ∈ inp1.sel ↔ t ∈ inp2.sel) (s1 s2 : Sys)
    (h1 : Reach inp1 s1 ∨ PReach inp1 s1) (h2 : Reach inp2 s2 ∨ PReach inp2 s2)
    (e1 : s1.rpc = .halted ∧ s1.halt = .none ∧ s1.stop = false)
    (e2 : s2.rpc = .halted ∧ s2.halt = .none ∧ s2.stop = false) (nTasks : Nat) :
    monC08Pair nTasks (trace inp1 s1) (trace inp2 s2) (exitCode s1) (exitCode s2) = true := by
  obtain ⟨_, hrep, _, hexit⟩ := C08_confluence inp1 inp2 hsame hcalc hcalcF hsel s1 s2 h1 h2 e1 e2
  unfold monC08Pair
  simp only [Bool.and_eq_true, List.all_eq_true, List.mem_range, beq_iff_eq]
  exact ⟨fun t _ => hrep t, hexit⟩

/-- confluence, state-wise, any graph: any two reachable states (complete or not) of any two of the transition systems
    over the same task table agree on every task finished in both and on every task reported in both -/
theorem C08_confluence_status_dyn (inp1 inp2 : RunInput) (hsame : SameTasks inp1 inp2)
    (hcalc : ∀ t, inp1.calcRes t = inp2.calcRes t) (hcalcF : ∀ t, inp1.calcResFail t = inp2.calcResFail t)
    (s1 s2 : Sys)
    (h1 : Reach inp1 s1 ∨ PReach inp1 s1) (h2 : Reach inp2 s2 ∨ PReach inp2 s2) (t : Name) :
    ((stOf s1 t).finished = true → (stOf s2 t).finished = true → stOf s1 t = stOf s2 t) ∧
    (∀ d1 d2, (∃ e ∈ s1.events, Ev.den? t e = some d1) → (∃ e ∈ s2.events, Ev.den? t e = some d2) → d1 = d2) :=
  ⟨Dyn.confluent_status ⟨hsame, funext hcalc, funext hcalcF⟩ h1 h2 t,
   fun d1 d2 r1 r2 => Dyn.confluent_report ⟨hsame, funext hcalc, funext hcalcF⟩ h1 h2 t d1 d2 r1 r2⟩

/-- the exit code of a complete run of any graph is `exitOfDens` over the derived outcomes of the closure, however the
    closure is enumerated and the outcomes are computed -/
theorem C08_complete_exit_dyn (inp : RunInput) (s : Sys) (hr : Reach inp s ∨ PReach inp s)
    (hend : s.rpc = .halted) (hhalt : s.halt = .none) (hstop : s.stop = false)
    (L : List Name) (hL : ∀ t, t ∈ L ↔ Dyn.DenCl inp t) (den : Name → Den)
    (hden : ∀ t ∈ L, Dyn.DenOf inp t (den t)) : exitCode s = exitOfDens (L.map den) :=
  Dyn.complete_exit_is_den hr hend hhalt hstop L hL den hden

/-- the executable denotation with dynamic edges (`denFC`: bottom-up table over the tasks `< nTasks`, calc_dep sets closed
    by iteration) is sound: a determined answer IS the denotation — it is derived, and every derivation gives it.  (No
    acyclicity hypothesis; on a graph where the rounds do not suffice the answer is `bot`.) -/
theorem C08_den_computable_dyn (inp : RunInput) (nTasks : Nat) (t : Name) (h : denFC inp nTasks t ≠ .bot) :
    Dyn.DenOf inp t (denFC inp nTasks t) ∧ ∀ d, Dyn.DenOf inp t d → denFC inp nTasks t = d :=
  ⟨Dyn.denFC_sound inp nTasks t h, fun _ hd => (Dyn.denFC_sound inp nTasks t h).functional hd⟩

/-- under the decidable side condition `determinedC` (every member of the computed closure is determined and has a
    closed dependency list, the closure is closed) the computed closure is the denotational closure, and the monitor
    `monC08DenC` the driver evaluates on implementation traces of graphs WITH calc_dep (reports = `denFC`, reported set
    = `denClosureC`, exit = `denExitC`) holds of every reachable state of the model, serial or parallel -/
theorem C08_monitors_hold_dyn (inp : RunInput) (s : Sys) (hr : Reach inp s ∨ PReach inp s) (nTasks : Nat)
    (hdet : determinedC inp nTasks = true) (complete : Bool)
    (hc : complete = true → s.rpc = .halted ∧ s.halt = .none ∧ s.stop = false) :
    (∀ t, t ∈ denClosureC inp nTasks ↔ Dyn.DenCl inp t) ∧
    monC08DenC inp nTasks (trace inp s) (exitCode s) complete = true :=
  ⟨Dyn.denClosureC_spec hdet, Dyn.C08_monitor_denC hr nTasks hdet complete hc⟩

/-- non-vacuity: `Dyn.exC08calc` (twice-delivered dependencies) is determined, its closure is all six tasks, task `1`
    is `unmet` because the delivered task_dep `2` fails, the exit code is ERROR — and the monitor theorem applies to
    its complete run with two worker threads -/
example : determinedC Dyn.exC08calc 6 = true ∧ denClosureC Dyn.exC08calc 6 = [1, 3, 0, 4, 2, 5] ∧
    denFC Dyn.exC08calc 6 1 = .fail .unmet ∧ denFC Dyn.exC08calc 6 5 = .ok ∧ denExitC Dyn.exC08calc 6 = 2 ∧
    ∃ s, PReach Dyn.exC08calc s ∧ monC08DenC Dyn.exC08calc 6 (trace Dyn.exC08calc s) (exitCode s) true = true :=
  ⟨by decide +kernel, by decide +kernel, by decide +kernel, by decide +kernel, by decide +kernel,
   _, autoRun_preach (by decide) false true 800 _ PReach.init,
   (C08_monitors_hold_dyn _ _ (Or.inr (autoRun_preach (by decide) false true 800 _ PReach.init)) 6 (by decide +kernel)
     true (fun _ => ⟨by decide +kernel, by decide +kernel, by decide +kernel⟩)).2⟩

/-- non-vacuity of the failed-delivery clause (`delivOf`, `calcResFail`): in `Dyn.exC08fail` the calc task `0` fails
    during its execution after having returned `task_dep: [2]`, `calc_dep: [3]`.  The denotation lets it deliver them
    (closure `[1, 0, 3, 2]`, `2` and `3` executed, `1` unmet), the complete run with two worker threads does report
    `2` and `3` as executed, and the monitor theorem applies to it. -/
example : determinedC Dyn.exC08fail 4 = true ∧ denClosureC Dyn.exC08fail 4 = [1, 0, 3, 2] ∧
    denFC Dyn.exC08fail 4 0 = .fail .failed ∧ denFC Dyn.exC08fail 4 1 = .fail .unmet ∧
    denFC Dyn.exC08fail 4 2 = .ok ∧ denFC Dyn.exC08fail 4 3 = .ok ∧
    ∃ s, PReach Dyn.exC08fail s ∧ (s.rpc = .halted ∧ s.halt = .none ∧ s.stop = false) ∧
      Ev.success 2 ∈ s.events ∧ Ev.success 3 ∈ s.events ∧ Ev.failure 1 .unmet ∈ s.events ∧
      monC08DenC Dyn.exC08fail 4 (trace Dyn.exC08fail s) (exitCode s) true = true :=
  ⟨by decide +kernel, by decide +kernel, by decide +kernel, by decide +kernel, by decide +kernel, by decide +kernel,
   _, autoRun_preach (by decide) false true 800 _ PReach.init,
   ⟨by decide +kernel, by decide +kernel, by decide +kernel⟩, by decide +kernel, by decide +kernel, by decide +kernel,
   (C08_monitors_hold_dyn _ _ (Or.inr (autoRun_preach (by decide) false true 800 _ PReach.init)) 4 (by decide +kernel)
     true (fun _ => ⟨by decide +kernel, by decide +kernel, by decide +kernel⟩)).2⟩

/-- non-vacuity of `C08_confluence` on the failed-delivery clause: `Dyn.exC08fail` has a complete serial run and a
    complete run with two worker threads; both execute the tasks `2` and `3` the failed calc task `0` returned before
    failing, both report `0` as failed and `1` as unmet -/
example : ∃ s1 s2, Reach { Dyn.exC08fail with runner := .serial, numProc := 0 } s1 ∧ PReach Dyn.exC08fail s2 ∧
    (s1.rpc = .halted ∧ s1.halt = .none ∧ s1.stop = false) ∧ (s2.rpc = .halted ∧ s2.halt = .none ∧ s2.stop = false) ∧
    Ev.success 2 ∈ s1.events ∧ Ev.success 3 ∈ s1.events ∧ Ev.failure 0 .failed ∈ s1.events ∧
    Ev.failure 1 .unmet ∈ s1.events ∧ Ev.success 2 ∈ s2.events ∧ exitCode s1 = exitCode s2 :=
  ⟨_, _, autoRun_reach (by decide) false false 800 _ Reach.init, autoRun_preach (by decide) false true 800 _ PReach.init,
   by decide +kernel, by decide +kernel, by decide +kernel, by decide +kernel, by decide +kernel, by decide +kernel,
   by decide +kernel, by decide +kernel⟩

/-- non-vacuity of `C08_confluence` on dynamic edges: `Dyn.exC08calc` has a complete run with two worker threads and a
    complete serial run; in the parallel run the twice-delivered `5` is executed, `1` is reported `unmet` because the
    delivered task_dep `2` failed, and the exit code is ERROR -/
example : ∃ s1 s2, Reach { Dyn.exC08calc with runner := .serial, numProc := 0 } s1 ∧ PReach Dyn.exC08calc s2 ∧
    (s1.rpc = .halted ∧ s1.halt = .none ∧ s1.stop = false) ∧ (s2.rpc = .halted ∧ s2.halt = .none ∧ s2.stop = false) ∧
    Ev.success 5 ∈ s2.events ∧ Ev.failure 1 .unmet ∈ s2.events ∧ Ev.failure 1 .unmet ∈ s1.events ∧ exitCode s2 = 2 :=
  ⟨_, _, autoRun_reach (by decide) false false 800 _ Reach.init, autoRun_preach (by decide) false true 800 _ PReach.init,
   by decide +kernel, by decide +kernel, by decide +kernel, by decide +kernel, by decide +kernel, by decide +kernel⟩

/-- the monitors the driver evaluates on implementation traces hold of the model's own traces: `monC08Den` (reports =
    `denF`, reported set = `denClosure`, exit = `denExit`) for every reachable state of an acyclic calc-free input, and
    `monC08Pair` for any two complete runs -/
theorem C08_monitors_hold (inp : RunInput) (rank : Name → Nat) (hnc : NoCalc inp) (hac : Acyclic inp rank) (s : Sys)
    (hr : Reach inp s ∨ PReach inp s) (nTasks : Nat) (hb : ∀ t, rank t ≤ nTasks) (hlt : ∀ t, DenCl inp t → t < nTasks)
    (complete : Bool) (hc : complete = true → s.rpc = .halted ∧ s.halt = .none ∧ s.stop = false) :
    monC08Den inp nTasks (trace inp s) (exitCode s) complete = true :=
  DynS.C08_monitor_den' hnc hac hr nTasks hb hlt complete hc

/-- non-vacuity: `exC08` (task 1 has the failing setup-task 0 and is reported `unmet` at its second pass; `--continue`)
    has a complete run with two worker threads and a complete serial run, so the hypotheses of
    `C08_confluence_partial` are met by a real pair of runs, and their common exit code is ERROR -/
example : ∃ s1 s2, Reach { exC08 with runner := .serial, numProc := 0 } s1 ∧ PReach exC08 s2 ∧
    (s1.rpc = .halted ∧ s1.halt = .none ∧ s1.stop = false) ∧ (s2.rpc = .halted ∧ s2.halt = .none ∧ s2.stop = false) ∧
    exitCode s2 = 2 :=
  ⟨_, _, autoRun_reach (by decide) false false 600 _ Reach.init, autoRun_preach (by decide) false true 600 _ PReach.init,
   by decide +kernel, by decide +kernel, by decide +kernel⟩

end DoitModel.C08
