import DoitModel.Proofs.RunPar
import DoitModel.Model.RunTeardown
/-! # C11 — setup-tasks are lazy; teardowns run once, in reverse order

Property theorems only.  Base model: `Model/Run.lean` (dispatcher + the three runners); teardown bookkeeping of every
executing entity: `Model/RunTeardown.lean` (`TSys`, `tstep`, `TReach`).  Helper lemmas: `Proofs/C11*.lean`,
`Proofs/Run*.lean`.  Quantification: every task table, selection, oracle (status / ignore / outcome / failing
teardowns), flag, set-iteration order, worker interleaving, every reachable state. -/
namespace DoitModel.C11
open DoitModel.Run

/-- a setup-task completes before the task that requires it starts: whatever precedes `start t` in the trace contains
    `add_success d` or `skip_uptodate d` for every `d ∈ setup t` (serial runner) -/
theorem C11_setup_before_parent_serial (inp : RunInput) (s : Sys) (hr : Reach inp s) (pre post : List Ev) (t w : Nat)
    (he : s.events = pre ++ Ev.start t w :: post) :
    ∀ d ∈ inp.setup t, Ev.success d ∈ post ∨ Ev.skipUtd d ∈ post :=
  fun d hd => start_after_deps (reach_inv2 hr) he d (by simp [staticDeps, hd])

/-- the same for the thread / process runners, every worker interleaving -/
theorem C11_setup_before_parent_parallel (inp : RunInput) (s : Sys) (hr : PReach inp s) (pre post : List Ev) (t w : Nat)
    (he : s.events = pre ++ Ev.start t w :: post) :
    ∀ d ∈ inp.setup t, Ev.success d ∈ post ∨ Ev.skipUtd d ∈ post :=
  fun d hd => start_after_deps (preach_inv hr).1 he d (by simp [staticDeps, hd])

end DoitModel.C11
