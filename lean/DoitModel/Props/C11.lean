import DoitModel.Proofs.C11Final
import DoitModel.Proofs.C11LazyMon
/-! # C11 — setup-tasks are lazy; teardowns run once, in reverse order

Property theorems only.  Base model: `Model/Run.lean` (dispatcher + the three runners); teardown bookkeeping of every
executing entity: `Model/RunTeardown.lean` (`TSys`, `tstep`, `TReach`; `Variant` `{}` = /repo HEAD, the switches select the pinned behaviours).  Helper lemmas:
`Proofs/C11*.lean`, `Proofs/Run*.lean`.  Quantification: every task table, selection, oracle (status / ignore / outcome /
failing teardowns), flag, set-iteration order, worker interleaving, every reachable state (every prefix of every run).
`events` / `log` are newest first; `.reverse` is chronological. -/
namespace DoitModel.C11
open DoitModel.Run

/-! ## laziness -/

/-- The dispatcher is inside the setup stage of a task `n` — scheduling its setup-tasks one by one
    (`setupIter`: the only place where a node is created through a setup edge, `genStep` at `yield self._gen_node(node,
    setup_task)`), having registered them (`afterSetup`), about to re-send `n` (`self2`) — only while `run_status n`
    is `'run'`: never for a task found up-to-date (`utd`), ignored (`ign`), unmet / failed (`fail`) or not yet
    selected (`none`).  Serial runner. -/
theorem C11_lazy_serial (inp : RunInput) (s : Sys) (hr : Reach inp s) (n : Name) (nd : Node)
    (hn : s.nodes n = some nd) (hpc : (∃ ds, nd.pc = .setupIter ds) ∨ nd.pc = .afterSetup ∨ nd.pc = .self2) :
    nd.status = .run := by
  refine reach_lazy hr n nd hn ?_
  rcases hpc with ⟨ds, e⟩ | e | e <;> (rw [e]; rfl)

/-- the same for the thread / process runners, every worker interleaving -/
theorem C11_lazy_parallel (inp : RunInput) (s : Sys) (hr : PReach inp s) (n : Name) (nd : Node)
    (hn : s.nodes n = some nd) (hpc : (∃ ds, nd.pc = .setupIter ds) ∨ nd.pc = .afterSetup ∨ nd.pc = .self2) :
    nd.status = .run := by
  refine preach_lazy hr n nd hn ?_
  rcases hpc with ⟨ds, e⟩ | e | e <;> (rw [e]; rfl)

/-- in particular at the moment a node is created through a setup edge: the dispatcher's current node `n` is at
    `for setup_task in this_task.setup_tasks: yield self._gen_node(node, setup_task)` with `d` next — then `n` is
    `'run'`, so `d` is not scheduled on behalf of an up-to-date, ignored or unmet task -/
theorem C11_lazy_creation (inp : RunInput) (s : Sys) (hr : Reach inp s ∨ PReach inp s) (n d : Name) (ds : List Name)
    (nd : Node) (_hc : s.cur = some n) (hn : s.nodes n = some nd) (hpc : nd.pc = .setupIter (d :: ds)) :
    nd.status = .run ∧ nd.status ≠ .utd ∧ nd.status ≠ .ign ∧ nd.status ≠ .fail ∧ nd.status ≠ .none := by
  have : nd.status = .run := by
    rcases hr with hr | hr
    · exact C11_lazy_serial inp s hr n nd hn (Or.inl ⟨_, hpc⟩)
    · exact C11_lazy_parallel inp s hr n nd hn (Or.inl ⟨_, hpc⟩)
  rw [this]; simp

/-- a setup-task completes before the task that requires it starts: whatever precedes `start t` in the trace contains
    `add_success d` or `skip_uptodate d` for every `d ∈ setup t` (serial runner) -/
theorem C11_setup_before_parent_serial (inp : RunInput) (s : Sys) (hr : Reach inp s) (pre post : List Ev) (t w : Nat)
    (he : s.events = pre ++ Ev.start t w :: post) :
    ∀ d ∈ inp.setup t, Ev.success d ∈ post ∨ Ev.skipUtd d ∈ post :=
  fun d hd => start_after_deps (reach_inv2 hr) he d (by simp [staticDeps, hd])

/-- the same for the thread / process runners, every worker interleaving -/
theorem C11_setup_before_parent_parallel (inp : RunInput) (s : Sys) (hr : PReach inp s) (pre post : List Ev) (t w : Nat)
    (he : s.events = pre ++ Ev.start t w :: post) :
    ∀ d ∈ inp.setup t, Ev.success d ∈ post ∨ Ev.skipUtd d ∈ post :=
  fun d hd => start_after_deps (preach_inv hr).1 he d (by simp [staticDeps, hd])

/-- The trace form of laziness exactly as the driver evaluates it on every implementation trace (`monLazy`: every
    task that is touched is selected, a task_dep / calc_dep / delivered dep of a justified task, or a setup-task of a
    justified task that was chosen for execution and still pending when the setup-task was first touched), for EVERY
    value of the fuel / range parameter `nTasks`.  FALSE as written: `nTasks` is also the fuel of the two closure
    iterations of the monitor, and a fuel smaller than the number of tasks does not reach the end of a long dependency
    chain (`C11_lazy_monitor_full_counterexample`) — an artefact of the monitor's parameter, not of doit: the harness
    always passes the number of tasks, and the real doit gives the same verdicts on that input
    (corpus/C11/chain-4-monitor-fuel.json: `n = 4` true, `n = 1` false on the trace of the real run). -/
def C11_lazy_monitor_full : Prop :=
  ∀ (inp : RunInput) (s : Sys), (Reach inp s ∨ PReach inp s) → ∀ nTasks, monLazy inp nTasks (trace inp s) = true

/-- a chain `3 → 2 → 1 → 0` of task_deps, `3` selected -/
def exChain : RunInput :=
  { taskDep := fun n => if n = 0 ∨ n > 3 then [] else [n - 1], calcDep := fun _ => [], setup := fun _ => [], sel := [3] }

/-- with `nTasks = 1` the monitor looks at task `0` only and gives the closure 2 rounds: `[3] → [3,2] → [3,2,1]`;
    task `0`, which is executed, is not reached -/
theorem C11_lazy_monitor_full_counterexample : ¬ C11_lazy_monitor_full := by
  intro h
  have hr : Reach exChain (autoRun exChain false false 400 (init exChain)).1 :=
    autoRun_reach (by decide) false false 400 _ Reach.init
  have h1 := h exChain _ (Or.inl hr) 1
  have h2 : monLazy exChain 1 (trace exChain (autoRun exChain false false 400 (init exChain)).1) = false := by
    decide +kernel
  rw [h2] at h1; cases h1

/-- C11 (laziness) in the form of the monitor, at full strength for every parameter the monitor is ever used with:
    when every task name of the input is below `nTasks` (`Bounded`, decidable; the harness passes the number of
    tasks; it also asks that a task without actions — whose start is not observable — delivers nothing "after a
    failed execution"), `monLazy` holds on the observable trace of every reachable state of the serial and of the parallel
    systems — every graph (cyclic ones included), every oracle, every set-iteration order and interleaving.  So no
    task is touched unless it is selected, a (static or delivered) task_dep / calc_dep of a justified task, or a
    setup-task of a justified task that had been chosen for execution (`get_status` reported, no terminal report,
    not ignored, status `run`, all first-stage dependencies finished) when the setup-task was first touched. -/
theorem C11_lazy_monitor (inp : RunInput) (s : Sys) (hr : Reach inp s ∨ PReach inp s) (nTasks : Nat)
    (hb : Bounded inp nTasks) : monLazy inp nTasks (trace inp s) = true := by
  by_cases hser : inp.runner = .serial
  · rcases hr with hr | hr
    · exact monLazy_of_lm hb.p (reach_ctx hser hr) (reach_lm hb.p hser hr)
    · rw [preach_mismatch hser hr]; exact monLazy_init inp nTasks
  · rcases hr with hr | hr
    · rw [reach_mismatch hser hr]; exact monLazy_init inp nTasks
    · exact monLazy_of_lm hb.p (preach_ctx hser hr) (preach_lm hb.p hser hr)

/-- the hypothesis is met by the chain with the right parameter, and there the monitor says yes on the same run -/
example : Bounded exChain 4 ∧
    monLazy exChain 4 (trace exChain (autoRun exChain false false 400 (init exChain)).1) = true :=
  ⟨by decide, C11_lazy_monitor exChain _ (Or.inl (autoRun_reach (by decide) false false 400 _ Reach.init)) 4 (by decide)⟩

/-- `1` has the calc_dep `0`, whose execution fails after it returned `task_dep: [2]`; `--continue` -/
def exFailDeliver : RunInput :=
  { taskDep := fun _ => [], calcDep := fun n => if n = 1 then [0] else [], setup := fun _ => [], sel := [1]
    continue_ := true, outcome := fun n => if n = 0 then .failed else .ok
    calcResFail := fun n => if n = 0 then { tasks := [2] } else {} }

/-- deliveries of a failed calc task are covered: `2` is delivered by the failed `0`, it is touched (and executed), and
    the monitor — whose closure follows `RunMon.resAt` — accepts the run; the hypothesis `Bounded` holds -/
example : Bounded exFailDeliver 3 ∧
    (trace exFailDeliver (autoRun exFailDeliver false false 400 (init exFailDeliver)).1).contains (Ev.success 2) = true ∧
    monLazy exFailDeliver 3 (trace exFailDeliver (autoRun exFailDeliver false false 400 (init exFailDeliver)).1) = true :=
  ⟨by decide, by decide +kernel,
    C11_lazy_monitor exFailDeliver _ (Or.inl (autoRun_reach (by decide) false false 400 _ Reach.init)) 3 (by decide)⟩

/-- task `1` is up-to-date and has the setup-task `0` -/
def exUtdParent : RunInput :=
  { taskDep := fun _ => [], calcDep := fun _ => []
    setup := fun n => if n = 1 then [0] else []
    sel := [1], statusOf := fun _ => .utd }

/-- the monitor is not trivially true: a trace that touches the setup-task `0` of an up-to-date task `1` is rejected -/
example : monLazy exUtdParent 2 [Ev.getStatus 1, Ev.skipUtd 1, Ev.getStatus 0] = false := by
  decide

/-! ## teardown: the shared list (serial runner, thread runner) -/

/-- At the end of every run that reaches `finish()` — normally or stopped by a task failure; for the thread runner:
    without an internal error of the dispatcher — the teardown executions are, in chronological order, exactly
    `Runner.teardown` over the tasks with teardown in the order their actions started: reverse start order, every such
    task exactly once, and a failing teardown (followed by its `cleanup_error` report) does not remove the later ones. -/
theorem C11_teardown_shared (inp : RunInput) (tdFail : Name → Bool) (ts : TSys) (hr : TReach inp tdFail {} ts)
    (hnp : inp.runner ≠ .process) (hend : ts.base.rpc = .halted) (hok : inp.runner = .serial ∨ ts.base.halt = .none) :
    ts.log.reverse = teardownRun tdFail none (startOrder inp ts.base.events) := by
  have h := treach_tdS hnp rfl hr
  rw [h.post hend hok, List.reverse_reverse, h.b.shared hnp]

/-- nothing is torn down before the end of the run: while the runner has not finished, no teardown was executed -/
theorem C11_teardown_not_before_end (inp : RunInput) (tdFail : Name → Bool) (ts : TSys) (hr : TReach inp tdFail {} ts)
    (hnp : inp.runner ≠ .process) (hrun : ts.base.rpc ≠ .halted) : ts.log = [] :=
  (treach_tdS hnp rfl hr).pre hrun

/-- and nothing happens after it: a run that ended (without an internal error under the thread runner) has no
    further step — all worker threads have left, no action starts after the teardowns -/
theorem C11_teardown_end_is_final (inp : RunInput) (tdFail : Name → Bool) (ts : TSys) (hr : TReach inp tdFail {} ts)
    (hend : ts.base.rpc = .halted) (hok : inp.runner = .serial ∨ ts.base.halt = .none) (c : Choice) :
    tstep inp tdFail {} ts c = none := by
  have hB : TdB inp ts.base := by
    by_cases hser : inp.runner = .serial
    · exact reach_tdB hser ((treach_base hr).1 hser)
    · exact preach_tdB hser ((treach_base hr).2 hser)
  have : stepOf inp ts.base c = none := by
    unfold stepOf
    by_cases hser : inp.runner = .serial
    · rw [if_pos hser]; cases c <;> simp [step, serialStep, hend]
    · rw [if_neg hser]
      have hh : ts.base.halt = .none := by
        rcases hok with a | a
        · exact absurd a hser
        · exact a
      have q := hB.quiet (Or.inr hend) hh
      cases c with
      | main p => simp [pstep, mainStep, hend]
      | take w =>
        simp only [pstep, takeStep]
        rcases q w with a | a <;> simp [a]
      | done w =>
        simp only [pstep, doneStep]
        rcases q w with a | a <;> simp [a]
  simp [tstep, this]

/-- each exactly once: the number of teardown executions of task `n` is the number of starts of its actions if it has
    teardown actions (0 otherwise) — which is at most one (`C02_at_most_once`) -/
theorem C11_teardown_once_shared (inp : RunInput) (tdFail : Name → Bool) (ts : TSys) (hr : TReach inp tdFail {} ts)
    (hnp : inp.runner ≠ .process) (hend : ts.base.rpc = .halted) (hok : inp.runner = .serial ∨ ts.base.halt = .none)
    (n : Name) :
    ts.log.count (TdEv.run n none) = (if inp.hasTeardown n then ts.base.events.countP (Ev.isStartOf n) else 0) ∧
    ts.log.count (TdEv.run n none) ≤ 1 := by
  have e := C11_teardown_shared inp tdFail ts hr hnp hend hok
  have c1 : ts.log.count (TdEv.run n none) = (startOrder inp ts.base.events).count n := by
    rw [← List.count_reverse, e, count_run_teardownRun]
  have c2 := count_startOrder inp n ts.base.events
  have c3 : ts.base.events.countP (Ev.isStartOf n) ≤ 1 := by
    by_cases hser : inp.runner = .serial
    · have h3 := reach_inv3 ((treach_base hr).1 hser)
      have := h3.j n; have := (h3.p0 n).1; unfold cStart at *; omega
    · have h3 := (preach_inv ((treach_base hr).2 hser)).2
      have := h3.j n; have := (h3.p0 n).1; unfold cStart at *; omega
  refine ⟨c1.trans c2, ?_⟩
  rw [c1, c2]; split <;> omega

/-- the monitor the driver evaluates on the implementation's observations holds of the model's own observations -/
theorem C11_teardown_monitor_shared (inp : RunInput) (tdFail : Name → Bool) (ts : TSys) (hr : TReach inp tdFail {} ts)
    (hnp : inp.runner ≠ .process) (hend : ts.base.rpc = .halted) (hok : inp.runner = .serial ∨ ts.base.halt = .none)
    (k : Nat) : monTdExact inp tdFail k ts.base.events.reverse ts.log.reverse = true := by
  have e := C11_teardown_shared inp tdFail ts hr hnp hend hok
  unfold monTdExact
  rw [if_neg hnp, List.reverse_reverse, e]
  have : ∀ l : List TdEv, (∀ x ∈ l, x.entity = none) → l.map TdEv.anon = l := by
    intro l hl
    induction l with
    | nil => rfl
    | cons x t ih =>
      have hx := hl x (List.mem_cons_self ..)
      rw [List.map_cons, ih (fun y hy => hl y (List.mem_cons_of_mem _ hy))]
      cases x <;> (simp only [TdEv.entity] at hx; subst hx; rfl)
  rw [this _ (entity_teardownRun tdFail none _)]
  simp

/-! ## teardown: the process runner (`-n k`, one teardown list per worker process) -/

/-- What the code does, for every variant: when worker process `w` has exited, its teardown executions are exactly
    `self.teardown()` of that worker (`workerTeardown`) over the tasks with teardown whose actions started **on `w`**,
    in start order; a worker that has not exited has executed no teardown, and the main process executes none. -/
theorem C11_teardown_process_exact (inp : RunInput) (tdFail : Name → Bool) (v : Variant) (ts : TSys)
    (hr : TReach inp tdFail v ts) (hp : inp.runner = .process) (w : Nat) :
    (ts.base.workers w = .exited →
      (logOf (some w) ts.log).reverse = workerTeardown v tdFail w (startOrderOf inp w ts.base.events)) ∧
    (ts.base.workers w ≠ .exited → logOf (some w) ts.log = []) ∧ logOf none ts.log = [] := by
  have h := treach_tdP hp hr
  refine ⟨fun x => ?_, fun x => ?_, h.logM⟩
  · rw [h.logW w, if_pos x, List.reverse_reverse, h.own w]
  · rw [h.logW w, if_neg x]

/-- a run that ends without an internal error has let every started worker process exit (so the statements about
    exited workers speak about all of them); only on the pinned tree does the main process die of a teardown, exactly
    when some worker's loop hit a failing one -/
theorem C11_teardown_process_all_exited (inp : RunInput) (tdFail : Name → Bool) (v : Variant) (ts : TSys)
    (hr : TReach inp tdFail v ts) (hp : inp.runner = .process) (hend : ts.base.rpc = .halted)
    (hok : ts.base.halt = .none) (w : Nat) :
    (ts.base.workers w = .exited ∨ (ts.base.workers w = .notStarted ∧ startOrderOf inp w ts.base.events = [])) ∧
    (ts.crashed = true ↔ (v.pinnedProcess = true ∧
      ∃ k, ts.base.workers k = .exited ∧ (startOrderOf inp k ts.base.events).any tdFail = true)) := by
  have h := treach_tdP hp hr
  constructor
  · rcases h.b.quiet (Or.inr hend) hok w with a | a
    · exact Or.inl a
    · exact Or.inr ⟨a, by rw [← h.own w]; exact h.ns w a⟩
  · rw [h.crash]
    constructor
    · rintro ⟨a, k, b, c⟩; exact ⟨a, k, b, by rw [← h.own k]; exact c⟩
    · rintro ⟨a, k, b, c⟩; exact ⟨a, k, b, by rw [h.own k]; exact c⟩

/-- C11 (teardown) for the process runner at full strength, stated for a variant of the code -/
def TeardownProcessHolds (v : Variant) : Prop :=
  ∀ (inp : RunInput) (tdFail : Name → Bool) (ts : TSys), TReach inp tdFail v ts → inp.runner = .process →
    ∀ w, ts.base.workers w = .exited →
      (logOf (some w) ts.log).reverse = teardownRun tdFail (some w) (startOrderOf inp w ts.base.events)

/-- C11 (teardown) for the process runner, /repo HEAD: when worker process `w` has exited, its teardown executions
    are, in chronological order, exactly `Runner.teardown` over the tasks with teardown whose actions started on `w`:
    reverse start order, each exactly once, a failing teardown is followed by its error report and does not remove the
    later ones; and the run does not die of it.  (True since "fix: teardown failure on a sub-process is reported instead
    of crashing the run"; before, see `pinned_process_teardown_counterexample`.) -/
theorem C11_teardown_process (inp : RunInput) (tdFail : Name → Bool) (ts : TSys) (hr : TReach inp tdFail {} ts)
    (hp : inp.runner = .process) (w : Nat) (hx : ts.base.workers w = .exited) :
    (logOf (some w) ts.log).reverse = teardownRun tdFail (some w) (startOrderOf inp w ts.base.events) ∧
    ts.crashed = false := by
  refine ⟨?_, ?_⟩
  · rw [(C11_teardown_process_exact inp tdFail {} ts hr hp w).1 hx]; simp [workerTeardown]
  · have h := (treach_tdP hp hr).crash
    cases hc : ts.crashed with
    | false => rfl
    | true => have := (h.mp hc).1; cases this

theorem C11_teardown_process_holds : TeardownProcessHolds {} :=
  fun inp tdFail ts hr hp w hx => (C11_teardown_process inp tdFail ts hr hp w hx).1

/-- each exactly once, per worker: the number of teardown executions of task `n` by worker `w` is the number of
    starts of `n` on `w` if `n` has teardown actions (0 otherwise) — at most one by `C02_at_most_once_parallel` -/
theorem C11_teardown_once_process (inp : RunInput) (tdFail : Name → Bool) (ts : TSys) (hr : TReach inp tdFail {} ts)
    (hp : inp.runner = .process) (w : Nat) (hx : ts.base.workers w = .exited) (n : Name) :
    (logOf (some w) ts.log).count (TdEv.run n (some w)) = (startOrderOf inp w ts.base.events).count n := by
  rw [← List.count_reverse, (C11_teardown_process inp tdFail ts hr hp w hx).1, count_run_teardownRun]

/-- the monitor the driver evaluates on the implementation's observations holds of the model's own observations at
    the end of a run without internal error (`k` ≥ number of started workers is not needed: the others are empty) -/
theorem C11_teardown_monitor_process (inp : RunInput) (tdFail : Name → Bool) (ts : TSys) (hr : TReach inp tdFail {} ts)
    (hp : inp.runner = .process) (hend : ts.base.rpc = .halted) (hok : ts.base.halt = .none) (w : Nat) :
    logOf (some w) ts.log.reverse = teardownRun tdFail (some w) (startOrderOf inp w ts.base.events.reverse.reverse) := by
  rw [List.reverse_reverse, ← logOf_reverse]
  rcases (C11_teardown_process_all_exited inp tdFail {} ts hr hp hend hok w).1 with hx | ⟨hn, he⟩
  · exact (C11_teardown_process inp tdFail ts hr hp w hx).1
  · have hnx : ts.base.workers w ≠ .exited := by rw [hn]; simp
    rw [(C11_teardown_process_exact inp tdFail {} ts hr hp w).2.1 hnx, he]; rfl

/-! ### counterexamples: the two pinned behaviours (replayed on the implementation: corpus/C11/, seeded/revert-F-C11*) -/

/-- three independent tasks with teardown, the teardown of task `1` fails; one worker process -/
def exProc : RunInput :=
  { taskDep := fun _ => [], calcDep := fun _ => [], setup := fun _ => [], sel := [0, 1, 2],
    runner := .process, numProc := 1, hasTeardown := fun _ => true }
def exFail : Name → Bool := fun n => n == 1

/-- the tree before "fix: teardown failure on a sub-process is reported instead of crashing the run" (found by this
    check): worker 0 executes 0, 1, 2, then tears down 2 and 1 — 1 fails — and never 0; the main process dies.
    Replayed on the implementation by corpus/C11/process-teardown-failure.json (seeded/revert-F-C11b). -/
theorem pinned_process_teardown_counterexample : ¬ TeardownProcessHolds { pinnedProcess := true } := by
  intro hfull
  obtain ⟨ts, hr, hp⟩ := tCheck_reach (inp := exProc) (tdFail := exFail) (v := { pinnedProcess := true })
    (cs := defaultChoices exProc false false 400)
    (p := fun ts => decide (ts.base.workers 0 = .exited) && ts.crashed &&
      ((logOf (some 0) ts.log).reverse == [TdEv.run 2 (some 0), TdEv.run 1 (some 0)]) &&
      (teardownRun exFail (some 0) (startOrderOf exProc 0 ts.base.events) ==
        [TdEv.run 2 (some 0), TdEv.run 1 (some 0), TdEv.err 1 (some 0), TdEv.run 0 (some 0)]))
    (by decide +kernel)
  simp only [Bool.and_eq_true, decide_eq_true_eq, beq_iff_eq] at hp
  obtain ⟨⟨⟨hx, _⟩, h1⟩, h2⟩ := hp
  have := hfull exProc exFail ts hr rfl 0 hx
  rw [h1, h2] at this
  cases this

/-- the same input at HEAD: all three teardowns, the error report, and the run goes on -/
example : ∃ ts, TReach exProc exFail {} ts ∧ ts.base.workers 0 = .exited ∧ ts.crashed = false ∧
    (logOf (some 0) ts.log).reverse =
      [TdEv.run 2 (some 0), TdEv.run 1 (some 0), TdEv.err 1 (some 0), TdEv.run 0 (some 0)] := by
  obtain ⟨ts, hr, hp⟩ := tCheck_reach (inp := exProc) (tdFail := exFail) (v := {})
    (cs := defaultChoices exProc false false 400)
    (p := fun ts => decide (ts.base.workers 0 = .exited) && !ts.crashed &&
      ((logOf (some 0) ts.log).reverse ==
        [TdEv.run 2 (some 0), TdEv.run 1 (some 0), TdEv.err 1 (some 0), TdEv.run 0 (some 0)]))
    (by decide +kernel)
  simp only [Bool.and_eq_true, decide_eq_true_eq, beq_iff_eq, Bool.not_eq_true'] at hp
  exact ⟨ts, hr, hp.1.1, hp.1.2, hp.2⟩

/-- two tasks with teardown, two worker threads -/
def exThread : RunInput :=
  { taskDep := fun _ => [], calcDep := fun _ => [], setup := fun _ => [], sel := [0, 1],
    runner := .thread, numProc := 2, hasTeardown := fun _ => true }

/-- the pinned tree (before "fix: thread runner executes each teardown only once"): with `k = 2` worker threads every
    teardown is executed `k + 1 = 3` times (each exiting worker and then `finish()` run the whole shared list) -/
theorem pinned_thread_counterexample :
    ∃ ts, TReach exThread (fun _ => false) { pinnedThread := true } ts ∧ ts.base.rpc = .halted ∧
      ts.base.halt = .none ∧ ts.log.count (TdEv.run 0 none) + ts.log.count (TdEv.run 0 (some 0)) +
        ts.log.count (TdEv.run 0 (some 1)) = 3 := by
  obtain ⟨ts, hr, hp⟩ := tCheck_reach (inp := exThread) (tdFail := fun _ => false) (v := { pinnedThread := true })
    (cs := defaultChoices exThread false false 400)
    (p := fun ts => decide (ts.base.rpc = .halted) && decide (ts.base.halt = .none) &&
      decide (ts.log.count (TdEv.run 0 none) + ts.log.count (TdEv.run 0 (some 0)) +
        ts.log.count (TdEv.run 0 (some 1)) = 3))
    (by decide +kernel)
  simp only [Bool.and_eq_true, decide_eq_true_eq] at hp
  exact ⟨ts, hr, hp.1.1, hp.1.2, hp.2⟩

/-! ### non-vacuity -/

/-- `2` needs the setup-task `0` (with teardown) and is selected after `1`; all three have teardowns, the one of `1`
    fails; serial runner -/
def exSerial : RunInput :=
  { taskDep := fun _ => [], calcDep := fun _ => [], setup := fun n => if n = 2 then [0] else [], sel := [1, 2],
    hasTeardown := fun _ => true }

/-- the hypotheses of `C11_teardown_shared` are met by a run that really tears down: start order 1, 0, 2, so the
    teardowns are 2, 0, 1 (with the error report of 1) -/
example : ∃ ts, TReach exSerial exFail {} ts ∧ ts.base.rpc = .halted ∧
    ts.log.reverse = [TdEv.run 2 none, TdEv.run 0 none, TdEv.run 1 none, TdEv.err 1 none] := by
  obtain ⟨ts, hr, hp⟩ := tCheck_reach (inp := exSerial) (tdFail := exFail) (v := {})
    (cs := defaultChoices exSerial false false 400)
    (p := fun ts => decide (ts.base.rpc = .halted) &&
      (ts.log.reverse == [TdEv.run 2 none, TdEv.run 0 none, TdEv.run 1 none, TdEv.err 1 none]))
    (by decide +kernel)
  simp only [Bool.and_eq_true, decide_eq_true_eq, beq_iff_eq] at hp
  exact ⟨ts, hr, hp.1, hp.2⟩

/-- the setup stage is really entered: a reachable state of the same input in which the dispatcher is about to
    create the node of the setup-task `0` on behalf of `2` -/

example : ∃ s, Reach exSerial s ∧ s.cur = some 2 ∧
    (match s.nodes 2 with | some nd => nd.pc == .setupIter [0] | none => false) = true :=
  ⟨_, autoRun_reach (by decide) false false 22 _ Reach.init, by decide +kernel⟩

/-- process runner, two workers, no failing teardown: both workers exit and each tore down its own task -/
example : ∃ ts, TReach { exThread with runner := .process } (fun _ => false) {} ts ∧
    ts.base.workers 0 = .exited ∧ ts.base.workers 1 = .exited ∧ ts.crashed = false ∧
    (logOf (some 0) ts.log).length = 1 ∧ (logOf (some 1) ts.log).length = 1 := by
  obtain ⟨ts, hr, hp⟩ := tCheck_reach (inp := { exThread with runner := .process }) (tdFail := fun _ => false) (v := {})
    (cs := defaultChoices { exThread with runner := .process } false false 400)
    (p := fun ts => decide (ts.base.workers 0 = .exited) && decide (ts.base.workers 1 = .exited) && !ts.crashed &&
      decide ((logOf (some 0) ts.log).length = 1) && decide ((logOf (some 1) ts.log).length = 1))
    (by decide +kernel)
  simp only [Bool.and_eq_true, decide_eq_true_eq, Bool.not_eq_true'] at hp
  exact ⟨ts, hr, hp.1.1.1.1, hp.1.1.1.2, hp.1.1.2, hp.1.2, hp.2⟩

end DoitModel.C11
