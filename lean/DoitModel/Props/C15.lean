import DoitModel.Proofs.DelayedWF
import DoitModel.Proofs.C15Obey3
import DoitModel.Proofs.C15Target
import DoitModel.Proofs.C15Clos
import DoitModel.Proofs.C15Redef
import DoitModel.Model.DelayedSel
import DoitModel.Proofs.DelayedX
/-! # C15 — delayed task creation happens once, after its trigger

Property theorems only (model: `Model/Delayed.lean`, `Model/DelayedSel.lean`; invariants: `Proofs/Delayed*.lean`).
Quantification: every task table (static tasks, placeholders of `create_after` creators with/without `executed`,
`creates`, `target_regex`), every creator oracle, every selection (`sel` and the placeholders `_filter_tasks` made),
every up-to-date / failure oracle, `--continue` or not, and every reachable state — i.e. every prefix of every run —
of a transition system that is exactly the serial `Runner` when `inp.serial` and otherwise over-approximates
`MRunner`/`MThreadRunner` for every `-n` (any number of tasks in flight, `generator.send(None)` at any time, any
completion order, any iteration order of `waiting_me`).

`onceOK`, `afterOK`, `obeyOK` are the decidable statements; the driver evaluates the same functions on the
implementation's trace (the monitor).  The hypotheses are decidable (`trigB`, `rxB`; `resolvesB`, `coversB` for the
pinned variant) and evaluated on every generated case.

What is proved of `created_obey` / `target` and what is left (wave 3):
* `C15_created_obey` is the full `obeyOK` statement over the dependency table of the `Task` objects the nodes hold
  (`nodeDeps`), without further hypotheses.  Over `TaskControl.tasks` (`dynDeps`) it is `C15_created_obey_tasks`
  with the decidable hypothesis `noRedefB`; the gap is real in the model and in doit (`self.tasks[nt.name] = nt` has
  no guard, a creator may re-define a task that was already executed): `created_obey_needs_noRedef`.
  `C15_created_obey_table` is the bridge (state hypothesis instead of `noRedefB`).
* `C15_target` is the structural core, `C15_started_in_closure` the "exactly" half (nothing outside the closure of
  the selection is started).  "The run does start the producer" (liveness) is not a model theorem; the monitor
  `targetOK` evaluates it on exit 0. -/
namespace DoitModel.C15
open DoitModel.Delayed
open DoitModel.Run (Name)

/-- **once** (full strength): in every reachable state of the dispatcher as it is now (`evaluated_creators`, repair
    994517d) no task-creator has been evaluated twice — whatever the creators yield, however many loader objects
    (`creates=[a,b,…]`: one copy per name) and placeholders share a creator, under every schedule and runner. -/
theorem C15_once (inp : Input) (hp : inp.pinnedOnce = false) (s : Sys) (hr : Reach inp s) :
    onceOK s.events = true :=
  (eval_reach hp hr).o

/-- the same as a count: at most one `creator c` event per creator and run -/
theorem C15_once_count (inp : Input) (hp : inp.pinnedOnce = false) (s : Sys) (hr : Reach inp s) (c : CId) :
    s.events.count (Ev.creator c) ≤ 1 :=
  onceOK_count c _ (C15_once inp hp s hr)

/-- the pinned dispatcher (and the repaired one) without relying on `evaluated_creators`: "once" holds when
    `resolvesB` (`self.tasks[to_load]` of a placeholder carries the placeholder's own loader object) and `coversB`
    (a creator with several loader objects yields a task for every name it declares).  Without `coversB` it was false
    of the pinned code: `once_needs_covers` below (finding F-C15b, fixed). -/
theorem C15_once_pinned (inp : Input) (h1 : resolvesB inp = true) (h2 : coversB inp = true) (s : Sys)
    (hr : Reach inp s) : onceOK s.events = true :=
  (once_reach (onceWF_of_bool h1 h2) hr).once

/-- **after its trigger**: whenever a creator is evaluated, every task named in `executed` of (a loader object of)
    that creator already has its terminal report (`add_success`, `add_failure`, `skip_uptodate`) in the trace.
    `trigB`: a task that carries a loader object has the creator's triggers among its task_deps
    (`Task.__init__`: `self.task_dep.append(loader.task_dep)`). -/
theorem C15_after_trigger (inp : Input) (h : trigB inp = true) (s : Sys) (hr : Reach inp s) :
    afterOK (trigOf inp) s.events = true :=
  (after_reach (trigWF_of_bool h) hr).aft

/-- a task the dispatcher hands to execution has every task_dep of the `Task` object its node holds finished
    (the bookkeeping half of `created_obey`: it holds for created tasks because the node is reset to the created
    task and re-processes all its dependencies) -/
theorem C15_loader_after_deps (inp : Input) (h : trigB inp = true) (s : Sys) (hr : Reach inp s) (n : Name) (nd : Node)
    (hn : s.nodes n = some nd) (hpc : nd.pc = .loaderPc) :
    ∀ d ∈ nd.task.deps, s.events.any (Ev.reports d) = true := by
  intro d hd
  have hi := after_reach (trigWF_of_bool h) hr
  obtain ⟨hb, _⟩ := hi.node n nd hn
  obtain ⟨hp, hw⟩ := hb.2 hpc
  rcases hb.1 d hd with h3 | h3 | h3 | h3
  · rw [hp] at h3; cases h3
  · rw [hpc] at h3; obtain ⟨⟨_, e⟩, _⟩ := h3; cases e
  · rw [hw] at h3; cases h3
  · exact hi.rep d h3

/-- **created_obey**, once-only half: every task — statically defined or registered by a creator at run time, under
    every schedule and runner — is handed to execution at most once and gets at most one terminal report; a re-set
    node (`"reset generator"`) does not make its task run again.  (`trigB` is needed only because the invariant is
    proved jointly with `C15_after_trigger`.) -/
theorem C15_created_at_most_once (inp : Input) (h : trigB inp = true) (s : Sys) (hr : Reach inp s) (t : Name) :
    s.events.count (Ev.start t) ≤ 1 ∧ s.events.countP (Ev.reports t) ≤ 1 :=
  ⟨(after_reach (trigWF_of_bool h) hr).cnt.cntS t, (after_reach (trigWF_of_bool h) hr).cnt.cntR t⟩

/-- … and nothing is reported about a task before it was selected: a terminal report of `t` in the trace means the
    status of `t` is finished (in particular a created task is not reported through its placeholder) -/
theorem C15_report_means_finished (inp : Input) (h : trigB inp = true) (s : Sys) (hr : Reach inp s) (t : Name)
    (e : Ev) (he : e ∈ s.events) (hrep : e.reports t = true) : (stOf s t).finished = true := by
  cases hf : (stOf s t).finished with
  | true => rfl
  | false =>
    have := (after_reach (trigWF_of_bool h) hr).cnt.noRep t hf e he
    rw [this] at hrep; cases hrep

/-- the dynamic dependency table of a state: task_deps of the `Task` object currently registered under a name -/
def dynDeps (s : Sys) (t : Name) : List Name :=
  match s.tasks t with
  | some td => td.deps
  | none => []

/-- **created_obey**, ordering half and once-only half together, over the *dynamic* dependency table
    `nodeDeps s` = task_deps of the `Task` object the node of a task holds (for a task a creator registered: the
    object the creator yielded, implicit deps through targets included; for a placeholder nobody re-defined: the
    mutated placeholder): in every reachable state, under every schedule and runner, every `start t` in the trace is
    preceded by a good report (`success` / `skipUtd`) of every dependency — static or created — of the object that is
    executed, there is no second start and no second terminal report, `success`/`failure` only after the start,
    `unmet`/`skipUtd` only without one.  This is the statement the monitor evaluates (`obeyOK`).
    Proof: `Proofs/C15Obey*.lean` (`NodeG`: while a node is not marked `bad` every dependency of its task is pending,
    in the snapshot, awaited or good; a reset node re-processes all dependencies of its new task). -/
theorem C15_created_obey (inp : Input) (h : trigB inp = true) (s : Sys) (hr : Reach inp s) :
    obeyOK (nodeDeps s) inp.noAct s.events = true :=
  (obey_reach (trigWF_of_bool h) hr).core.obey

/-- the ordering half spelled out: wherever `start t` occurs in the trace, every task_dep of the object the node of
    `t` holds (it does not change after the start) has its good report *earlier* in the trace -/
theorem C15_created_start_after_deps (inp : Input) (h : trigB inp = true) (s : Sys) (hr : Reach inp s)
    (t : Name) (post pre : List Ev) (hev : s.events = post ++ Ev.start t :: pre) :
    ∀ d ∈ nodeDeps s t, Ev.success d ∈ pre ∨ Ev.skipUtd d ∈ pre :=
  obeyOK_start_split _ _ _ t post pre hev (C15_created_obey inp h s hr)

/-- **created_obey**, up-to-date rule (the model's `get_status` is the oracle `inp.utd`): a task — static or
    created — that is up-to-date is never handed to execution, and only up-to-date tasks are skipped -/
theorem C15_created_utd (inp : Input) (h : trigB inp = true) (s : Sys) (hr : Reach inp s) :
    utdOK inp.utd s.events = true :=
  (obey_reach (trigWF_of_bool h) hr).core.utd

/-- … and over the task table itself (`dynDeps s` = task_deps of `TaskControl.tasks[t]` in state `s`), in every
    state in which the table entry of every started task is still the object its node holds.  The two differ only
    when a creator re-defines the name of a task that was already handed to execution (`self.tasks[nt.name] = nt`
    has no guard); the old object ran with *its* dependencies (`C15_created_obey`), the new one is never executed
    (`C15_created_at_most_once`).  `C15_created_obey_tasks` below discharges the hypothesis from `noRedefB`. -/
theorem C15_created_obey_table (inp : Input) (h : trigB inp = true) (s : Sys) (hr : Reach inp s)
    (hsame : ∀ t, Ev.start t ∈ s.events → nodeDeps s t = dynDeps s t) :
    obeyOK (dynDeps s) inp.noAct s.events = true := by
  rw [← obeyOK_congr (nodeDeps s) (dynDeps s) inp.noAct s.events hsame]
  exact C15_created_obey inp h s hr

/-- no re-definition: under `noRedefB` (a yielded name is new or a placeholder of the same creator, yields of
    different creators are disjoint, `to_load` names a placeholder of the same creator, the dispatcher keeps
    `evaluated_creators`) a node whose `Task` object carries no loader — every task that was handed to execution —
    holds exactly `TaskControl.tasks[name]` -/
theorem C15_node_holds_table (inp : Input) (h : noRedefB inp = true) (s : Sys) (hr : Reach inp s) (n : Name)
    (nd : Node) (hn : s.nodes n = some nd) (hl : nd.task.loader = none) : s.tasks n = some nd.task :=
  (redef_reach (redefWF_of_bool h) hr).t n nd hn hl

/-- **created_obey** over the task table `TaskControl.tasks` as it is in the state (`dynDeps`): the statement the
    placeholder `C15_created_obey_full` asked for, with the decidable hypothesis `noRedefB`.  Without it the
    statement is false of the model and of doit (`created_obey_needs_noRedef` below). -/
theorem C15_created_obey_tasks (inp : Input) (h : trigB inp = true) (h2 : noRedefB inp = true) (s : Sys)
    (hr : Reach inp s) : obeyOK (dynDeps s) inp.noAct s.events = true := by
  apply C15_created_obey_table inp h s hr
  intro t ht
  obtain ⟨nd, hn, hl⟩ :=
    started_loaded (after_reach (trigWF_of_bool h) hr).cnt (obey_reach (trigWF_of_bool h) hr) t ht
  have := (redef_reach (redefWF_of_bool h2) hr).t t nd hn hl
  simp [nodeDeps, dynDeps, hn, this]

/-- **target**, structural core.  `rxB`: a task of the initial table that belongs to a regex group (a
    `_regex_target…` placeholder, or the creator's own task selected through its `target_regex`) carries a loader and
    has the command-line word among its file_deps — what `_filter_tasks` builds.  Regex matching is the oracle that
    decided which groups exist.  In every reachable state, under every schedule and runner:
    * `notFound x` is raised only while nobody has registered `x` as a target **and** the group of `x` is exhausted
      (no remaining loader could still produce it);
    * in a state that did not raise, a regex placeholder of word `x` that was reset (its loader is `DelayedLoaded`)
      has the task that owns target `x` among its task_deps — so by `C15_created_obey` the producer (and, through the
      producer's own node, its dependencies) is processed before it — or other loaders of its group are still to be
      tried.
    "Exactly" (nothing outside the closure of the selection is started) is `C15_started_in_closure` below.
    Not proved: liveness (the run does reach the producer's `start`; monitor `targetOK`). -/
theorem C15_target (inp : Input) (h : rxB inp = true) (s : Sys) (hr : Reach inp s) :
    (∀ x, s.susp = .err (.notFound x) → s.targets x = none ∧ ∃ g, inp.gtarget g = x ∧ s.gtasks g = []) ∧
    ((∀ e, s.susp ≠ .err e) → ∀ n nd g, s.nodes n = some nd → nd.task.rx = some g → nd.task.loader = none →
      (∃ o, s.targets (inp.gtarget g) = some o ∧ o ∈ nd.task.deps) ∨ s.gtasks g ≠ []) := by
  have hi := tgt_reach (rxWF_of_bool h) hr
  exact ⟨hi.nf, fun hne n nd g hn hg hl => ((hi.ok hne).node n nd g hn hg).2 hl⟩

/-- target + created_obey: when a loaded regex placeholder of word `x` is handed to execution, the task that owns
    target `x` has its good report earlier in the trace (or the group still had other loaders to try) -/
theorem C15_target_producer_first (inp : Input) (h1 : trigB inp = true) (h2 : rxB inp = true) (s : Sys)
    (hr : Reach inp s) (hne : ∀ e, s.susp ≠ .err e) (n : Name) (nd : Node) (g : GId) (hn : s.nodes n = some nd)
    (hg : nd.task.rx = some g) (hl : nd.task.loader = none) (post pre : List Ev)
    (hev : s.events = post ++ Ev.start n :: pre) :
    (∃ o, s.targets (inp.gtarget g) = some o ∧ (Ev.success o ∈ pre ∨ Ev.skipUtd o ∈ pre)) ∨ s.gtasks g ≠ [] := by
  rcases (C15_target inp h2 s hr).2 hne n nd g hn hg hl with ⟨o, ho, hod⟩ | h
  · exact Or.inl ⟨o, ho, C15_created_start_after_deps inp h1 s hr n post pre hev o (by simpa [nodeDeps, hn] using hod)⟩
  · exact Or.inr h

/-- **target**, "exactly": every task the dispatcher makes a node for — in particular every task that is handed to
    execution — is in the closure of the selection: reachable from a selected task through task_dep edges of the
    `Task` objects the nodes hold (`nodeDeps`: created tasks with their implicit deps, the reset regex placeholder
    with the producer of its word) or of the initial table (`origDeps`: a placeholder's `executed` trigger).  For a
    selection by target this is "the producer, what it depends on, and the creator's trigger — nothing else". -/
theorem C15_nodes_in_closure (inp : Input) (s : Sys) (hr : Reach inp s) (n : Name) (nd : Node)
    (hn : s.nodes n = some nd) : InClos inp s n :=
  ((clos_reach hr).node n nd hn).1

theorem C15_started_in_closure (inp : Input) (h : trigB inp = true) (s : Sys) (hr : Reach inp s) (t : Name)
    (ht : Ev.start t ∈ s.events) : InClos inp s t :=
  started_in_closure (after_reach (trigWF_of_bool h) hr).cnt (clos_reach hr) t ht

/-! ### non-vacuity: a static trigger `0`; one creator with `creates=[1, 2]` (two loader objects, `executed = 0`) that
    yields task 1 and task 2 (which depends on 1); a static task 3 depending on both placeholders, selected.  The
    nodes of BOTH placeholders exist before the creator is evaluated. -/

def exInput (covers : Bool) (pinned : Bool := false) : Input :=
  { tasks0 := [(0, { act := true, oid := 0 }), (1, { deps := [0], loader := some 0, oid := 1 }),
               (2, { deps := [0], loader := some 1, oid := 2 }), (3, { deps := [1, 2], act := true, oid := 3 })]
    targets0 := []
    creatorOf := fun _ => 0
    execOf := fun _ => some 0
    baseOf := fun _ => none
    gtarget := fun _ => 0
    gtasks0 := fun _ => []
    make := fun _ _ => if covers then [{ name := 1 }, { name := 2, deps := [1] }] else [{ name := 1 }]
    sel := [3]
    pinnedOnce := pinned }

/-- the hypotheses of the theorems hold for the example, its run ends regularly, the creator was evaluated (exactly
    once), after the trigger, and the created tasks and the selected task were executed -/
example :
    resolvesB (exInput true) = true ∧ coversB (exInput true) = true ∧ trigB (exInput true) = true ∧
    (autoRun (exInput true) 200 (init (exInput true))).susp = .stopIter ∧
    (autoRun (exInput true) 200 (init (exInput true))).events.reverse =
      [.start 0, .success 0, .creator 0, .start 1, .success 1, .start 2, .success 2, .start 3, .success 3] := by
  decide

example : Reach (exInput true) (autoRun (exInput true) 200 (init (exInput true))) :=
  autoRun_reach 200 _ Reach.init

/-- the pinned dispatcher needed `coversB`: when the creator does not yield the second name it declares, the second
    loader object (its own `created` flag) evaluated it again (finding F-C15b; `seeded/revert-F-C15b`) -/
theorem once_needs_covers :
    resolvesB (exInput false true) = true ∧ coversB (exInput false true) = false ∧
    Reach (exInput false true) (autoRun (exInput false true) 200 (init (exInput false true))) ∧
    onceOK (autoRun (exInput false true) 200 (init (exInput false true))).events = false :=
  ⟨by decide, by decide, autoRun_reach 200 _ Reach.init, by decide⟩

/-- … and the repaired one evaluates it once on the same input; the placeholder nobody re-defined runs as an empty task -/
example :
    (autoRun (exInput false) 200 (init (exInput false))).susp = .stopIter ∧
    (autoRun (exInput false) 200 (init (exInput false))).events.reverse =
      [.start 0, .success 0, .creator 0, .start 1, .success 1, .start 2, .success 2, .start 3, .success 3] := by
  decide
/-- the hypotheses of the `created_obey` theorems hold for the example above -/
example : noRedefB (exInput true) = true ∧ trigB (exInput true) = true := by decide

/-! ### `noRedefB` is needed: static tasks 3 and 4, selection `[3, 1]`; task 3 runs first, then the creator of
    placeholder 1 (trigger 0) yields a task named 3 that depends on 4.  `tasks[3]` is re-defined after task 3 was
    executed; over the task table the ordering statement is false, over the node-held objects it holds.
    Replayed on doit (dodo: static t0, t3, t4; `@create_after(executed='t0') task_t1` yielding basenames `t1` and
    `t3` with `task_dep=['t4']`; `doit run t3 t1`): the static t3 runs, then t0, the creator, t1; the re-defined t3
    and t4 never run, exit 0 — the model's trace. -/

def exRedef : Input :=
  { tasks0 := [(0, { act := true, oid := 0 }), (1, { deps := [0], loader := some 0, oid := 1 }),
               (3, { act := true, oid := 3 }), (4, { act := true, oid := 4 })]
    targets0 := []
    creatorOf := fun _ => 0
    execOf := fun _ => some 0
    baseOf := fun _ => none
    gtarget := fun _ => 0
    gtasks0 := fun _ => []
    make := fun _ _ => [{ name := 1 }, { name := 3, deps := [4] }]
    sel := [3, 1] }

theorem created_obey_needs_noRedef :
    trigB exRedef = true ∧ noRedefB exRedef = false ∧
    Reach exRedef (autoRun exRedef 200 (init exRedef)) ∧
    (autoRun exRedef 200 (init exRedef)).events.reverse =
      [.start 3, .success 3, .start 0, .success 0, .creator 0, .start 1, .success 1] ∧
    obeyOK (dynDeps (autoRun exRedef 200 (init exRedef))) exRedef.noAct (autoRun exRedef 200 (init exRedef)).events = false ∧
    obeyOK (nodeDeps (autoRun exRedef 200 (init exRedef))) exRedef.noAct (autoRun exRedef 200 (init exRedef)).events = true :=
  ⟨by decide, by decide, autoRun_reach 200 _ Reach.init, by decide, by decide, by decide⟩

/-! ### non-vacuity of the target rule: trigger `0`; task 1 = the creator's own placeholder; task 5 = the
    `_regex_target…` placeholder of word 7 (loader copy 1 with basename 1, group 0 = {1}); selection `[5]`. -/

def exRx (produce : Bool) : Input :=
  { tasks0 := [(0, { act := true, oid := 0 }), (1, { deps := [0], loader := some 0, oid := 1 }),
               (5, { deps := [0], loader := some 1, fileDep := [7], rx := some 0, isRx := true, oid := 5 }),
               (9, { act := true, oid := 9 })]
    targets0 := []
    creatorOf := fun _ => 0
    execOf := fun _ => some 0
    baseOf := fun l => if l = 1 then some 1 else none
    gtarget := fun _ => 7
    gtasks0 := fun _ => [1]
    make := fun _ _ => if produce then [{ name := 1, targets := [7] }] else [{ name := 1 }]
    sel := [5] }

/-- the creator yields the producer of word 7: the placeholder is reset with the producer among its task_deps and
    runs after it; the unselected static task 9 is not touched -/
example :
    rxB (exRx true) = true ∧ trigB (exRx true) = true ∧ noRedefB (exRx true) = true ∧
    (autoRun (exRx true) 200 (init (exRx true))).susp = .stopIter ∧
    (autoRun (exRx true) 200 (init (exRx true))).events.reverse =
      [.start 0, .success 0, .creator 0, .start 1, .success 1, .start 5, .success 5] ∧
    (((autoRun (exRx true) 200 (init (exRx true))).nodes 5).map fun nd => (nd.task.deps, nd.task.loader, nd.task.rx)) =
      some ([0, 1], none, some 0) := by
  decide

/-- nobody produces word 7 and the group is exhausted: `notFound 7` -/
example :
    rxB (exRx false) = true ∧
    (autoRun (exRx false) 200 (init (exRx false))).susp = .err (.notFound 7) ∧
    (autoRun (exRx false) 200 (init (exRx false))).events.reverse = [.start 0, .success 0, .creator 0] := by
  decide

/-! ### `_filter_tasks`: task 0 = trigger, task 1 = placeholder of a creator with a target_regex that matches word 3;
    word 2 = the sub-task name `1:x` (base 1).  Selection `1:x out_y`. -/

def exPre (skip : Bool) : Pre :=
  { tasks := [(0, { act := true, oid := 0 }), (1, { deps := [0], loader := some 0, oid := 1 })]
    targets := []
    creatorOf := fun _ => 0
    execOf := fun _ => some 0
    hasRegex := fun _ => true
    rxMatch := fun _ w => w == 3
    rxName := fun _ t => 10 + t
    skipSub := skip }

def selectedAndBase (pre : Pre) (ws : List Word) : List Name × Option Name :=
  match process pre (some ws) with
  | .inr st => (st.selected, st.baseOf 0)
  | .inl _ => ([], none)

/-- repaired (46c8565): one regex placeholder, for the creator's own task; `loader.basename` stays the creator's task -/
example : selectedAndBase (exPre true) [⟨2, 1⟩, ⟨3, 3⟩] = ([2, 11], some 1) := by decide

/-- pinned (finding F-C15a; `seeded/revert-F-C15a`): the sub-task placeholder was matched as well and
    `loader.basename` ended up naming it, so the creator's tasks were created as `1:x:<sub>` -/
theorem pinned_filter_matches_subtask_placeholder :
    selectedAndBase (exPre false) [⟨2, 1⟩, ⟨3, 3⟩] = ([2, 11, 12], some 2) := by decide

/-! ### wave 5 — created tasks with `setup` / `calc_dep` / `getargs` edges: the extended system `Model/DelayedX.lean`

`DelayedX` is the transition system above plus the calc_dep section (`node.calc_dep`, `wait_run_calc`,
`_process_calc_dep_results`: delivered task_deps are appended to the `Task` object and to `node.task_dep`), the setup
section (`yield this_task` twice, `select_task` twice, `wait_select`) and getargs (= a setup edge).  K runs through it
for every case in which a created task has one of these edges.  The theorems above are about the `task_dep`-only
system (unchanged, same names and strength); about `DelayedX` the following is proved / stated. -/

/-- **created task starts only after task_dep AND calc_dep AND setup** (statement; NOT proved): in every reachable
    state of the extended system every `start t` in the trace is preceded by a good report of every task_dep
    (what calc_deps delivered included) and every setup-task (getargs sources included) of the object the node of `t`
    holds, and by a terminal report of every calc_dep.  The driver evaluates exactly this predicate on the model run
    that accepts each implementation trace (evidence counter `X:startAfterOK-false-on-accepted-model-run`, must stay
    absent); the monitor `obeyOK` evaluates the stronger "good report of all of them" on the implementation's trace.
    Missing for a proof: the `NodeG`-style invariant of `Proofs/C15Obey*.lean` redone over `DelayedX.Node`
    (`waitCalc` next to `waitRun`, the second waiting phase between the two selections). -/
def C15X_created_start_after_all_full : Prop :=
  ∀ (inp : Input) (s : DelayedX.Sys), DelayedX.Reach inp s →
    DelayedX.startAfterOK (fun t => DelayedX.nodeDeps s t ++ DelayedX.nodeSetup s t) (DelayedX.nodeCalc s) s.events = true

/-- proved part, every runner and schedule: a step that writes `start n` is a `select_task(n)` on a node that is not
    marked `bad` (no failed / ignored task_dep, calc_dep or setup-task was seen by `parent_status`), and for a task with
    setup-tasks — a created one as well — it is the SECOND selection (`run_status == 'run'`): the first selection hands
    the node back so that `_add_task` schedules the setup-tasks (`DelayedX.selectStep`), it never starts the task. -/
theorem C15X_created_start_after_all_partial (inp : Input) (s s' : DelayedX.Sys) (c : Choice)
    (h : DelayedX.step inp s c = some s') (n : Name) (hev : s'.events = Ev.start n :: s.events) :
    s.susp = .yielded n ∧ ∃ nd, s.nodes n = some nd ∧ nd.bad = false ∧
      ((nd.task.setup = [] ∧ nd.status = .none ∧ inp.utd n = false) ∨
       (nd.task.setup ≠ [] ∧ nd.status = .run ∧ n ∉ s.running)) :=
  DelayedX.step_start_guard h n hev

/-- the dispatcher half of the extended system (`_add_task` with its calc_dep, loader and setup sections,
    `_get_next_node`, `_check_deadlock`) writes no event except a creator evaluation: setup-tasks and calc_deps are
    scheduled, never started, by it -/
theorem C15X_dispatcher_writes_only_creator (inp : Input) (s : DelayedX.Sys) :
    (DelayedX.dtick inp s).events = s.events ∨ ∃ c, (DelayedX.dtick inp s).events = Ev.creator c :: s.events :=
  DelayedX.dtick_quiet inp s

/-- non-vacuity, all three edge kinds on ONE created task: trigger 0; placeholder 1 (creator 0, `executed = 0`); the
    creator yields task 3 and task 1 with `task_dep=[7]`, `setup=[4]` + `getargs` from 3 (`setup_tasks = [4, 3]`),
    `calc_dep=[5]`; calc task 5 delivers `task_dep=[6]`. -/
def exAll : Input :=
  { tasks0 := [(0, { act := true, oid := 0 }), (1, { deps := [0], loader := some 0, oid := 1 }),
               (4, { act := true, oid := 4 }), (5, { act := true, oid := 5 }), (6, { act := true, oid := 6 }),
               (7, { act := true, oid := 7 })]
    targets0 := []
    creatorOf := fun _ => 0
    execOf := fun _ => some 0
    baseOf := fun _ => none
    gtarget := fun _ => 0
    gtasks0 := fun _ => []
    make := fun _ _ => [{ name := 3 }, { name := 1, deps := [7], setup := [4, 3], calcDep := [5] }]
    delivers := fun n => if n = 5 then [6] else []
    sel := [1] }

/-- the created task 1 starts last: after its calc_dep 5, its task_dep 7, the delivered task_dep 6 and — scheduled only
    after its first selection — its setup-tasks 4 and 3; the statement `C15X_created_start_after_all_full` holds of
    the run, over the edges the node holds at the end (`[7, 6]`, `[4, 3]`, `[5]`) -/
example :
    (DelayedX.autoRun exAll 400 (DelayedX.init exAll)).susp = .stopIter ∧
    (DelayedX.autoRun exAll 400 (DelayedX.init exAll)).events.reverse =
      [.start 0, .success 0, .creator 0, .start 5, .success 5, .start 7, .success 7, .start 6, .success 6,
       .start 4, .success 4, .start 3, .success 3, .start 1, .success 1] ∧
    (DelayedX.nodeDeps (DelayedX.autoRun exAll 400 (DelayedX.init exAll)) 1,
     DelayedX.nodeSetup (DelayedX.autoRun exAll 400 (DelayedX.init exAll)) 1,
     DelayedX.nodeCalc (DelayedX.autoRun exAll 400 (DelayedX.init exAll)) 1) = ([7, 6], [4, 3], [5]) ∧
    DelayedX.startAfterOK
      (fun t => DelayedX.nodeDeps (DelayedX.autoRun exAll 400 (DelayedX.init exAll)) t ++
                DelayedX.nodeSetup (DelayedX.autoRun exAll 400 (DelayedX.init exAll)) t)
      (DelayedX.nodeCalc (DelayedX.autoRun exAll 400 (DelayedX.init exAll)))
      (DelayedX.autoRun exAll 400 (DelayedX.init exAll)).events = true := by
  decide

example : DelayedX.Reach exAll (DelayedX.autoRun exAll 400 (DelayedX.init exAll)) :=
  DelayedX.autoRun_reach 400 _ DelayedX.Reach.init

/-- the guard theorem is not vacuous: the step that starts the created task 1 of `exAll` exists (state after 107
    default steps is `yielded 1` with `run_status = run`, i.e. its second selection) -/
example :
    ∃ k, (DelayedX.autoRun exAll k (DelayedX.init exAll)).susp = .yielded 1 ∧
      (((DelayedX.autoRun exAll k (DelayedX.init exAll)).nodes 1).map fun nd => (nd.status, nd.task.setup)) =
        some (.run, [4, 3]) := by
  refine ⟨107, ?_⟩
  decide

/-! ### repair of finding C05 `delayed-group-subtasks-run` (`TaskDispatcher.inherited_status`) in both systems

When a creator is evaluated through a placeholder node that has bad_deps (its `executed` task failed / is unmet), every
task name of the batch is remembered (`Sys.inherited`) and the node `_gen_node` makes later for such a name starts
with the mark (`mkNodeI`).  All theorems above are re-proved over the changed systems with unchanged statements. -/

/-- the trigger 0 of `exInput` fails (`--continue`); the creator is still evaluated and yields 1, 2 (depends on 7) and
    a NEW task 7 without any dependency -/
def exInherit : Input :=
  { exInput true with
    fails := fun n => n = 0
    continue_ := true
    make := fun _ _ => [{ name := 1 }, { name := 2, deps := [7] }, { name := 7 }] }

/-- the created task 7 — whose node is made after the creator ran and which depends on nothing — is reported `unmet`,
    not started: it inherited the placeholder's bad_deps (before the repair the model, like doit, ran it) -/
theorem inherited_unmet_not_started :
    Reach exInherit (autoRun exInherit 300 (init exInherit)) ∧
    (autoRun exInherit 300 (init exInherit)).susp = .stopIter ∧
    (autoRun exInherit 300 (init exInherit)).events.reverse =
      [.start 0, .failure 0, .creator 0, .unmet 1, .unmet 7, .unmet 2, .unmet 3] ∧
    (autoRun exInherit 300 (init exInherit)).inherited 7 = true :=
  ⟨autoRun_reach 300 _ Reach.init, by decide, by decide, by decide⟩

end DoitModel.C15
