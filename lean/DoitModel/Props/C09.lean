import DoitModel.Proofs.RunAcct
import DoitModel.Model.RunC09
/-! # C09 — every run terminates; dependency cycles are diagnosed, never hung on

Property theorems only (model: `Model/Run.lean`, `Model/RunC09.lean`; invariants: `Proofs/Run*.lean`, `Proofs/C09*.lean`). -/
namespace DoitModel.C09
open DoitModel.Run

/-- `a -> {b, c}`, `b -> c`, `c -> b` (tasks 0, 1, 2): the cycle is first reached from the common parent `a`, so
    neither member is an ancestor of the other -/
def exCommonParent : RunInput :=
  { taskDep := fun n => if n = 0 then [1, 2] else if n = 1 then [2] else if n = 2 then [1] else []
    calcDep := fun _ => [], setup := fun _ => [], sel := [0] }

/-- the repaired dispatcher diagnoses it (serial runner): the run ends with the cyclic-dependency error, exit code 3,
    and nothing was executed -/
theorem C09_common_parent_diagnosed :
    ∃ s, Reach exCommonParent s ∧ s.rpc = .halted ∧ s.halt = .cyclic ∧ exitCode s = 3 ∧
      s.events.all (fun e => match e with | .start _ _ => false | _ => true) = true :=
  ⟨_, autoRun_reach (by decide) false false 200 _ Reach.init, by decide +kernel, by decide +kernel,
    by decide +kernel, by decide +kernel⟩

end DoitModel.C09
