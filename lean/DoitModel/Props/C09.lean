import DoitModel.Proofs.C09TermP
/-! # C09 — every run terminates; dependency cycles are diagnosed, never hung on

Property theorems only (model: `Model/Run.lean`, `Model/RunC09.lean`; invariants: `Proofs/Run*.lean`, `Proofs/C09*.lean`).
Quantification: every task table, selection, oracle, flag, set-iteration order, worker interleaving and every reachable
state (every prefix of every run) of the serial (`Reach`) and of the parallel (`PReach`) transition system.

`Acyclic inp` : some rank function decreases along every dependency edge `Dep inp n d` — task_dep (after the M8 expansion:
implicit target->file_dep, result_dep, getargs), calc_dep, setup, and everything a (possibly delivered) calc_dep can
deliver.  The harness decides it per case by a graph search; the monitor `monC09` works on the closure graph of the run. -/
namespace DoitModel.C09
open DoitModel.Run

/-! ### no false cycle error -/

/-- the state in which `_dispatcher_generator` calls `_check_deadlock` and finds nobody out at the runner -/
def DeadlockShape (s : Sys) : Prop :=
  s.cur = none ∧ s.ready = [] ∧ s.toRun = [] ∧ s.waiting ≠ [] ∧ s.dispatched = []

/-- C09 (no false cycle, the `ancestors` test), serial runner: on an acyclic graph the test
    `task_name in parent.ancestors` of `_gen_node` never fires — whenever a step of the dispatcher raises the
    cyclic-dependency error it is `_check_deadlock` in the state `DeadlockShape`.  Proof: `ExecNode.ancestors` is a
    dependency path ending in the node (`NDep.anc`), every name handed to `_gen_node` is a dependency of the node. -/
theorem C09_no_false_cycle_ancestors_serial (inp : RunInput) (hac : Acyclic inp) (s : Sys) (hr : Reach inp s)
    (hsu : s.susp = none) (perm : List Name) (s' : Sys) (hs : dtick inp s perm = some s') (d : Name)
    (hc : s'.susp = some (.cyclic d)) : DeadlockShape s := by
  obtain ⟨rank, hrk⟩ := hac
  exact dtick_cyclic_shape hrk (reach_allN hrk hr) hsu hs d hc

/-- the same for the parallel runners (every worker interleaving, every `numProcess`) -/
theorem C09_no_false_cycle_ancestors_parallel (inp : RunInput) (hac : Acyclic inp) (s : Sys) (hr : PReach inp s)
    (hsu : s.susp = none) (perm : List Name) (s' : Sys) (hs : dtick inp s perm = some s') (d : Name)
    (hc : s'.susp = some (.cyclic d)) : DeadlockShape s := by
  obtain ⟨rank, hrk⟩ := hac
  exact dtick_cyclic_shape hrk (preach_allN hrk hr) hsu hs d hc

/-- C09 (no false cycle, `_check_deadlock`), the graph argument: on an acyclic graph, in every reachable state in
    which some node is parked in `waiting`, some parked node awaits only tasks that are NOT parked (rank descent along
    `wait_run` / `wait_run_calc`, which hold dependencies only).  So the path that `_check_deadlock` follows from a
    parked node through awaited parked nodes cannot close. -/
theorem C09_some_parked_node_awaits_unparked (inp : RunInput) (hac : Acyclic inp) (s : Sys)
    (hr : Reach inp s ∨ PReach inp s) (hw : s.waiting ≠ []) :
    ∃ w ∈ s.waiting, ∀ nd, s.nodes w = some nd → ∀ d, (d ∈ nd.waitRun ∨ d ∈ nd.waitRunCalc) → d ∉ s.waiting := by
  obtain ⟨rank, hrk⟩ := hac
  have hall : AllN inp rank s := by
    rcases hr with a | a
    · exact reach_allN hrk a
    · exact preach_allN hrk a
  apply Classical.byContradiction
  intro hne
  apply hw
  apply waiting_descent hrk hall
  intro w hwm
  have h1 : ¬ ∀ nd, s.nodes w = some nd → ∀ d, (d ∈ nd.waitRun ∨ d ∈ nd.waitRunCalc) → d ∉ s.waiting :=
    fun hx => hne ⟨w, hwm, hx⟩
  have h2 := Classical.not_forall.mp h1
  obtain ⟨nd, h3⟩ := h2
  have h4 := Classical.not_imp.mp h3
  obtain ⟨hn, h5⟩ := h4
  obtain ⟨d, h6⟩ := Classical.not_forall.mp h5
  obtain ⟨hd, h7⟩ := Classical.not_imp.mp h6
  exact ⟨nd, hn, d, hd, Classical.not_not.mp h7⟩

/-- C09 (no false cycle), serial runner, FULL: on an acyclic graph — every task table with all edge kinds and calc
    results, every selection, oracle, flag and set-iteration order — no reachable state has the dispatcher ended by the
    cyclic-dependency error, neither from the `ancestors` test nor from `_check_deadlock`, and the run never ends with
    that error.  Proof (`Proofs/C09Wait.lean`): in the state in which `_check_deadlock` would raise, every parked node
    awaits something (`InvE9.w`), what it awaits exists, is registered in `waiting_me` and unfinished (`InvE9.e`, with
    `dispatched = []`), hence itself parked (`InvD.a2`, `InvL.a4/a5`); rank descent (`waiting_descent`) empties
    `waiting`. -/
theorem C09_no_false_cycle_serial (inp : RunInput) (hser : inp.runner = .serial) (hac : Acyclic inp) (s : Sys)
    (hr : Reach inp s) : (∀ d, s.susp ≠ some (.cyclic d)) ∧ s.halt ≠ .cyclic := by
  obtain ⟨rank, hrk⟩ := hac
  exact serial_no_cyclic hser hrk hr

/-- C09 (no false cycle), parallel runners (`MRunner` / `MThreadRunner`), FULL: the same for every worker interleaving
    and every `numProcess`.  Additionally uses the flight accounting `InvF` (a task whose job is queued, held, executed
    or whose result is queued is in `dispatched`), so that in the `_check_deadlock` state nothing is in flight. -/
theorem C09_no_false_cycle_parallel (inp : RunInput) (hac : Acyclic inp) (s : Sys) (hr : PReach inp s) :
    (∀ d, s.susp ≠ some (.cyclic d)) ∧ s.halt ≠ .cyclic := by
  obtain ⟨rank, hrk⟩ := hac
  exact parallel_no_cyclic hrk hr

/-- C09, "if the closure contains no cycle, no cycle error is raised", all three runners: in no reachable state of an
    acyclic input has `run_tasks` been left by the cyclic-dependency error, so the exit code is never 3 on its account -/
theorem C09_no_false_cycle (inp : RunInput) (hac : Acyclic inp) (s : Sys)
    (hr : (inp.runner = .serial ∧ Reach inp s) ∨ PReach inp s) : s.halt ≠ .cyclic := by
  rcases hr with ⟨a, b⟩ | b
  · exact (C09_no_false_cycle_serial inp a hac s b).2
  · exact (C09_no_false_cycle_parallel inp hac s b).2

/-! ### "hold on" -/

/-- C09 (no deadlock, dispatcher side; the repair of F-C09a): the dispatcher answers `"hold on"` only while a node it
    handed to the runner has not been given back (`dispatched ≠ []`); when every remaining node waits and nothing is
    out, it raises the cyclic error instead.  Holds in every state (no hypothesis). -/
theorem C09_holdOn_needs_dispatched (inp : RunInput) (s s' : Sys) (perm : List Name) (hsu : s.susp = none)
    (hs : dtick inp s perm = some s') (hh : s'.susp = some .holdOn) : s.dispatched ≠ [] ∧ s'.dispatched = s.dispatched :=
  dtick_holdOn hsu hs hh

/-- C09 (no deadlock), parallel runners, every graph (no acyclicity hypothesis is needed after the repair), every worker
    interleaving and `numProcess`: in every reachable state in which the run goes on (no failure stopped it, no
    exception ended it) and the dispatcher's last answer was `"hold on"`, some node handed to the runner is still out —
    its job is queued or held by `get_next_job`, a worker executes it, its result waits in the result queue
    (`InFlight`), or it is just being fed back to the dispatcher.  So the run never waits with nothing executing.
    Proof: `InvC` — `dispatched` holds exactly the nodes that are at the runner (`Proofs/C09Disp.lean`). -/
theorem C09_no_deadlock_parallel (inp : RunInput) (s : Sys) (hr : PReach inp s) (hst : s.stop = false)
    (hh : s.halt = .none) (hho : s.susp = some .holdOn) :
    ∃ n, n ∈ s.dispatched ∧ (InFlight s n ∨ sentBack s = some n) :=
  parallel_holdOn_in_flight hr hst hh hho

/-- C09 (no deadlock), serial runner, every graph: the dispatcher never answers `"hold on"` at all (the runner gives
    every node back before it resumes the generator, so `dispatched` is empty whenever everything waits and
    `_check_deadlock` raises instead) — the internal `AttributeError` of `select_task("hold on")` is unreachable -/
theorem C09_no_deadlock_serial (inp : RunInput) (hser : inp.runner = .serial) (s : Sys) (hr : Reach inp s) :
    s.susp ≠ some .holdOn :=
  serial_no_holdOn hser hr

/-- accounting of `TaskDispatcher.dispatched` (both systems): a node yielded to the runner is in `dispatched`, and
    while the run goes on every member of `dispatched` is at the runner -/
theorem C09_dispatched_accounting (inp : RunInput) (s : Sys) (hr : Reach inp s ∨ PReach inp s) :
    (∀ n, s.susp = some (.node n) → n ∈ s.dispatched) ∧
    (s.stop = false → s.halt = .none → s.susp ≠ some .crash → ∀ n ∈ s.dispatched, AtRunner s n) := by
  have h : InvC s := by
    rcases hr with a | a
    · exact reach_invC a
    · exact preach_invC a
  exact ⟨h.ds, h.dc⟩

/-! ### a raised cyclic error ends the run with exit code 3 -/

/-- serial runner: once the dispatcher has raised the cyclic error, the next step of the runner leaves `run_tasks`
    with that exception (`run_all` still calls `finish()`), and the exit code of the command is 3 from then on -/
theorem C09_cyclic_ends_run_serial (inp : RunInput) (s : Sys) (d : Name) (perm : List Name)
    (h1 : s.rpc = .sWait) (h2 : s.susp = some (.cyclic d)) :
    serialStep inp s perm = some (raise s .cyclic) ∧ exitCode (raise s .cyclic) = 3 ∧
    exitCode (finishRun (raise s .cyclic)) = 3 ∧ (finishRun (raise s .cyclic)).rpc = .halted := by
  refine ⟨by simp [serialStep, h1, h2], rfl, rfl, rfl⟩

/-- parallel runners: the same inside `get_next_job`, also while the workers are being started (`ret = startLoop k`:
    the exception leaves `_run_start_processes`; commit 74b6e8a terminates the workers already started) -/
theorem C09_cyclic_ends_run_parallel (inp : RunInput) (s : Sys) (d : Name) (perm : List Name) (ret : Ret)
    (h1 : s.rpc = .gWait ret) (h2 : s.susp = some (.cyclic d)) :
    mainStep inp s perm = some (raise s .cyclic) ∧ exitCode (raise s .cyclic) = 3 ∧
    exitCode (finishRun (raise s .cyclic)) = 3 ∧ (finishRun (raise s .cyclic)).rpc = .halted := by
  refine ⟨by simp [mainStep, h1, h2], rfl, rfl, rfl⟩

/-! ### termination

`FiniteTable inp N` (Proofs/C09Term1.lean): every task name the table mentions — selection, task_dep, calc_dep, setup,
calc results — is an index below `N`.  Without it the statement is false in the model (a `RunInput` is a family of
functions on `Nat`: `taskDep n = [n + 1]` creates nodes for ever). -/

/-- C09 (terminates), dispatcher + serial runner, FULL: on a finite task table — any graph (cyclic ones included), any
    selection, oracle, flags — there is no infinite run, whatever order the `set`s are iterated in.  Proof
    (`Proofs/C09Term1-3.lean`): every transition strictly decreases the lexicographic measure
    (`L1` names without a node, `L2` Σ calc_deps still to be delivered, `lin` a weighted sum of list lengths of the
    `ExecNode`s, a rank of the generator position with a gap at each `yield this_task`, the dispatcher queues and a rank
    of the runner's program counter); `generator.send` (`_update_waiting`) never increases the dispatcher part. -/
theorem C09_terminates_serial (inp : RunInput) (hser : inp.runner = .serial) (N : Nat) (hF : FiniteTable inp N) :
    ¬ ∃ (f : Nat → Sys) (c : Nat → Choice), f 0 = init inp ∧ ∀ i, stepOf inp (f i) (c i) = some (f (i + 1)) :=
  serial_terminates hser hF

/-- the step form: every transition of the serial system from a reachable state decreases the measure -/
theorem C09_serial_step_decreases (inp : RunInput) (N : Nat) (hF : FiniteTable inp N) (s s' : Sys) (hr : Reach inp s)
    (c : Choice) (hs : step inp s c = some s') : MLt inp N s' s := by
  cases c with
  | main perm => exact serialStep_mlt hF (created_lt hF hr) (created_lt hF (Reach.next hr hs)) hs
  | take w => cases hs
  | done w => cases hs

/-- C09 (terminates), parallel runners (`MRunner` / `MThreadRunner`), FULL: on a finite task table there is no infinite
    run, for every worker interleaving at queue-operation granularity, every `numProcess`, graph, oracle and flags.
    The measure of the serial system is extended (`Proofs/C09TermP.lean`) by `U2` — tasks without a final status, which
    pays for the `free_proc + 1` calls of `get_next_job` after each processed result —, by the job / result queues and
    the executing workers, and by the loop counters of `_run_start_processes` and of the feed loop.  A `JobHold` taken
    by a worker shortens the job queue; the main thread blocked in `result_q.get()` is simply not enabled, so "no
    infinite run" also says that the workers cannot spin for ever while it waits. -/
theorem C09_terminates_parallel (inp : RunInput) (hpar : inp.runner ≠ .serial) (N : Nat) (hF : FiniteTable inp N) :
    ¬ ∃ (f : Nat → Sys) (c : Nat → Choice), f 0 = init inp ∧ ∀ i, stepOf inp (f i) (c i) = some (f (i + 1)) :=
  parallel_terminates hpar hF

/-- the step form for the parallel system -/
theorem C09_parallel_step_decreases (inp : RunInput) (N : Nat) (hF : FiniteTable inp N) (s s' : Sys)
    (hr : PReach inp s) (c : Choice) (hs : pstep inp s c = some s') : MLtP inp N s' s :=
  pstep_mltP hF hr hs

/-- C09 (terminates), all three runners: every run of the model on a finite task table is finite — there is no
    infinite sequence of enabled choices (the statement that was `def C09_terminates_full`, now a theorem; the
    hypothesis `FiniteTable` is needed, see the section header) -/
theorem C09_terminates (inp : RunInput) (N : Nat) (hF : FiniteTable inp N) :
    ¬ ∃ (f : Nat → Sys) (c : Nat → Choice), f 0 = init inp ∧ ∀ i, stepOf inp (f i) (c i) = some (f (i + 1)) := by
  by_cases h : inp.runner = .serial
  · exact C09_terminates_serial inp h N hF
  · exact C09_terminates_parallel inp h N hF

/-! ### a cycle in the closure of the selection is diagnosed (FULL)

`cycleTasks inp nTasks tr` (Model/RunC09.lean) is what the monitor computes from a trace: the members of the closure of
the selection (`closureOf`) that lie on a cycle of the closure graph `edgesAt` — task_dep, calc_dep (listed and
delivered), what finished calc_deps delivered, and the setup-tasks of the tasks whose first `select_task` pass chose
them for execution.  `BoundedCalc inp nTasks`: every calc_dep name is a task index below `nTasks`, so that the `nTasks`
rounds of the monitor's fixed-point iteration `calcsAt` suffice (`Proofs/C09Fuel.lean`; without it the statement is
false, `C09_cycle_diagnosed_fuel_counterexample`).

Proof (`Proofs/C09Ord*.lean`, `Proofs/C09Cycle.lean`): the invariant `InvT` — in every reachable state the terminal
report (`add_success` / `add_failure` / `skip_uptodate` / `skip_ignore`) of a task is younger than the terminal report
of every dependency the run has determined for it (`g1`: task_dep, calc_dep, delivered; `g2`: setup-tasks when the
first pass chose it) — makes the age of the first terminal report a rank that decreases along `edgesAt`, so a reported
task lies on no cycle.  A started task has all its `edgesAt`-successors reported (C01, `start_after_depsAt`); at a
normal end every selected task is reported (C02, `all_processed_*`).

Scope: every input, also those whose calc tasks return dependency values before their execution FAILS (`calcResFail`,
which doit delivers as well: `_process_calc_dep_results` reads `task.values` whatever the `run_status`; M1 `deliverF`).
Since wave 5 the closure graph `edgesAt` of these statements counts those deliveries too (`resAt`: the values of a calc
task that has a start event and a `failure` report), so a cycle that exists ONLY through what a failed calc task
delivered is covered (`C09_cycle_only_through_failed_delivery`, `exFailCycle`).  Proof: `InvTF` (Proofs/C09OrdF.lean)
extends the order of the terminal reports to `StageH` = `StageG` + the deliveries of failed calc_deps that were started;
at `select_task` time everything such a calc_dep returned is in the node's dynamic lists (the completeness invariant
`AllDCF` of C08, `Dyn.InvDen`) and finished, so also an `unmet` report of the receiver is younger than the reports of
what the failed calc_dep delivered. -/

/-- C09 (cycle diagnosed), serial runner, FULL: (1) a run that ends normally — `run_tasks` returned, no exception, not
    stopped by a failure — has no cycle in the closure graph of its selection; (2) in every reachable state (every
    prefix of every run) no task on a cycle of the closure graph has been started -/
theorem C09_cycle_diagnosed_serial (inp : RunInput) (s : Sys) (hr : Reach inp s) (nTasks : Nat)
    (hb : BoundedCalc inp nTasks) :
    (s.rpc = .halted → s.halt = .none → s.stop = false → cycleTasks inp nTasks (trace inp s) = []) ∧
    (∀ t ∈ cycleTasks inp nTasks (trace inp s), s.events.countP (Ev.isStartOf t) = 0) :=
  cycle_diagnosed_serial hr nTasks (calcsSat_of_bounded hb _)

/-- the same for the parallel runners: every worker interleaving, every `numProcess` -/
theorem C09_cycle_diagnosed_parallel (inp : RunInput) (s : Sys) (hr : PReach inp s) (nTasks : Nat)
    (hb : BoundedCalc inp nTasks) :
    (s.rpc = .halted → s.halt = .none → s.stop = false → cycleTasks inp nTasks (trace inp s) = []) ∧
    (∀ t ∈ cycleTasks inp nTasks (trace inp s), s.events.countP (Ev.isStartOf t) = 0) :=
  cycle_diagnosed_parallel hr nTasks (calcsSat_of_bounded hb _)

/-- C09 (cycle diagnosed), all three runners: the statement that was `def C09_cycle_diagnosed_full`, now a theorem -/
theorem C09_cycle_diagnosed (inp : RunInput) (s : Sys) (hr : Reach inp s ∨ PReach inp s) (nTasks : Nat)
    (hb : BoundedCalc inp nTasks) :
    (s.rpc = .halted → s.halt = .none → s.stop = false → cycleTasks inp nTasks (trace inp s) = []) ∧
    (∀ t ∈ cycleTasks inp nTasks (trace inp s), s.events.countP (Ev.isStartOf t) = 0) := by
  rcases hr with a | a
  · exact C09_cycle_diagnosed_serial inp s a nTasks hb
  · exact C09_cycle_diagnosed_parallel inp s a nTasks hb

/-- consequently: if the closure of the selection has a cycle and the run was not cut short by a failure, then — unless
    doit died of an internal error (`halt = crash`: an `assert` of the dispatcher / of `MRunner`; excluded for the
    `"hold on"` paths by `C09_no_deadlock_*`) — the run ended with the cyclic-dependency error and exit code 3 -/
theorem C09_cycle_exit3 (inp : RunInput) (s : Sys) (hr : Reach inp s ∨ PReach inp s) (nTasks : Nat)
    (hb : BoundedCalc inp nTasks) (hcyc : cycleTasks inp nTasks (trace inp s) ≠ []) (hend : s.rpc = .halted)
    (hstop : s.stop = false) (hnc : s.halt ≠ .crash) : s.halt = .cyclic ∧ exitCode s = 3 := by
  have h := (C09_cycle_diagnosed inp s hr nTasks hb).1 hend
  cases hh : s.halt with
  | none => exact absurd (h hh hstop) hcyc
  | cyclic => exact ⟨rfl, by simp [exitCode, hh]⟩
  | crash => exact absurd hh hnc

/-- stronger than "never started": a task on a cycle of the closure graph is never reported at all — not executed, not
    skipped as up-to-date or ignored, not reported failed/unmet (a terminal report would rank it below itself) -/
theorem C09_cycle_task_never_reported (inp : RunInput) (s : Sys) (hr : Reach inp s ∨ PReach inp s) (nTasks : Nat)
    (hb : BoundedCalc inp nTasks) (t : Name) (hc : onCycle inp nTasks (trace inp s) t = true) :
    s.events.countP (Ev.isTerminalOf t) = 0 := by
  have c : CtxC inp s := by
    rcases hr with a | a
    · exact reach_ctxC a
    · exact preach_ctxC a
  cases hf : fstTerm s.events t with
  | some a => rw [reported_not_onCycle c (calcsSat_of_bounded hb _) hf] at hc; cases hc
  | none =>
    apply List.countP_eq_zero.mpr
    intro e he
    simp [fstTerm_none_iff.mp hf e he]

/-- the order invariant behind it, all three runners, every graph: in every reachable state, every edge `t → d` of the
    closure graph out of a task that has a terminal report leads to a task whose terminal report is older -/
theorem C09_report_after_dependencies (inp : RunInput) (s : Sys) (hr : Reach inp s ∨ PReach inp s) (nTasks : Nat)
    (hb : BoundedCalc inp nTasks) (t : Name) (a : Nat) (ha : fstTerm s.events t = some a) :
    ∀ d ∈ edgesAt inp nTasks (trace inp s) t, ∃ b, fstTerm s.events d = some b ∧ b < a := by
  have c : CtxC inp s := by
    rcases hr with x | x
    · exact reach_ctxC x
    · exact preach_ctxC x
  exact edge_older c (calcsSat_of_bounded hb _) ha

/-- `halted` is final for the main thread of both systems (and a raised cyclic error reaches it in two steps,
    `C09_cyclic_ends_run_*`) -/
theorem C09_halted_final (inp : RunInput) (s : Sys) (perm : List Name) (h : s.rpc = .halted) :
    serialStep inp s perm = none ∧ mainStep inp s perm = none := by
  simp [serialStep, mainStep, h]

/-! ### instances, counterexamples for the dispatcher before the repair, non-vacuity -/

/-- `a -> {b, c}`, `b -> c`, `c -> b` (tasks 0, 1, 2): the cycle is first reached from the common parent `a`, so
    neither member is an ancestor of the other (finding F-C09a) -/
def exCommonParent : RunInput :=
  { taskDep := fun n => if n = 0 then [1, 2] else if n = 1 then [2] else if n = 2 then [1] else []
    calcDep := fun _ => [], setup := fun _ => [], sel := [0] }

/-- the repaired dispatcher diagnoses it (serial runner): the run ends with the cyclic-dependency error, exit code 3,
    and nothing was executed; the monitor accepts the model's own observables -/
theorem C09_common_parent_diagnosed :
    ∃ s, Reach exCommonParent s ∧ s.rpc = .halted ∧ s.halt = .cyclic ∧ exitCode s = 3 ∧
      s.events.all (fun e => match e with | .start _ _ => false | _ => true) = true ∧
      monC09 exCommonParent 3 (trace exCommonParent s) { exit := 3, errCyclic := true, errWait := false, hung := false } = true :=
  ⟨_, autoRun_reach (by decide) false false 200 _ Reach.init, by decide +kernel, by decide +kernel,
    by decide +kernel, by decide +kernel, by decide +kernel⟩

/-- … and with two worker threads -/
theorem C09_common_parent_diagnosed_parallel :
    ∃ s, PReach { exCommonParent with runner := .thread, numProc := 2 } s ∧ s.rpc = .halted ∧ s.halt = .cyclic ∧
      exitCode s = 3 :=
  ⟨_, autoRun_preach (by decide) false false 200 _ PReach.init, by decide +kernel, by decide +kernel,
    by decide +kernel⟩

/-- non-vacuity of `C09_cycle_diagnosed_*`: the common-parent graph satisfies `BoundedCalc`, its run reaches the end
    with a non-empty `cycleTasks` (tasks 1 and 2), the cyclic error and exit code 3 — serial and with two workers -/
theorem C09_cycle_diagnosed_nonvacuous :
    BoundedCalc exCommonParent 3 ∧
    (∃ s, Reach exCommonParent s ∧ s.rpc = .halted ∧ s.halt = .cyclic ∧ exitCode s = 3 ∧
      cycleTasks exCommonParent 3 (trace exCommonParent s) = [1, 2]) ∧
    (∃ s, PReach { exCommonParent with runner := .thread, numProc := 2 } s ∧ s.rpc = .halted ∧ s.halt = .cyclic ∧
      exitCode s = 3) := by
  refine ⟨fun t => ⟨by simp [exCommonParent], by simp [exCommonParent]⟩, ?_, C09_common_parent_diagnosed_parallel⟩
  exact ⟨_, autoRun_reach (by decide) false false 200 _ Reach.init, by decide +kernel, by decide +kernel,
    by decide +kernel, by decide +kernel⟩

/-- the hypothesis `BoundedCalc` is needed (the `def C09_cycle_diagnosed_full` of the earlier rounds, which quantified
    over every `nTasks`, is false): task 0 has the calc_dep 1, which delivers the calc_dep 2, which delivers the calc_dep
    3, which fails; 0 is reported `unmet`, its setup-task 4 (which depends on 0) is never created and the run ends
    normally under `--continue`.  With the fuel `nTasks = 1` the monitor's `calcsAt` stops at `[1, 2]`, takes 0 for
    chosen by the first pass and sees the cycle 0 → 4 → 0. -/
def exFuel : RunInput :=
  { taskDep := fun n => if n = 4 then [0] else []
    calcDep := fun n => if n = 0 then [1] else []
    setup := fun n => if n = 0 then [4] else []
    calcRes := fun n => if n = 1 then { calcs := [2] } else if n = 2 then { calcs := [3] } else {}
    outcome := fun n => if n = 3 then .failed else .ok
    continue_ := true
    sel := [0] }

theorem C09_cycle_diagnosed_fuel_counterexample :
    ∃ s, Reach exFuel s ∧ s.rpc = .halted ∧ s.halt = .none ∧ s.stop = false ∧
      cycleTasks exFuel 1 (trace exFuel s) ≠ [] ∧ cycleTasks exFuel 5 (trace exFuel s) = [] :=
  ⟨_, autoRun_reach (by decide) false false 400 _ Reach.init, by decide +kernel, by decide +kernel,
    by decide +kernel, by decide +kernel, by decide +kernel⟩

/-- the pinned dispatcher (no `_check_deadlock`), serial runner: the same input ends in an internal error
    (`select_task("hold on")`: AttributeError) instead of the diagnosis, and the monitor rejects that run -/
theorem C09_pinned_serial_counterexample :
    ∃ cs s, runPinned exCommonParent (init exCommonParent) cs = some s ∧ s.rpc = .halted ∧ s.halt = .crash ∧
      monC09 exCommonParent 3 (trace exCommonParent s) { exit := 3, errCyclic := false, errWait := true, hung := false } = false :=
  ⟨_, _, runPinned_auto exCommonParent 200 (init exCommonParent), by decide +kernel, by decide +kernel,
    by decide +kernel⟩

/-- the pinned dispatcher, two workers: the run reaches a state in which the main thread blocks in `result_q.get()`
    for ever — nothing queued, nothing executing, both workers parked on a `JobHold` -/
theorem C09_pinned_parallel_counterexample :
    ∃ cs s, runPinned { exCommonParent with runner := .thread, numProc := 2 }
        (init { exCommonParent with runner := .thread, numProc := 2 }) cs = some s ∧
      hungState s 2 = true ∧ mainStep { exCommonParent with runner := .thread, numProc := 2 } s [] = none :=
  ⟨_, _, runPinned_auto _ 200 _, by decide +kernel, by decide +kernel⟩

/-- an acyclic input with every edge kind: `3 -> 1, 2` (task_dep), `1 -> 0` (task_dep), `2 -> 0` (calc_dep),
    `3 -> 4` (setup) -/
def exAcyclic : RunInput :=
  { taskDep := fun n => if n = 3 then [1, 2] else if n = 1 then [0] else []
    calcDep := fun n => if n = 2 then [0] else []
    setup := fun n => if n = 3 then [4] else []
    sel := [3] }

theorem exAcyclic_calcOf : ∀ n c, CalcOf exAcyclic n c → n = 2 ∧ c = 0 := by
  intro n c h
  induction h with
  | base h =>
    simp only [exAcyclic] at h
    split at h
    · rename_i hn; simp at h; exact ⟨hn, h⟩
    · simp at h
  | res _ h _ => simp [exAcyclic] at h
  | resFail _ h _ => simp [exAcyclic] at h

/-- the hypothesis `Acyclic` is satisfiable by a graph with all edge kinds … -/
theorem C09_exAcyclic_acyclic : Acyclic exAcyclic := by
  refine ⟨fun n => if n = 4 then 0 else n + 1, ?_⟩
  intro n d h
  cases h with
  | task h =>
    simp only [exAcyclic] at h
    split at h
    · simp at h; rcases h with rfl | rfl <;> simp_all
    · split at h
      · simp at h; subst h; simp_all
      · simp at h
  | ofCalc h => obtain ⟨rfl, rfl⟩ := exAcyclic_calcOf _ _ h; simp
  | setup h =>
    simp only [exAcyclic] at h
    split at h
    · simp at h; subst h; simp_all
    · simp at h
  | resT _ h => simp [exAcyclic] at h
  | resF _ h => simp [exAcyclic] at h
  | resTFail _ h => simp [exAcyclic] at h
  | resFFail _ h => simp [exAcyclic] at h

/-- … and is a finite task table with 5 tasks, and satisfies the fuel hypothesis of `C09_cycle_diagnosed_*`: the
    hypotheses of `C09_terminates_serial` and `C09_cycle_diagnosed_*` hold of a graph with every edge kind -/
theorem C09_exAcyclic_finite : FiniteTable exAcyclic 5 ∧ BoundedCalc exAcyclic 5 := by
  refine ⟨⟨?_, ?_, ?_, ?_, ?_, ?_, ?_, ?_, ?_, ?_⟩, fun t => ⟨?_, ?_⟩⟩
  all_goals first
    | (intro n d h; simp only [exAcyclic] at h; repeat' split at h
       all_goals (simp at h; try first | (subst h; decide) | (rcases h with rfl | rfl <;> decide)))
    | (intro d h; simp only [exAcyclic] at h; repeat' split at h
       all_goals (simp at h; try first | (subst h; decide) | (rcases h with rfl | rfl <;> decide)))

/-- … on which the run ends normally after executing all five tasks (so the theorems above are about runs that do
    pass through `waiting` and `"hold on"` states: three workers, two of them idle most of the time) -/
example : ∃ s, PReach { exAcyclic with runner := .thread, numProc := 3 } s ∧ s.rpc = .halted ∧ s.halt = .none ∧
    ((List.range 5).all fun t => s.events.countP (Ev.isStartOf t) == 1) = true :=
  ⟨_, autoRun_preach (by decide) false true 800 _ PReach.init, by decide +kernel, by decide +kernel,
    by decide +kernel⟩

/-- a reachable state of that run in which the dispatcher did answer `"hold on"` (with a task in flight) -/
example : ∃ s, PReach { exAcyclic with runner := .thread, numProc := 3 } s ∧ s.susp = some .holdOn ∧
    s.dispatched ≠ [] :=
  ⟨_, autoRun_preach (by decide) false true 40 _ PReach.init, by decide +kernel, by decide +kernel⟩


/-- an input on which a FAILED calc task delivers: `2` has calc_dep `0`; `0` is executed, returns `task_dep: [1]` and then
    fails (`calcResFail`); `--continue` -/
def exFailDeliver : RunInput :=
  { taskDep := fun _ => [], calcDep := fun n => if n = 2 then [0] else [], setup := fun _ => [], sel := [2],
    continue_ := true, outcome := fun n => if n = 0 then .failed else .ok,
    calcResFail := fun n => if n = 0 then { tasks := [1] } else {} }

/-- the theorems of this section are not vacuous on such inputs: the run ends, the delivered task `1` is created,
    executed and reported, `2` is reported (unmet) — and the order statement applies to all three -/
example : ∃ s, Reach exFailDeliver s ∧ s.rpc = .halted ∧ s.events.countP (Ev.isTerminalOf 1) = 1 ∧
    s.events.countP (Ev.isStartOf 1) = 1 ∧ s.events.countP (Ev.isTerminalOf 2) = 1 ∧
    s.events.countP (Ev.isStartOf 2) = 0 :=
  ⟨_, autoRun_reach (by decide) false false 400 _ Reach.init, by decide +kernel, by decide +kernel, by decide +kernel,
    by decide +kernel, by decide +kernel⟩

/-! ### a cycle that exists ONLY through what a FAILED calc task delivered -/

/-- `1` has the calc_dep `0`; `0` is executed, returns `task_dep: [1]` and then fails (`calcResFail`); `--continue`.  The
    only cycle `1 → 1` of the closure graph is the delivered edge; the graph without failed deliveries is acyclic. -/
def exFailCycle : RunInput :=
  { taskDep := fun _ => [], calcDep := fun n => if n = 1 then [0] else [], setup := fun _ => [], sel := [1],
    continue_ := true, outcome := fun n => if n = 0 then .failed else .ok,
    calcResFail := fun n => if n = 0 then { tasks := [1] } else {} }

/-- … and through one more task: `0` delivers `task_dep: [2]`, `2` has the task_dep `1` -/
def exFailCycle2 : RunInput :=
  { exFailCycle with taskDep := fun n => if n = 2 then [1] else [],
                     calcResFail := fun n => if n = 0 then { tasks := [2] } else {} }

/-- C09 (cycle diagnosed) for a cycle that exists only through a failed delivery, every run, all three runners: if the
    closure graph WITH the deliveries of failed calc tasks has a cycle although the graph without them
    (`cycleTasksGood`, the monitor of the earlier rounds) has none, and the run was not cut short by the failure
    (`--continue`: `stop = false`) and did not die of an internal error, then it ended with the cyclic-dependency
    error and exit code 3, and no task on that cycle was started or reported -/
theorem C09_failed_delivery_cycle_diagnosed (inp : RunInput) (s : Sys) (hr : Reach inp s ∨ PReach inp s) (nTasks : Nat)
    (hb : BoundedCalc inp nTasks) (_honly : cycleTasksGood inp nTasks (trace inp s) = [])
    (hcyc : cycleTasks inp nTasks (trace inp s) ≠ []) (hend : s.rpc = .halted) (hstop : s.stop = false)
    (hnc : s.halt ≠ .crash) :
    s.halt = .cyclic ∧ exitCode s = 3 ∧
    ∀ t ∈ cycleTasks inp nTasks (trace inp s),
      s.events.countP (Ev.isStartOf t) = 0 ∧ s.events.countP (Ev.isTerminalOf t) = 0 := by
  obtain ⟨h1, h2⟩ := C09_cycle_exit3 inp s hr nTasks hb hcyc hend hstop hnc
  refine ⟨h1, h2, fun t ht => ⟨(C09_cycle_diagnosed inp s hr nTasks hb).2 t ht, ?_⟩⟩
  exact C09_cycle_task_never_reported inp s hr nTasks hb t (by unfold cycleTasks at ht; exact (List.mem_filter.mp ht).2)

/-- non-vacuity, and the instance the Python monitor alone used to judge: on `exFailCycle` (serial runner, `--continue`)
    the failed calc task `0` is executed and reported, the run ends with the cyclic error and exit code 3, `1` is never
    started; the graph with failed deliveries has the cycle `[1]`, the graph without them has none; the monitor accepts
    the model's observables and rejects a run that ended normally -/
theorem C09_cycle_only_through_failed_delivery :
    BoundedCalc exFailCycle 2 ∧
    ∃ s, Reach exFailCycle s ∧ s.rpc = .halted ∧ s.stop = false ∧ s.halt = .cyclic ∧ exitCode s = 3 ∧
      s.events.countP (Ev.isStartOf 0) = 1 ∧ s.events.countP (Ev.isStartOf 1) = 0 ∧
      cycleTasks exFailCycle 2 (trace exFailCycle s) = [1] ∧ cycleTasksGood exFailCycle 2 (trace exFailCycle s) = [] ∧
      monC09 exFailCycle 2 (trace exFailCycle s) { exit := 3, errCyclic := true, errWait := false, hung := false } = true ∧
      monC09 exFailCycle 2 (trace exFailCycle s) { exit := 1, errCyclic := false, errWait := false, hung := false } = false := by
  refine ⟨fun t => ⟨by simp [exFailCycle], by simp [exFailCycle]⟩, ?_⟩
  exact ⟨_, autoRun_reach (by decide) false false 400 _ Reach.init, by decide +kernel, by decide +kernel,
    by decide +kernel, by decide +kernel, by decide +kernel, by decide +kernel, by decide +kernel, by decide +kernel,
    by decide +kernel, by decide +kernel⟩

/-- the same through one more task (`1 → 2 → 1`, the edge `1 → 2` delivered by the failed `0`), with two worker
    threads: every hypothesis of `C09_failed_delivery_cycle_diagnosed` holds of a reachable state -/
example : ∃ s, PReach { exFailCycle2 with runner := .thread, numProc := 2 } s ∧ s.rpc = .halted ∧ s.stop = false ∧
    s.halt = .cyclic ∧
    cycleTasks { exFailCycle2 with runner := .thread, numProc := 2 } 3
      (trace { exFailCycle2 with runner := .thread, numProc := 2 } s) ≠ [] ∧
    cycleTasksGood { exFailCycle2 with runner := .thread, numProc := 2 } 3
      (trace { exFailCycle2 with runner := .thread, numProc := 2 } s) = [] :=
  ⟨_, autoRun_preach (by decide) false false 600 _ PReach.init, by decide +kernel, by decide +kernel,
    by decide +kernel, by decide +kernel, by decide +kernel⟩

end DoitModel.C09
