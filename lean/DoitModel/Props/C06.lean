import DoitModel.Proofs.Crash
/-! # C06 — interrupted or killed runs leave a dependency DB that never lies

Property theorems over M9 (`Model/Crash.lean`).  Quantification: every old DB content, every effect list of a run,
every iteration order of the dirty set, every kill point (before any primitive, or inside one), every outcome the
storage-layer assumptions A1–A3 leave open; every plan of task outcomes with an interruption anywhere.

The part of the property that speaks about *skipping* ("skips only tasks that really completed successfully with the
current state of their dependencies") is the composition of these theorems (every readable record is one that a
successful execution wrote, or the untouched old one) with the per-record soundness of `get_status` (C03).  The
assumptions A1–A3 themselves are validated by the kill-point enumeration of the harness, not proved. -/
namespace DoitModel.C06
open DoitModel.Crash

/-- JsonDB: whatever the kill point, the file is unreadable (error exit), or holds exactly the old content, or
    exactly the content after the run -/
theorem json_kill_all_or_nothing (old : Store) (existed : Bool) (effs : List Eff) (m k : Nat) :
    jsonCrash old existed effs m k = .unreadable ∨
    jsonCrash old existed effs m k = jRecover (jDiskOf old existed) ∨
    jsonCrash old existed effs m k = .store (fun t => slotOf (finalStore old effs t)) := by
  unfold jsonCrash
  have hp : ∀ p ∈ (jsonProtocol old effs m).take k,
      p = JPrim.trunc ∨ p = JPrim.chunk ∨ p = JPrim.last (finalStore old effs) := by
    intro p hp
    have := List.mem_of_mem_take hp
    simp only [jsonProtocol, List.mem_cons, List.mem_append, List.mem_replicate, List.not_mem_nil,
      or_false] at this
    rcases this with h | ⟨_, h⟩ | h
    · exact Or.inl h
    · exact Or.inr (Or.inl h)
    · exact Or.inr (Or.inr h)
  rcases json_fold_cases (jDiskOf old existed) _ (finalStore old effs) hp with h | h | h
  · right; left; rw [h]
  · left; rw [h]; rfl
  · right; right; rw [h]; rfl

/-- JsonDB: every readable record after a kill is legitimate -/
theorem json_kill_sound (old : Store) (existed : Bool) (effs : List Eff) (m k : Nat) :
    match jsonCrash old existed effs m k with
    | .unreadable => True
    | .store f => ∀ t, SlotLegit old effs t (f t) := by
  rcases json_kill_all_or_nothing old existed effs m k with h | h | h
  · rw [h]; trivial
  · rw [h]
    cases existed
    · simp [jDiskOf, jRecover, SlotLegit]
    · simp only [jDiskOf, jRecover, if_true]
      intro t; exact slotLegit_slotOf_old old effs t
  · rw [h]
    intro t
    show SlotLegit old effs t (slotOf (finalStore old effs t))
    cases hf : finalStore old effs t with
    | none => simp [slotOf, SlotLegit]
    | some r => simpa [slotOf, SlotLegit] using finalStore_legit old effs t r hf

/-- SqliteDB (A2): a kill before `commit` returns leaves exactly the old content; nothing in between is visible -/
theorem sqlite_kill_atomic (old : Store) (effs : List Eff) (dirty : List (T × R)) (k : Nat)
    (hk : k < (sqliteProtocol effs dirty).length) :
    sqliteCrash old effs dirty k = .store (fun t => slotOf (old t)) := by
  unfold sqliteCrash qRecover
  suffices ∀ (prims : List QPrim) (d : QDisk), (∀ p ∈ prims, p ≠ QPrim.commit) →
      (prims.foldl qApply d).committed = d.committed by
    have hnc : ∀ p ∈ (sqliteProtocol effs dirty).take k, p ≠ QPrim.commit := by
      intro p hp
      have hlen : k ≤ ((removesOf effs).map QPrim.delete ++ dirty.map (fun p => QPrim.upsert p.1 p.2)).length := by
        simp only [sqliteProtocol, List.length_append, List.length_singleton] at hk
        simp only [List.length_append]; omega
      simp only [sqliteProtocol] at hp
      rw [List.take_append_of_le_length hlen] at hp
      have := List.mem_of_mem_take hp
      simp only [List.mem_append, List.mem_map] at this
      rcases this with ⟨t, _, rfl⟩ | ⟨q, _, rfl⟩ <;> simp
    rw [this _ _ hnc]
  intro prims
  induction prims with
  | nil => intro d _; rfl
  | cons p ps ih =>
    intro d hp
    simp only [List.foldl_cons]
    rw [ih _ (fun q hq => hp q (List.mem_cons_of_mem _ hq))]
    have := hp p (List.mem_cons_self ..)
    cases p <;> simp_all [qApply]

/-- SqliteDB: every readable record after a kill at any point is legitimate -/
theorem sqlite_kill_sound (old : Store) (effs : List Eff) (dirty : List (T × R)) (k : Nat)
    (hd : ∀ p ∈ dirty, Eff.save p.1 p.2 ∈ effs) :
    match sqliteCrash old effs dirty k with
    | .unreadable => True
    | .store f => ∀ t, SlotLegit old effs t (f t) := by
  unfold sqliteCrash qRecover
  simp only
  -- invariant: both views only hold legitimate records
  suffices ∀ (prims : List QPrim) (d : QDisk),
      (∀ p ∈ prims, ∀ t r, p = QPrim.upsert t r → Eff.save t r ∈ effs) →
      (∀ t r, d.committed t = some r → Legit old effs t r) → (∀ t r, d.txn t = some r → Legit old effs t r) →
      ∀ t r, (prims.foldl qApply d).committed t = some r → Legit old effs t r by
    intro t
    cases hc : (List.foldl qApply { committed := old, txn := old } (List.take k (sqliteProtocol effs dirty))).committed t with
    | none => simp [slotOf, SlotLegit]
    | some r =>
      simp only [slotOf, SlotLegit]
      refine this _ _ ?_ (fun _ _ h => Or.inl h) (fun _ _ h => Or.inl h) t r hc
      intro p hp t' r' he
      have := List.mem_of_mem_take hp
      simp only [sqliteProtocol, List.mem_append, List.mem_map, List.mem_singleton] at this
      rcases this with (⟨x, _, rfl⟩ | ⟨q, hq, rfl⟩) | rfl
      · cases he
      · cases he; exact hd q hq
      · cases he
  intro prims
  induction prims with
  | nil => intro d _ hc _ t r h; exact hc t r (by simpa using h)
  | cons p ps ih =>
    intro d hp hc ht t r h
    simp only [List.foldl_cons] at h
    refine ih (qApply d p) (fun q hq => hp q (List.mem_cons_of_mem _ hq)) ?_ ?_ t r h
    · intro x r' hx
      cases p with
      | delete t' => exact hc x r' (by simpa [qApply] using hx)
      | upsert t' r'' => exact hc x r' (by simpa [qApply] using hx)
      | commit => exact ht x r' (by simpa [qApply] using hx)
    · intro x r' hx
      cases p with
      | delete t' =>
        simp only [qApply] at hx
        by_cases hxt : x = t'
        · simp [hxt] at hx
        · simp [hxt] at hx; exact ht x r' hx
      | upsert t' r'' =>
        simp only [qApply] at hx
        by_cases hxt : x = t'
        · simp [hxt] at hx; subst hx; subst hxt
          exact Or.inr (hp _ (List.mem_cons_self ..) x r'' rfl)
        · simp [hxt] at hx; exact ht x r' hx
      | commit => exact ht x r' (by simpa [qApply] using hx)

/-- DbmDB on dbm.dumb (A3): whatever the kill point (before a primitive or inside one), whatever an uncommitted
    write reads back as, whatever part of the index survives a torn commit: the DB is unreadable, or every record
    that can be read is legitimate -/
theorem dbm_kill_sound (old : Store) (effs : List Eff) (dirty : List (T × R)) (seens : Nat → SetSeen) (k : Nat)
    (inside : Option (SetSeen × Bool × (T → Bool)))
    (hd : ∀ p ∈ dirty, Eff.save p.1 p.2 ∈ effs) :
    match dbmCrash old effs dirty seens k inside with
    | .unreadable => True
    | .store f => ∀ t, SlotLegit old effs t (f t) := by
  have hok := dbmProtocol_ok effs dirty hd
  have hinv : DInv old effs (dbmRun seens 0 (dInit old) ((dbmProtocol effs dirty).take k)) :=
    dbmRun_inv old effs seens _ (fun p hp => hok p (List.mem_of_mem_take hp)) 0 _ (dInit_inv old effs)
  unfold dbmCrash
  simp only
  have fin : ∀ d : DDisk, DInv old effs d →
      match dRecover d with
      | .unreadable => True
      | .store f => ∀ t, SlotLegit old effs t (f t) := by
    intro d hdinv
    unfold dRecover
    cases d.broken
    · simp only [Bool.false_eq_true, if_false]; exact hdinv.diskLegit
    · simp
  cases inside with
  | none => exact fin _ hinv
  | some c =>
    obtain ⟨seen, torn, keep⟩ := c
    cases hp : (dbmProtocol effs dirty)[k]? with
    | none => exact fin _ hinv
    | some p =>
      have hmem : p ∈ dbmProtocol effs dirty := List.mem_of_getElem? hp
      exact fin _ (dCrashIn_inv old effs seen torn keep _ p (hok p hmem) hinv)

/-- the dirty set doit writes at dump time satisfies the hypothesis of the two theorems above -/
theorem dirty_records_were_saved (effs : List Eff) : ∀ p ∈ dirtyOf effs, Eff.save p.1 p.2 ∈ effs :=
  dirtyOf_saved effs

/-! ## interruption (KeyboardInterrupt / SystemExit inside an action; `finish()` runs in a `finally`) -/

/-- every task reported successful before the run ended is remembered with the record it saved,
    provided no task is processed twice (C02) -/
theorem interrupt_remembers (old : Store) (c : Bool) (plan : List (T × Outcome))
    (hnd : (plan.map (·.1)).Nodup) (t : T) (r : R) (h : (t, r) ∈ reportedOk c plan) :
    afterRun old c plan t = some r := by
  unfold afterRun finalStore
  induction plan generalizing old with
  | nil => simp [reportedOk] at h
  | cons p ps ih =>
    obtain ⟨t', o⟩ := p
    simp only [List.map_cons, List.nodup_cons] at hnd
    -- a later effect list never touches t' again
    have untouched : ∀ (c : Bool) (s : Store) (ps : List (T × Outcome)), t' ∉ ps.map (·.1) →
        ((runEffects c ps).foldl applyEff s) t' = s t' := by
      intro c s ps
      induction ps generalizing s with
      | nil => intro _; rfl
      | cons q qs ihq =>
        intro hq
        obtain ⟨u, ou⟩ := q
        simp only [List.map_cons, List.mem_cons, not_or] at hq
        cases ou with
        | ok r' =>
          simp only [runEffects, List.foldl_cons]
          rw [ihq _ hq.2]; simp [applyEff, hq.1]
        | fail =>
          simp only [runEffects, List.foldl_cons]
          cases c
          · simp [applyEff, hq.1]
          · simp only [if_true]; rw [ihq _ hq.2]; simp [applyEff, hq.1]
        | interrupt => simp [runEffects]
    cases o with
    | ok r' =>
      simp only [reportedOk, List.mem_cons, Prod.mk.injEq] at h
      simp only [runEffects, List.foldl_cons]
      rcases h with ⟨rfl, rfl⟩ | h
      · rw [untouched c _ ps hnd.1]; simp [applyEff]
      · exact ih _ hnd.2 h
    | fail =>
      simp only [reportedOk] at h
      cases c
      · simp at h
      · simp only [if_true] at h
        simp only [runEffects, if_true, List.foldl_cons]
        exact ih _ hnd.2 h
    | interrupt => simp [reportedOk] at h

/-- the interrupted task and the tasks not started yet are not recorded: their entry is what it was before the run -/
theorem interrupt_not_recorded (old : Store) (c : Bool) (pre post : List (T × Outcome)) (ti : T) (t : T)
    (_ht : t = ti ∨ t ∈ post.map (·.1)) (hfresh : t ∉ pre.map (·.1)) :
    afterRun old c (pre ++ (ti, Outcome.interrupt) :: post) t = old t := by
  unfold afterRun finalStore
  induction pre generalizing old with
  | nil => simp [runEffects]
  | cons p ps ih =>
    obtain ⟨u, o⟩ := p
    simp only [List.map_cons, List.mem_cons, not_or] at hfresh
    cases o with
    | ok r =>
      simp only [List.cons_append, runEffects, List.foldl_cons]
      rw [ih _ hfresh.2]; simp [applyEff, hfresh.1]
    | fail =>
      simp only [List.cons_append, runEffects, List.foldl_cons]
      cases c
      · simp [applyEff, hfresh.1]
      · simp only [if_true]; rw [ih _ hfresh.2]; simp [applyEff, hfresh.1]
    | interrupt => simp [runEffects]

/-- a failed task is not left recorded as successful by the flush (C05 shares this clause) -/
theorem failed_not_recorded (old : Store) (c : Bool) (pre post : List (T × Outcome)) (t : T)
    (hpost : t ∉ post.map (·.1)) :
    afterRun old c (pre ++ (t, Outcome.fail) :: post) t = none ∨
    (∃ ti, (ti, Outcome.interrupt) ∈ pre) ∨ (c = false ∧ ∃ u, (u, Outcome.fail) ∈ pre) := by
  unfold afterRun finalStore
  induction pre generalizing old with
  | nil =>
    left
    simp only [List.nil_append, runEffects, List.foldl_cons]
    have untouched : ∀ (s : Store) (ps : List (T × Outcome)), t ∉ ps.map (·.1) →
        ((runEffects c ps).foldl applyEff s) t = s t := by
      intro s ps
      induction ps generalizing s with
      | nil => intro _; rfl
      | cons q qs ihq =>
        intro hq
        obtain ⟨u, ou⟩ := q
        simp only [List.map_cons, List.mem_cons, not_or] at hq
        cases ou with
        | ok r' => simp only [runEffects, List.foldl_cons]; rw [ihq _ hq.2]; simp [applyEff, hq.1]
        | fail =>
          simp only [runEffects, List.foldl_cons]
          cases c
          · simp [applyEff, hq.1]
          · simp only [if_true]; rw [ihq _ hq.2]; simp [applyEff, hq.1]
        | interrupt => simp [runEffects]
    cases c
    · simp [applyEff]
    · simp only [if_true]; rw [untouched _ _ hpost]; simp [applyEff]
  | cons p ps ih =>
    obtain ⟨u, o⟩ := p
    cases o with
    | ok r =>
      simp only [List.cons_append, runEffects, List.foldl_cons]
      rcases ih (applyEff old (Eff.save u r)) with h | ⟨ti, h⟩ | ⟨hc, v, h⟩
      · left; exact h
      · right; left; exact ⟨ti, List.mem_cons_of_mem _ h⟩
      · right; right; exact ⟨hc, v, List.mem_cons_of_mem _ h⟩
    | fail =>
      cases c
      · right; right; exact ⟨rfl, u, List.mem_cons_self ..⟩
      · simp only [List.cons_append, runEffects, if_true, List.foldl_cons]
        rcases ih (applyEff old (Eff.remove u)) with h | ⟨ti, h⟩ | ⟨hc, _⟩
        · left; exact h
        · right; left; exact ⟨ti, List.mem_cons_of_mem _ h⟩
        · cases hc
    | interrupt => right; left; exact ⟨u, List.mem_cons_self ..⟩

/-- an interruption raised inside any teardown action comes after the flush: nothing the run recorded is lost -/
theorem teardown_interrupt_keeps_flush (old mem : Store) (tdList : List T) (k : Nat) (hk : 1 ≤ k) :
    persistedAfterFinish old mem tdList k = mem := by
  unfold persistedAfterFinish finishSteps
  cases k with
  | zero => omega
  | succ n => simp [List.take_succ_cons]

/-! ## non-vacuity -/

/-- a run that re-saves task 0, removes task 1 and is killed inside the final commit of dbm.dumb can lose part of
    the index (task 0 looks never-run) — allowed, and still legitimate -/
example :
    (dbmCrash (fun t => if t ≤ 1 then some 7 else none) [.save 0 8, .remove 1] [(0, 8)] (fun _ => .garbage) 2
        (some (.new, false, fun _ => false))).slot? 0 = some .absent ∧
    (dbmCrash (fun t => if t ≤ 1 then some 7 else none) [.save 0 8, .remove 1] [(0, 8)] (fun _ => .garbage) 2
        none).slot? 0 = some .corrupt := by decide

/-- a JSON dump killed after the truncate is unreadable; killed before it, the old content is intact -/
example : (jsonCrash (fun _ => some 1) true [.save 0 2] 3 1).slot? 0 = none ∧
          (jsonCrash (fun _ => some 1) true [.save 0 2] 3 0).slot? 0 = some (.rcd 1) ∧
          (jsonCrash (fun _ => some 1) true [.save 0 2] 3 5).slot? 0 = some (.rcd 2) := by decide

example : afterRun (fun _ => some 1) true [(0, .ok 5), (1, .fail), (2, .interrupt), (3, .ok 9)] 0 = some 5 ∧
          afterRun (fun _ => some 1) true [(0, .ok 5), (1, .fail), (2, .interrupt), (3, .ok 9)] 1 = none ∧
          afterRun (fun _ => some 1) true [(0, .ok 5), (1, .fail), (2, .interrupt), (3, .ok 9)] 3 = some 1 := by decide

end DoitModel.C06
