import DoitModel.Proofs.LoadGroups3
import DoitModel.Proofs.LoadOrder
/-! # C18 — loading maps task-creators to a well-formed, validated task set

Property theorems only (model: `Model/Load.lean`; helpers: `Proofs/Load*.lean`).
Quantification: every list of command names, every namespace of creators (any number, any definition lines), each
returning a dict, a generator (arbitrarily nested) of dicts / Task objects / other values, a Task object, `None` or
something else; every task dict over the attribute vocabulary with values of any top-level type.
`load` = `loader.load_tasks` followed by `TaskControl(task_list)`. -/
namespace DoitModel.C18
open DoitModel.Load

/-! ## totality: never an internal exception -/

/-- loading never ends in an exception other than InvalidTask / InvalidDodoFile — at full strength since the fixes
    5a43f74 (type-exact `check_attr`), 379257a (tuple `uptodate`) and 5cc6c19 (`basename` checked before use) -/
theorem total (cmds : List Name) (cs : List Creator) (e : Exn) : load cmds cs ≠ .crash e :=
  load_no_crash cmds cs e

def actionsOnly : TDict := [(.actions, .list [[97]])]

def taskOf (nm : Name) : Task :=
  { name := nm, taskDep := [], wildDep := [], setupTasks := [], calcDep := [], targets := [], fileDep := [],
    subtaskOf := none, hasSubtask := false }

/-- the three former crash inputs are now invalid-task rejections -/
example :
    load [] [⟨[102], 1, .dict (actionsOnly ++ [(.clean, .int 1)])⟩] = .invalidTask ∧
    load [] [⟨[102], 1, .dict (actionsOnly ++ [(.clean, .float 2)])⟩] = .invalidTask ∧
    load [] [⟨[102], 1, .gen [.leaf (.dict (actionsOnly ++ [(.basename, .list [[120]])]) [] [])]⟩] = .invalidTask := by
  decide

/-- a tuple `uptodate` with `getargs` is now accepted (both types are valid) -/
example :
    load [] [⟨[120], 1, .dict actionsOnly⟩,
             ⟨[102], 2, .dict (actionsOnly ++ [(.uptodate, .tuple [[117]]), (.getargs, .dict [([107], some [120])])])⟩]
      = .tasks [{ name := [120], taskDep := [], wildDep := [], setupTasks := [], calcDep := [], targets := [],
                  fileDep := [], subtaskOf := none, hasSubtask := false },
                { name := [102], taskDep := [], wildDep := [], setupTasks := [[120]], calcDep := [], targets := [],
                  fileDep := [], subtaskOf := none, hasSubtask := false }] := by decide

/-- F-C18 crash-clean-eq-true / coerced-verbosity (fixed 5a43f74): the pinned `check_attr` (`value in valid[1]`)
    accepted `clean: 1` — on which `for a in clean` raises TypeError — and `verbosity: True` -/
theorem pinned_check_attr_counterexample :
    checkAttrPinned (.int 1) ([.list, .tuple], [.true]) = true ∧
    cleanStep (some (.int 1)) = .error (.crash .typeError) ∧
    checkAttr (.int 1) ([.list, .tuple], [.true]) = false ∧
    checkAttrPinned (.bool true) ([], [.none, .int 0, .int 1, .int 2]) = true ∧
    checkAttr (.bool true) ([], [.none, .int 0, .int 1, .int 2]) = false := by decide

/-- F-C18 crash-uptodate-tuple-getargs (fixed 379257a): pinned `uptodate.extend` on a tuple raised AttributeError -/
theorem pinned_uptodate_tuple_counterexample :
    getargsStepPinned (actionsOnly ++ [(.uptodate, .tuple [[117]]), (.getargs, .dict [([107], some [120])])])
      = .error (.crash .attributeError) ∧
    getargsStep (actionsOnly ++ [(.uptodate, .tuple [[117]]), (.getargs, .dict [([107], some [120])])])
      = .ok [[120]] := by decide

/-- F-C18 crash-unhashable-basename (fixed 5cc6c19): without the `basename` check `basename in tasks` raised TypeError -/
theorem pinned_unhashable_basename_counterexample :
    yieldDictPinned [] [102] (actionsOnly ++ [(.basename, .list [[120]])]) [] [] = .error (.crash .typeError) ∧
    yieldDict [] [102] (actionsOnly ++ [(.basename, .list [[120]])]) [] [] = .error .invalidTask := by decide

/-- F-C18 command-name-as-basename (fixed eeaaa80): the creator produces a task named `list`; only the new check in
    `_process_gen` (`cmdClash`) turns that into InvalidDodoFile -/
theorem pinned_command_name_counterexample :
    generate [102] (.dict (actionsOnly ++ [(.basename, .str [108, 105, 115, 116])])) =
      .ok [{ name := [108, 105, 115, 116], taskDep := [], wildDep := [], setupTasks := [], calcDep := [], targets := [],
             fileDep := [], subtaskOf := none, hasSubtask := false }] ∧
    load [[108, 105, 115, 116]] [⟨[102], 1, .dict (actionsOnly ++ [(.basename, .str [108, 105, 115, 116])])⟩]
      = .invalidDodo := by decide

/-! ## well-formedness of an accepted task set -/

def RefsExist (ts : List Task) : Prop :=
  ∀ t ∈ ts, (∀ n ∈ t.taskDep, n ∈ ts.map (·.name)) ∧ (∀ n ∈ t.setupTasks, n ∈ ts.map (·.name)) ∧
    (∀ n ∈ t.calcDep, n ∈ ts.map (·.name))

def wellformed_full : Prop :=
  ∀ (cmds : List Name) (cs : List Creator) (ts : List Task), load cmds cs = .tasks ts →
    (ts.map (·.name)).Nodup ∧ RefsExist ts ∧ (ts.flatMap (·.targets)).Nodup ∧ GroupsWF ts

/-- Proved part of `wellformed_full`, for every input: names pairwise distinct, every name in `task_dep`
    (after wild-card expansion and implicit dependencies), `setup_tasks` (which include the `getargs` tasks, see
    `references_are_checked`) and `calc_dep` is the name of a loaded task, targets pairwise distinct.
    Missing: `GroupsWF` (every sub-task attached to a group task that depends on all its sub-tasks in yield order;
    `Proofs/LoadGroups3.lean`) — proved in `wellformed_groups` for every input whose Task objects are not marked as
    sub-task / group by hand; false only for such hand-marked objects, which the loader passes through unprocessed
    (`wellformed_handmade_counterexample`). -/
theorem wellformed_partial (cmds : List Name) (cs : List Creator) (ts : List Task) (h : load cmds cs = .tasks ts) :
    (ts.map (·.name)).Nodup ∧ RefsExist ts ∧ (ts.flatMap (·.targets)).Nodup := by
  obtain ⟨ts0, _, hc⟩ := load_tasks_split cmds cs ts h
  obtain ⟨h1, h2, h3, hts⟩ := control_ok ts0 ts hc
  obtain ⟨f, hf, hmap⟩ := control_extends ts0 ts hc
  have hnames : ts.map (·.name) = ts0.map (·.name) := by rw [hmap]; exact map_extends_names ts0 f hf
  refine ⟨?_, ?_, ?_⟩
  · rw [hnames]; exact (nodupB_iff _).mp h1
  · intro t ht
    rw [hnames]
    rw [hts] at ht
    obtain ⟨t1, ht1, rfl⟩ := List.mem_map.mp ht
    have hd := List.all_eq_true.mp h2 t1 ht1
    simp only [depsExist, Bool.and_eq_true, List.all_eq_true] at hd
    obtain ⟨⟨hd1, hd2⟩, hd3⟩ := hd
    refine ⟨?_, ?_, ?_⟩
    · intro n hn
      simp only [addImplicit, List.mem_append] at hn
      rcases hn with hn | hn
      · simpa using hd1 n hn
      · have := implicitDeps_mem _ _ _ n hn
        rw [List.map_map] at this
        have hcomp : (List.map ((fun x => x.name) ∘ expandWild (ts0.map (·.name))) ts0) = ts0.map (·.name) := by
          apply List.map_congr_left; intro a _; rfl
        rwa [hcomp] at this
    · intro n hn; simpa using hd2 n hn
    · intro n hn; simpa using hd3 n hn
  · have : ts.flatMap (·.targets) = (ts0.map (expandWild (ts0.map (·.name)))).flatMap (·.targets) := by
      rw [hts]
      exact map_extends_targets _ _ (fun t => extends_addImplicit _ t)
    rw [this]
    exact (nodupB_iff _).mp h3


/-- The group clause, for every input in which the Task *objects* handed over by creators are not marked as sub-task
    or group by hand (`PlainObjs`, decidable — the loader passes Task objects through unprocessed, the clause is about
    the sub-tasks the loader makes): every `basename:name` sub-task of an accepted load is attached to a group task
    named `basename` with `has_subtask`, and the sub-tasks of that group, in yield order, form a subsequence of the
    group's `task_dep`.  Since dd215ad no hypothesis about the order of yields is needed: a `name: None` dict arriving
    after sub-tasks keeps them, any other yield for a defined name is rejected. -/
theorem wellformed_groups (cmds : List Name) (cs : List Creator) (ts : List Task) (ht : PlainObjs cs = true)
    (h : load cmds cs = .tasks ts) : GroupsWF ts := by
  obtain ⟨ts0, hl, hc⟩ := load_tasks_split cmds cs ts h
  obtain ⟨_, hgen⟩ := loadTasks_ok cmds cs ts0 hl
  obtain ⟨h1, _, _, _⟩ := control_ok ts0 ts hc
  obtain ⟨f, hf, hmap⟩ := control_extends ts0 ts hc
  rw [hmap]
  apply groupsWF_map_extends ts0 f hf
  apply generateAll_groupsWF cmds (sortByLine cs) ts0 _ hgen ((nodupB_iff _).mp h1)
  intro c hc'
  have := List.all_eq_true.mp (by simpa [PlainObjs] using ht) c ((mem_sortByLine cs c).mp hc')
  exact this

/-- definition order: the loaded task names are the concatenation of the creators' own task lists, creators taken
    in the order of their definition lines -/
theorem definition_order (cmds : List Name) (cs : List Creator) (ts : List Task) (h : load cmds cs = .tasks ts) :
    ∃ parts, PartsOf (sortByLine cs) parts ∧ ts.map (·.name) = parts.flatten.map (·.name) := by
  obtain ⟨ts0, hl, hc⟩ := load_tasks_split cmds cs ts h
  obtain ⟨_, hgen⟩ := loadTasks_ok cmds cs ts0 hl
  obtain ⟨parts, hp, hflat⟩ := generateAll_parts cmds _ ts0 hgen
  obtain ⟨f, hf, hmap⟩ := control_extends ts0 ts hc
  exact ⟨parts, hp, by rw [hmap, map_extends_names ts0 f hf, hflat]⟩

/-- `sortByLine` is a stable sort by definition line: a permutation, ascending, and creators defined on the same
    line keep their namespace order -/
theorem creators_sorted_stably (cs : List Creator) :
    (sortByLine cs).Perm cs ∧ SortedByLine (sortByLine cs) ∧
    ∀ n, (sortByLine cs).filter (fun c => c.line == n) = cs.filter (fun c => c.line == n) :=
  ⟨sortByLine_perm cs, sortByLine_sorted cs, sortByLine_stable cs⟩

/-- inside one generator the tasks come in yield order, a group task standing where its first sub-task (or its
    attribute dict) was yielded: `f`, `f:b`, `f:a` for yields `b`, `a` -/
example :
    load [] [⟨[102], 1, .gen [.leaf (.dict (actionsOnly ++ [(.name, .str [98])]) [] []),
                              .leaf (.dict (actionsOnly ++ [(.name, .str [97])]) [] [])]⟩]
      = .tasks [{ name := [102], taskDep := [[102, 58, 98], [102, 58, 97]], wildDep := [], setupTasks := [],
                  calcDep := [], targets := [], fileDep := [], subtaskOf := none, hasSubtask := true },
                { name := [102, 58, 98], taskDep := [], wildDep := [], setupTasks := [], calcDep := [], targets := [],
                  fileDep := [], subtaskOf := some [102], hasSubtask := false },
                { name := [102, 58, 97], taskDep := [], wildDep := [], setupTasks := [], calcDep := [], targets := [],
                  fileDep := [], subtaskOf := some [102], hasSubtask := false }] ∧
    PlainObjs [⟨[102], 1, .gen [.leaf (.dict (actionsOnly ++ [(.name, .str [98])]) [] []),
                                .leaf (.task (taskOf [120]))]⟩] = true := by decide

/-- group attributes yielded after a sub-task keep it (dd215ad): yields `s`, `{'name': None, 'task_dep': ['f:s']}`…
    here simply `s`, `{'name': None}`, `t`: the group depends on `f:s`, `f:t` -/
example :
    load [] [⟨[102], 1, .gen [.leaf (.dict (actionsOnly ++ [(.name, .str [115])]) [] []),
                              .leaf (.dict [(.name, .none)] [] []),
                              .leaf (.dict (actionsOnly ++ [(.name, .str [116])]) [] [])]⟩]
      = .tasks [{ taskOf [102] with taskDep := [[102, 58, 115], [102, 58, 116]], hasSubtask := true },
                { taskOf [102, 58, 115] with subtaskOf := some [102] },
                { taskOf [102, 58, 116] with subtaskOf := some [102] }] := by decide

/-- F-C18 yield-replaces-task (fixed dd215ad): the pinned `name: None` branch replaced the group task made for the
    sub-task `f:s` (its `task_dep` became empty), and a yielded Task object replaced the task of the same name -/
theorem pinned_yield_replaces_counterexample :
    ((yieldAll [102] [] [.dict (actionsOnly ++ [(.name, .str [115])]) [] []]).bind
        (fun tk => yieldGroupAttrsPinned tk [(.name, .none)] (.str [102]))).toOption.map
      (fun tk => (lookup tk [102]).map (·.taskDep)) = some (some []) ∧
    ((yieldAll [102] [] [.dict (actionsOnly ++ [(.name, .str [115])]) [] []]).bind
        (fun tk => yieldGroupAttrs tk [(.name, .none)] (.str [102]))).toOption.map
      (fun tk => (lookup tk [102]).map (·.taskDep)) = some (some [[102, 58, 115]]) ∧
    ((yieldAll [102] [] [.dict (actionsOnly ++ [(.basename, .str [120])]) [] []]).bind
        (fun tk => yieldOnePinned [102] tk (.task (taskOf [120])))).toOption.map (·.length) = some 1 ∧
    (yieldAll [102] [] [.dict (actionsOnly ++ [(.basename, .str [120])]) [] []]).bind
        (fun tk => yieldOne [102] tk (.task (taskOf [120]))) = .error .invalidTask := by decide

/-- a Task object that a creator marked as sub-task by hand is handed through unprocessed: no group task exists for it.
    This is the only way `wellformed_full` fails (`wellformed_groups`); such objects are outside the reading of C18
    (the monitor skips them as well) -/
theorem wellformed_handmade_counterexample : ¬ wellformed_full := by
  intro h
  have := (h [] [⟨[113], 1, .task { taskOf [120, 58, 115] with subtaskOf := some [120] }⟩]
    [{ taskOf [120, 58, 115] with subtaskOf := some [120] }] (by decide)).2.2.2
  obtain ⟨g, hg, hname, _, _⟩ := this _ (List.mem_singleton.mpr rfl) [120] rfl
  simp only [List.mem_singleton] at hg
  subst hg
  revert hname; decide

/-- the task names a dict mentions in `task_dep` (no `*`), `setup`, `calc_dep` and `getargs` all end up in the fields
    that `TaskControl` checks (`RefsExist`), so a dangling reference of any of the four kinds is rejected -/
theorem references_are_checked (d : TDict) (t : Task) (h : dictToTask d = .ok t) :
    (∀ n ∈ seqItems (get d .task_dep), n.contains chStar = false → n ∈ t.taskDep) ∧
    (∀ n ∈ seqItems (get d .setup), n ∈ t.setupTasks) ∧
    (∀ n ∈ seqItems (get d .calc_dep), n ∈ t.calcDep) ∧
    (∀ e ∈ getargsEntries (get d .getargs), ∀ tk, e.2 = some tk → tk ∈ t.setupTasks) ∧
    t.targets = seqItems (get d .targets) :=
  dictToTask_refs d t h

/-! ## rejection of the listed defects -/

/-- duplicate task names, a dangling `task_dep` / `setup` / `calc_dep` (hence `getargs`) name, or a target claimed
    twice: `TaskControl` refuses the task list with InvalidDodoFile / InvalidTask -/
theorem rejects_at_control (ts : List Task)
    (hdef : ¬ (ts.map (·.name)).Nodup ∨ ¬ (ts.flatMap (·.targets)).Nodup ∨
      (∃ t ∈ ts, ∃ n, (n ∈ t.taskDep ∨ n ∈ t.setupTasks ∨ n ∈ t.calcDep) ∧ n ∉ ts.map (·.name))) :
    control ts = .error .invalidDodo ∨ control ts = .error .invalidTask := by
  cases hc : control ts with
  | error e =>
    cases e with
    | invalidTask => exact Or.inr rfl
    | invalidDodo => exact Or.inl rfl
    | crash e' => exact absurd hc (control_no_crash ts e')
  | ok ts' =>
    exfalso
    obtain ⟨h1, h2, h3, _⟩ := control_ok ts ts' hc
    rcases hdef with hd | hd | ⟨t, ht, n, hn, hnot⟩
    · exact hd ((nodupB_iff _).mp h1)
    · apply hd
      have : (ts.map (expandWild (ts.map (·.name)))).flatMap (·.targets) = ts.flatMap (·.targets) :=
        map_extends_targets _ _ (fun t => extends_expandWild _ t)
      rw [← this]
      exact (nodupB_iff _).mp h3
    · have hd := List.all_eq_true.mp h2 (expandWild (ts.map (·.name)) t) (List.mem_map_of_mem ht)
      simp only [depsExist, Bool.and_eq_true, List.all_eq_true] at hd
      obtain ⟨⟨hd1, hd2⟩, hd3⟩ := hd
      rcases hn with hn | hn | hn
      · exact hnot (by simpa using hd1 n (by simp [expandWild, hn]))
      · exact hnot (by simpa using hd2 n hn)
      · exact hnot (by simpa using hd3 n hn)

/-- inside one generator: a second sub-task with the same `basename:name`, a second plain task with the same
    `basename`, and a sub-task whose `basename` is already a plain (non-group) task are rejected as duplicated
    definitions; so are (dd215ad) a yielded Task object whose name is already defined and a `name: None` dict arriving
    for a name that is defined as a plain task (`rejects_group_attrs_over_plain`). -/
theorem rejects_duplicate_in_generator (tasks : Tasks) (d0 : TDict) (b : Name) (nv : RawVal) (nf bf : Name) :
    (∀ fn t, hasKey tasks t.name = true → yieldOne fn tasks (.task t) = .error .invalidTask) ∧
    (hasKey tasks (fullName (.str b) nv nf bf) = true →
      yieldSub tasks d0 (.str b) nv nf bf = .error .invalidTask) ∧
    (hasKey tasks b = true → yieldPlain tasks d0 (.str b) = .error .invalidTask ∨ b = []) ∧
    (∀ g full sub, lookup tasks b = some g → g.hasSubtask = false →
      attachSub tasks b full sub = .error .invalidTask) := by
  refine ⟨?_, ?_, ?_, ?_⟩
  · intro fn t h; simp [yieldOne, h]
  · intro h; simp [yieldSub, h]
  · intro h
    cases b with
    | nil => exact Or.inr rfl
    | cons x xs => left; simp [yieldPlain, RawVal.truthy, RawVal.hashable, h]
  · intro g full sub hg hs
    simp [attachSub, hg, hs]

/-- An accepted load implies, for every creator: its name is not a command name; a returned dict has no `name`,
    has `actions`, a string `basename` if any, and every other field is a known attribute whose value passes
    `Task.valid_attr`; a generator yields only dicts and Task objects, every yielded dict has `name` or `basename`,
    has `actions` (unless it carries group attributes) and only known, table-conforming fields; the result is never
    "something else".  (Contrapositive: unknown field, value rejected by the table, missing actions / name, `name`
    in a returned dict, a non-dict yield, a non-task result, a creator named like a command ⇒ not accepted.) -/
theorem accepted_results_valid (cmds : List Name) (cs : List Creator) (ts : List Task)
    (h : load cmds cs = .tasks ts) : ∀ c ∈ cs, c.name ∉ cmds ∧ ResultValid c.name c.result := by
  obtain ⟨ts0, hl, _⟩ := load_tasks_split cmds cs ts h
  obtain ⟨hcmd, hgen⟩ := loadTasks_ok cmds cs ts0 hl
  intro c hc
  refine ⟨hcmd c hc, ?_⟩
  obtain ⟨r, hr, _⟩ := generateAll_ok_mem cmds _ ts0 hgen c ((mem_sortByLine cs c).mpr hc)
  exact generate_ok c.name c.result r hr

/-- no accepted task other than a sub-task is named like a command — whether the name comes from the creator or from
    a `basename` (fix eeaaa80) -/
theorem rejects_command_names (cmds : List Name) (cs : List Creator) (ts : List Task)
    (h : load cmds cs = .tasks ts) : ∀ t ∈ ts, t.subtaskOf = none → t.name ∉ cmds := by
  obtain ⟨ts0, hl, hc⟩ := load_tasks_split cmds cs ts h
  obtain ⟨_, hgen⟩ := loadTasks_ok cmds cs ts0 hl
  obtain ⟨f, hf, hmap⟩ := control_extends ts0 ts hc
  intro t ht hsub
  rw [hmap] at ht
  obtain ⟨t0, ht0, rfl⟩ := List.mem_map.mp ht
  obtain ⟨hn, _, _, _, _, hs, _⟩ := hf t0
  rw [hn]
  exact generateAll_no_cmd cmds _ ts0 hgen t0 ht0 (by rw [← hs]; exact hsub)

/-- full statement about types: whatever `Task.__init__` lets through is an instance of a listed class or a listed
    literal of the literal's own type (`checkAttr`, type-exact since 5a43f74) -/
def rejects_wrong_type_full : Prop :=
  ∀ (a : Attr) (v : RawVal) (s : Spec), validAttr a = some s → checkAttr (effective a v) s = true → checkAttr v s = true

/-- Proved part: the only value that passes without being of a listed type / a listed literal is a falsy `getargs`
    (`getargs = getargs or {}` runs before the check).  Missing: exactly that (open finding coerced-getargs-falsy). -/
theorem rejects_wrong_type_partial (a : Attr) (v : RawVal) (s : Spec) (_hs : validAttr a = some s)
    (hc : checkAttr (effective a v) s = true) :
    checkAttr v s = true ∨ (a = .getargs ∧ v.truthy = false) := by
  unfold effective at hc
  by_cases ha : a = .getargs
  · by_cases ht : v.truthy = true
    · left; simpa [ha, ht] using hc
    · right; exact ⟨ha, by simpa using ht⟩
  · left; simpa [ha] using hc

/-- `getargs: False` passes -/
theorem rejects_wrong_type_counterexample : ¬ rejects_wrong_type_full := by
  intro h
  have := h .getargs (.bool false) ([.dict], []) (by decide) (by decide)
  revert this; decide

/-! ## accepted although the statement lists them as defects (open findings; replayed on the implementation) -/


/-- `getargs: False` is accepted (`verbosity: True` no longer is) -/
theorem accepts_coerced_getargs :
    load [] [⟨[102], 1, .dict (actionsOnly ++ [(.getargs, .bool false)])⟩] = .tasks [taskOf [102]] ∧
    load [] [⟨[102], 1, .dict (actionsOnly ++ [(.verbosity, .bool true)])⟩] = .invalidTask := by decide

/-- in a `name: None` dict the `actions` value is discarded unchecked -/
theorem accepts_group_actions_of_any_type :
    load [] [⟨[102], 1, .gen [.leaf (.dict [(.name, .none), (.actions, .int 5)] [] [])]⟩]
      = .tasks [{ taskOf [102] with hasSubtask := true }] := by decide

/-- a sub-task `name: 5` is formatted into `f:5` -/
theorem accepts_nonstr_subtask_name :
    load [] [⟨[102], 1, .gen [.leaf (.dict (actionsOnly ++ [(.name, .int 5)]) [53] [])]⟩]
      = .tasks [{ taskOf [102] with taskDep := [[102, 58, 53]], hasSubtask := true },
                { taskOf [102, 58, 53] with subtaskOf := some [102] }] := by decide

/-- the former silent replacements are duplicated definitions now: plain task `x` then `{'name': None, 'basename': 'x'}`,
    plain task `x` then a Task object `x` -/
theorem rejects_group_attrs_over_plain :
    load [] [⟨[102], 1, .gen [.leaf (.dict (actionsOnly ++ [(.basename, .str [120])]) [] []),
                              .leaf (.dict [(.name, .none), (.basename, .str [120])] [] [])]⟩] = .invalidTask ∧
    load [] [⟨[102], 1, .gen [.leaf (.dict (actionsOnly ++ [(.basename, .str [120]), (.targets, .list [[116]])]) [] []),
                              .leaf (.task (taskOf [120]))]⟩] = .invalidTask := by decide

/-! ## non-vacuity -/

/-- an accepted, non-trivial load: creator `g` (line 5) yields two sub-tasks, one nested; creator `a` (line 3, defined
    later in the namespace) is loaded first; `g:s` refers to `a` through getargs, `a` to `g*` through a wild-card -/
example :
    load [[108]] [⟨[103], 5, .gen [.leaf (.dict (actionsOnly ++ [(.name, .str [115]), (.getargs, .dict [([107], some [97])])]) [] []),
                                   .nested [.leaf (.dict (actionsOnly ++ [(.name, .str [116])]) [] [])]]⟩,
                  ⟨[97], 3, .dict (actionsOnly ++ [(.targets, .tuple [[111]])])⟩]
      = .tasks [{ taskOf [97] with targets := [[111]] },
                { taskOf [103] with taskDep := [[103, 58, 115], [103, 58, 116]], hasSubtask := true },
                { taskOf [103, 58, 115] with setupTasks := [[97]], subtaskOf := some [103] },
                { taskOf [103, 58, 116] with subtaskOf := some [103] }] := by
  decide

/-- task names are opaque: a sub-task named `*.py` is a plain `task_dep` of its group, in yield order (`*.py`, `b`);
    wild-card handling applies only to declared `task_dep` values -/
example :
    load [] [⟨[103], 1, .gen [.leaf (.dict (actionsOnly ++ [(.name, .str [42, 46, 112, 121])]) [] []),
                              .leaf (.dict (actionsOnly ++ [(.name, .str [98])]) [] [])]⟩]
      = .tasks [{ taskOf [103] with taskDep := [[103, 58, 42, 46, 112, 121], [103, 58, 98]], hasSubtask := true },
                { taskOf [103, 58, 42, 46, 112, 121] with subtaskOf := some [103] },
                { taskOf [103, 58, 98] with subtaskOf := some [103] }] := by decide

/-- each rejection class is reachable -/
example : load [] [⟨[102], 1, .dict (actionsOnly ++ [(.unknown, .int 1)])⟩] = .invalidTask ∧
    load [] [⟨[102], 1, .dict (actionsOnly ++ [(.task_dep, .list [[122]])])⟩] = .invalidTask ∧
    load [] [⟨[102], 1, .dict actionsOnly⟩, ⟨[102], 2, .dict actionsOnly⟩] = .invalidDodo ∧
    load [[102]] [⟨[102], 1, .dict actionsOnly⟩] = .invalidDodo := by decide

end DoitModel.C18
