import DoitModel.Proofs.Load
/-! # C18 — loading maps task-creators to a well-formed, validated task set -/
namespace DoitModel.C18
open DoitModel.Load

/-- an accepted task set has pairwise distinct names -/
theorem names_distinct (ts ts' : List Task) (h : Load.control ts = .ok ts') :
    nodupB (ts.map (·.name)) = true := by
  unfold Load.control at h
  by_cases hn : nodupB (ts.map (·.name)) = true
  · exact hn
  · simp [hn] at h

end DoitModel.C18
