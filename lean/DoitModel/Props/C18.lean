import DoitModel.Proofs.LoadGroups3
import DoitModel.Proofs.LoadOrder
/-! # C18 — loading maps task-creators to a well-formed, validated task set

Property theorems only (model: `Model/Load.lean`; helpers: `Proofs/Load*.lean`).
Quantification: every list of command names, every namespace of creators (any number, any definition lines), each
returning a dict, a generator (arbitrarily nested) of dicts / Task objects / other values, a Task object, `None` or
something else; every task dict over the attribute vocabulary with values of any top-level type.
`load` = `loader.load_tasks` followed by `TaskControl(task_list)`. -/
namespace DoitModel.C18
open DoitModel.Load

/-! ## totality: never an internal exception -/

/-- full statement: loading never ends in an exception other than InvalidTask / InvalidDodoFile -/
def total_full : Prop := ∀ (cmds : List Name) (cs : List Creator) (e : Exn), load cmds cs ≠ .crash e

/-- Proved part: an internal exception can only come from one of three characterised shapes of a task dict
    (`Safe`: no `clean` equal to `True` that is a number; no non-empty tuple `uptodate` together with a non-empty
    `getargs`; no truthy unhashable `basename` in a yielded dict).  Missing for `total_full`: exactly these three
    shapes, which do crash the current code (open findings crash-clean-eq-true, crash-uptodate-tuple-getargs,
    crash-unhashable-basename; counterexample theorems below). -/
theorem total_partial (cmds : List Name) (cs : List Creator) (hs : Safe cs = true) (e : Exn) :
    load cmds cs ≠ .crash e := by
  intro h
  have := load_crash cmds cs e h
  rw [hs] at this
  cases this

def actionsOnly : TDict := [(.actions, .list [[97]])]

/-- `clean: 1` — passes `check_attr` because `1 == True`, then `for a in clean` raises TypeError -/
theorem total_counterexample : ¬ total_full := by
  intro h
  exact h [] [⟨[102], 1, .dict (actionsOnly ++ [(.clean, .int 1)])⟩] .typeError (by decide)

theorem crash_clean_float :
    load [] [⟨[102], 1, .dict (actionsOnly ++ [(.clean, .float 2)])⟩] = .crash .typeError := by decide

/-- `uptodate: ('u',)` with `getargs: {'k': ('x', …)}`: `uptodate.extend` raises AttributeError -/
theorem crash_uptodate_tuple_getargs :
    load [] [⟨[120], 1, .dict actionsOnly⟩,
             ⟨[102], 2, .dict (actionsOnly ++ [(.uptodate, .tuple [[117]]), (.getargs, .dict [([107], some [120])])])⟩]
      = .crash .attributeError := by decide

/-- a yielded dict with `basename: ['x']`: `basename in tasks` raises TypeError (unhashable) -/
theorem crash_unhashable_basename :
    load [] [⟨[102], 1, .gen [.leaf (.dict (actionsOnly ++ [(.basename, .list [[120]])]) [] [])]⟩]
      = .crash .typeError := by decide

/-! ## well-formedness of an accepted task set -/

def RefsExist (ts : List Task) : Prop :=
  ∀ t ∈ ts, (∀ n ∈ t.taskDep, n ∈ ts.map (·.name)) ∧ (∀ n ∈ t.setupTasks, n ∈ ts.map (·.name)) ∧
    (∀ n ∈ t.calcDep, n ∈ ts.map (·.name))

def wellformed_full : Prop :=
  ∀ (cmds : List Name) (cs : List Creator) (ts : List Task), load cmds cs = .tasks ts →
    (ts.map (·.name)).Nodup ∧ RefsExist ts ∧ (ts.flatMap (·.targets)).Nodup ∧ GroupsWF ts

/-- Proved part of `wellformed_full`, for every input: names pairwise distinct, every name in `task_dep`
    (after wild-card expansion and implicit dependencies), `setup_tasks` (which include the `getargs` tasks, see
    `references_are_checked`) and `calc_dep` is the name of a loaded task, targets pairwise distinct.
    Missing: `GroupsWF` (every sub-task attached to a group task that depends on all its sub-tasks in yield order;
    `Proofs/LoadGroups3.lean`) — proved under `Tidy` in `wellformed_groups_partial`, false on the current code when a
    generator yields a `name: None` dict or a Task object whose name it has already defined (open finding
    yield-replaces-task, `wellformed_counterexample`). -/
theorem wellformed_partial (cmds : List Name) (cs : List Creator) (ts : List Task) (h : load cmds cs = .tasks ts) :
    (ts.map (·.name)).Nodup ∧ RefsExist ts ∧ (ts.flatMap (·.targets)).Nodup := by
  obtain ⟨ts0, _, hc⟩ := load_tasks_split cmds cs ts h
  obtain ⟨h1, h2, h3, hts⟩ := control_ok ts0 ts hc
  obtain ⟨f, hf, hmap⟩ := control_extends ts0 ts hc
  have hnames : ts.map (·.name) = ts0.map (·.name) := by rw [hmap]; exact map_extends_names ts0 f hf
  refine ⟨?_, ?_, ?_⟩
  · rw [hnames]; exact (nodupB_iff _).mp h1
  · intro t ht
    rw [hnames]
    rw [hts] at ht
    obtain ⟨t1, ht1, rfl⟩ := List.mem_map.mp ht
    have hd := List.all_eq_true.mp h2 t1 ht1
    simp only [depsExist, Bool.and_eq_true, List.all_eq_true] at hd
    obtain ⟨⟨hd1, hd2⟩, hd3⟩ := hd
    refine ⟨?_, ?_, ?_⟩
    · intro n hn
      simp only [addImplicit, List.mem_append] at hn
      rcases hn with hn | hn
      · simpa using hd1 n hn
      · have := implicitDeps_mem _ _ _ n hn
        rw [List.map_map] at this
        have hcomp : (List.map ((fun x => x.name) ∘ expandWild (ts0.map (·.name))) ts0) = ts0.map (·.name) := by
          apply List.map_congr_left; intro a _; rfl
        rwa [hcomp] at this
    · intro n hn; simpa using hd2 n hn
    · intro n hn; simpa using hd3 n hn
  · have : ts.flatMap (·.targets) = (ts0.map (expandWild (ts0.map (·.name)))).flatMap (·.targets) := by
      rw [hts]
      exact map_extends_targets _ _ (fun t => extends_addImplicit _ t)
    rw [this]
    exact (nodupB_iff _).mp h3


/-- Proved part of the group clause: when no generator replaces a task it has already defined and the Task objects
    handed over by creators are not marked as sub-task / group by hand (`Tidy`, decidable), every `basename:name`
    sub-task of an accepted load is attached to a group task named `basename` with `has_subtask`, and the sub-tasks of
    that group, in yield order, form a subsequence of the group's `task_dep`.
    Missing for the full clause: exactly the replacing yields (`wellformed_counterexample`). -/
theorem wellformed_groups_partial (cmds : List Name) (cs : List Creator) (ts : List Task) (ht : Tidy cs = true)
    (h : load cmds cs = .tasks ts) : GroupsWF ts := by
  obtain ⟨ts0, hl, hc⟩ := load_tasks_split cmds cs ts h
  obtain ⟨_, hgen⟩ := loadTasks_ok cmds cs ts0 hl
  obtain ⟨h1, _, _, _⟩ := control_ok ts0 ts hc
  obtain ⟨f, hf, hmap⟩ := control_extends ts0 ts hc
  rw [hmap]
  apply groupsWF_map_extends ts0 f hf
  apply generateAll_groupsWF (sortByLine cs) ts0 _ hgen ((nodupB_iff _).mp h1)
  intro c hc'
  have := List.all_eq_true.mp (by simpa [Tidy] using ht) c ((mem_sortByLine cs c).mp hc')
  exact this

/-- definition order: the loaded task names are the concatenation of the creators' own task lists, creators taken
    in the order of their definition lines -/
theorem definition_order (cmds : List Name) (cs : List Creator) (ts : List Task) (h : load cmds cs = .tasks ts) :
    ∃ parts, PartsOf (sortByLine cs) parts ∧ ts.map (·.name) = parts.flatten.map (·.name) := by
  obtain ⟨ts0, hl, hc⟩ := load_tasks_split cmds cs ts h
  obtain ⟨_, hgen⟩ := loadTasks_ok cmds cs ts0 hl
  obtain ⟨parts, hp, hflat⟩ := generateAll_parts _ ts0 hgen
  obtain ⟨f, hf, hmap⟩ := control_extends ts0 ts hc
  exact ⟨parts, hp, by rw [hmap, map_extends_names ts0 f hf, hflat]⟩

/-- `sortByLine` is a stable sort by definition line: a permutation, ascending, and creators defined on the same
    line keep their namespace order -/
theorem creators_sorted_stably (cs : List Creator) :
    (sortByLine cs).Perm cs ∧ SortedByLine (sortByLine cs) ∧
    ∀ n, (sortByLine cs).filter (fun c => c.line == n) = cs.filter (fun c => c.line == n) :=
  ⟨sortByLine_perm cs, sortByLine_sorted cs, sortByLine_stable cs⟩

/-- inside one generator the tasks come in yield order, a group task standing where its first sub-task (or its
    attribute dict) was yielded: `f`, `f:b`, `f:a` for yields `b`, `a` -/
example :
    load [] [⟨[102], 1, .gen [.leaf (.dict (actionsOnly ++ [(.name, .str [98])]) [] []),
                              .leaf (.dict (actionsOnly ++ [(.name, .str [97])]) [] [])]⟩]
      = .tasks [{ name := [102], taskDep := [[102, 58, 98], [102, 58, 97]], wildDep := [], setupTasks := [],
                  calcDep := [], targets := [], fileDep := [], subtaskOf := none, hasSubtask := true },
                { name := [102, 58, 98], taskDep := [], wildDep := [], setupTasks := [], calcDep := [], targets := [],
                  fileDep := [], subtaskOf := some [102], hasSubtask := false },
                { name := [102, 58, 97], taskDep := [], wildDep := [], setupTasks := [], calcDep := [], targets := [],
                  fileDep := [], subtaskOf := some [102], hasSubtask := false }] ∧
    Tidy [⟨[102], 1, .gen [.leaf (.dict (actionsOnly ++ [(.name, .str [98])]) [] []),
                           .leaf (.dict (actionsOnly ++ [(.name, .str [97])]) [] [])]⟩] = true := by decide

/-- a generator yields sub-task `s`, then `{'name': None}`: the group task is replaced and no longer depends on `f:s` -/
theorem wellformed_counterexample : ¬ wellformed_full := by
  intro h
  have := (h [] [⟨[102], 1, .gen [.leaf (.dict (actionsOnly ++ [(.name, .str [115])]) [] []),
                                   .leaf (.dict [(.name, .none)] [] [])]⟩]
    [{ name := [102], taskDep := [], wildDep := [], setupTasks := [], calcDep := [], targets := [], fileDep := [],
       subtaskOf := none, hasSubtask := true },
     { name := [102, 58, 115], taskDep := [], wildDep := [], setupTasks := [], calcDep := [], targets := [],
       fileDep := [], subtaskOf := some [102], hasSubtask := false }] (by decide)).2.2.2
  obtain ⟨g, hg, hname, _, hsub⟩ := this _ (List.mem_cons_of_mem _ (List.mem_singleton.mpr rfl)) [102] rfl
  simp only [List.mem_cons, List.mem_singleton, List.not_mem_nil, or_false] at hg
  rcases hg with rfl | rfl
  · revert hsub; decide
  · revert hname; decide

/-- the task names a dict mentions in `task_dep` (no `*`), `setup`, `calc_dep` and `getargs` all end up in the fields
    that `TaskControl` checks (`RefsExist`), so a dangling reference of any of the four kinds is rejected -/
theorem references_are_checked (d : TDict) (t : Task) (h : dictToTask d = .ok t) :
    (∀ n ∈ seqItems (get d .task_dep), n.contains chStar = false → n ∈ t.taskDep) ∧
    (∀ n ∈ seqItems (get d .setup), n ∈ t.setupTasks) ∧
    (∀ n ∈ seqItems (get d .calc_dep), n ∈ t.calcDep) ∧
    (∀ e ∈ getargsEntries (get d .getargs), ∀ tk, e.2 = some tk → tk ∈ t.setupTasks) ∧
    t.targets = seqItems (get d .targets) :=
  dictToTask_refs d t h

/-! ## rejection of the listed defects -/

/-- duplicate task names, a dangling `task_dep` / `setup` / `calc_dep` (hence `getargs`) name, or a target claimed
    twice: `TaskControl` refuses the task list with InvalidDodoFile / InvalidTask -/
theorem rejects_at_control (ts : List Task)
    (hdef : ¬ (ts.map (·.name)).Nodup ∨ ¬ (ts.flatMap (·.targets)).Nodup ∨
      (∃ t ∈ ts, ∃ n, (n ∈ t.taskDep ∨ n ∈ t.setupTasks ∨ n ∈ t.calcDep) ∧ n ∉ ts.map (·.name))) :
    control ts = .error .invalidDodo ∨ control ts = .error .invalidTask := by
  cases hc : control ts with
  | error e =>
    cases e with
    | invalidTask => exact Or.inr rfl
    | invalidDodo => exact Or.inl rfl
    | crash e' => exact absurd hc (control_no_crash ts e')
  | ok ts' =>
    exfalso
    obtain ⟨h1, h2, h3, _⟩ := control_ok ts ts' hc
    rcases hdef with hd | hd | ⟨t, ht, n, hn, hnot⟩
    · exact hd ((nodupB_iff _).mp h1)
    · apply hd
      have : (ts.map (expandWild (ts.map (·.name)))).flatMap (·.targets) = ts.flatMap (·.targets) :=
        map_extends_targets _ _ (fun t => extends_expandWild _ t)
      rw [← this]
      exact (nodupB_iff _).mp h3
    · have hd := List.all_eq_true.mp h2 (expandWild (ts.map (·.name)) t) (List.mem_map_of_mem ht)
      simp only [depsExist, Bool.and_eq_true, List.all_eq_true] at hd
      obtain ⟨⟨hd1, hd2⟩, hd3⟩ := hd
      rcases hn with hn | hn | hn
      · exact hnot (by simpa using hd1 n (by simp [expandWild, hn]))
      · exact hnot (by simpa using hd2 n hn)
      · exact hnot (by simpa using hd3 n hn)

/-- inside one generator: a second sub-task with the same `basename:name`, a second plain task with the same
    `basename`, and a sub-task whose `basename` is already a plain (non-group) task are rejected as duplicated
    definitions.  (Not covered, and false on the current code: a `name: None` dict or a Task object arriving for a name
    that is already defined — `accepts_replaced_duplicate`, `wellformed_counterexample`.) -/
theorem rejects_duplicate_in_generator (tasks : Tasks) (d0 : TDict) (b : Name) (nv : RawVal) (nf bf : Name) :
    (hasKey tasks (fullName (.str b) nv nf bf) = true →
      yieldSub tasks d0 (.str b) nv nf bf = .error .invalidTask) ∧
    (hasKey tasks b = true → yieldPlain tasks d0 (.str b) = .error .invalidTask ∨ b = []) ∧
    (∀ g full sub, lookup tasks b = some g → g.hasSubtask = false →
      attachSub tasks b full sub = .error .invalidTask) := by
  refine ⟨?_, ?_, ?_⟩
  · intro h; simp [yieldSub, h]
  · intro h
    cases b with
    | nil => exact Or.inr rfl
    | cons x xs => left; simp [yieldPlain, RawVal.truthy, RawVal.hashable, h]
  · intro g full sub hg hs
    simp [attachSub, hg, hs]

/-- An accepted load implies, for every creator: its name is not a command name; a returned dict has no `name`,
    has `actions`, a string `basename` if any, and every other field is a known attribute whose value passes
    `Task.valid_attr`; a generator yields only dicts and Task objects, every yielded dict has `name` or `basename`,
    has `actions` (unless it carries group attributes) and only known, table-conforming fields; the result is never
    "something else".  (Contrapositive: unknown field, value rejected by the table, missing actions / name, `name`
    in a returned dict, a non-dict yield, a non-task result, a creator named like a command ⇒ not accepted.) -/
theorem accepted_results_valid (cmds : List Name) (cs : List Creator) (ts : List Task)
    (h : load cmds cs = .tasks ts) : ∀ c ∈ cs, c.name ∉ cmds ∧ ResultValid c.name c.result := by
  obtain ⟨ts0, hl, _⟩ := load_tasks_split cmds cs ts h
  obtain ⟨hcmd, hgen⟩ := loadTasks_ok cmds cs ts0 hl
  intro c hc
  refine ⟨hcmd c hc, ?_⟩
  obtain ⟨r, hr, _⟩ := generateAll_ok_mem _ ts0 hgen c ((mem_sortByLine cs c).mpr hc)
  exact generate_ok c.name c.result r hr

/-- the typed reading of `Task.valid_attr`: instance of a listed class, or a listed literal *of the literal's type* -/
def typedLit : RawVal → Lit → Bool
  | .none, .none => true
  | .bool true, .true => true
  | .int m, .int n => m == (n : Int)
  | _, _ => false

def typedOk (v : RawVal) (s : Spec) : Bool := s.1.any v.isInstance || s.2.any (typedLit v)

/-- full statement about types: whatever passes `check_attr` is of a listed type / is a listed literal -/
def rejects_wrong_type_full : Prop :=
  ∀ (a : Attr) (v : RawVal) (s : Spec), validAttr a = some s → checkAttr (effective a v) s = true → typedOk v s = true

/-- Proved part: a value that passes `check_attr` without being of a listed type is a bool / int / float that is
    `==` to a listed literal, or a falsy `getargs`.  Missing: these coercions are accepted by the current code
    (open findings coerced-verbosity, coerced-getargs-falsy, crash-clean-eq-true). -/
theorem rejects_wrong_type_partial (a : Attr) (v : RawVal) (s : Spec) (hs : validAttr a = some s)
    (hc : checkAttr (effective a v) s = true) :
    typedOk v s = true ∨ (a = .getargs ∧ v.truthy = false) ∨
      (∃ b, v = .bool b) ∨ (∃ n, v = .int n) ∨ (∃ q, v = .float q) := by
  cases v with
  | bool b => exact Or.inr (Or.inr (Or.inl ⟨b, rfl⟩))
  | int n => exact Or.inr (Or.inr (Or.inr (Or.inl ⟨n, rfl⟩)))
  | float q => exact Or.inr (Or.inr (Or.inr (Or.inr ⟨q, rfl⟩)))
  | none =>
    cases a <;> simp [validAttr, specOf, modelValidAttr] at hs <;> subst hs <;>
      simp_all [checkAttr, typedOk, effective, RawVal.isInstance, RawVal.eqLit, typedLit, RawVal.truthy]
  | str x =>
    cases a <;> simp [validAttr, specOf, modelValidAttr] at hs <;> subst hs <;>
      simp_all [checkAttr, typedOk, effective, RawVal.isInstance, RawVal.eqLit, typedLit, RawVal.truthy] <;>
      (by_cases hx : x = [] <;> simp_all)
  | list x =>
    cases a <;> simp [validAttr, specOf, modelValidAttr] at hs <;> subst hs <;>
      simp_all [checkAttr, typedOk, effective, RawVal.isInstance, RawVal.eqLit, typedLit, RawVal.truthy] <;>
      (by_cases hx : x = [] <;> simp_all)
  | tuple x =>
    cases a <;> simp [validAttr, specOf, modelValidAttr] at hs <;> subst hs <;>
      simp_all [checkAttr, typedOk, effective, RawVal.isInstance, RawVal.eqLit, typedLit, RawVal.truthy] <;>
      (by_cases hx : x = [] <;> simp_all)
  | dict x =>
    cases a <;> simp [validAttr, specOf, modelValidAttr] at hs <;> subst hs <;>
      simp_all [checkAttr, typedOk, effective, RawVal.isInstance, RawVal.eqLit, typedLit, RawVal.truthy]
  | callable =>
    cases a <;> simp [validAttr, specOf, modelValidAttr] at hs <;> subst hs <;>
      simp_all [checkAttr, typedOk, effective, RawVal.isInstance, RawVal.eqLit, typedLit, RawVal.truthy]
  | object =>
    cases a <;> simp [validAttr, specOf, modelValidAttr] at hs <;> subst hs <;>
      simp_all [checkAttr, typedOk, effective, RawVal.isInstance, RawVal.eqLit, typedLit, RawVal.truthy]

/-- `verbosity: True` passes the table (`True == 1`) -/
theorem rejects_wrong_type_counterexample : ¬ rejects_wrong_type_full := by
  intro h
  have := h .verbosity (.bool true) ([], [.none, .int 0, .int 1, .int 2]) (by decide) (by decide)
  revert this; decide

/-! ## accepted although the statement lists them as defects (open findings; replayed on the implementation) -/

def taskOf (nm : Name) : Task :=
  { name := nm, taskDep := [], wildDep := [], setupTasks := [], calcDep := [], targets := [], fileDep := [],
    subtaskOf := none, hasSubtask := false }

/-- a returned dict with `basename: 'list'` is accepted although `list` is a command name -/
theorem accepts_command_name_as_basename :
    load [[108, 105, 115, 116]] [⟨[102], 1, .dict (actionsOnly ++ [(.basename, .str [108, 105, 115, 116])])⟩]
      = .tasks [taskOf [108, 105, 115, 116]] := by decide

/-- `verbosity: True`, `getargs: False` are accepted -/
theorem accepts_coerced_values :
    load [] [⟨[102], 1, .dict (actionsOnly ++ [(.verbosity, .bool true), (.getargs, .bool false)])⟩]
      = .tasks [taskOf [102]] := by decide

/-- a sub-task `name: 5` is formatted into `f:5` -/
theorem accepts_nonstr_subtask_name :
    load [] [⟨[102], 1, .gen [.leaf (.dict (actionsOnly ++ [(.name, .int 5)]) [53] [])]⟩]
      = .tasks [{ taskOf [102] with taskDep := [[102, 58, 53]], hasSubtask := true },
                { taskOf [102, 58, 53] with subtaskOf := some [102] }] := by decide

/-- a yielded Task object named like an earlier task of the same generator replaces it: one task, no error -/
theorem accepts_replaced_duplicate :
    load [] [⟨[102], 1, .gen [.leaf (.dict (actionsOnly ++ [(.basename, .str [120]), (.targets, .list [[116]])]) [] []),
                             .leaf (.task (taskOf [120]))]⟩]
      = .tasks [taskOf [120]] := by decide

/-! ## non-vacuity -/

/-- an accepted, non-trivial load: creator `g` (line 5) yields two sub-tasks, one nested; creator `a` (line 3, defined
    later in the namespace) is loaded first; `g:s` refers to `a` through getargs, `a` to `g*` through a wild-card -/
example :
    load [[108]] [⟨[103], 5, .gen [.leaf (.dict (actionsOnly ++ [(.name, .str [115]), (.getargs, .dict [([107], some [97])])]) [] []),
                                   .nested [.leaf (.dict (actionsOnly ++ [(.name, .str [116])]) [] [])]]⟩,
                  ⟨[97], 3, .dict (actionsOnly ++ [(.targets, .tuple [[111]])])⟩]
      = .tasks [{ taskOf [97] with targets := [[111]] },
                { taskOf [103] with taskDep := [[103, 58, 115], [103, 58, 116]], hasSubtask := true },
                { taskOf [103, 58, 115] with setupTasks := [[97]], subtaskOf := some [103] },
                { taskOf [103, 58, 116] with subtaskOf := some [103] }] ∧
    Safe [⟨[103], 5, .gen [.leaf (.dict (actionsOnly ++ [(.name, .str [115]), (.getargs, .dict [([107], some [97])])]) [] [])]⟩] = true := by
  decide

/-- each rejection class is reachable -/
example : load [] [⟨[102], 1, .dict (actionsOnly ++ [(.unknown, .int 1)])⟩] = .invalidTask ∧
    load [] [⟨[102], 1, .dict (actionsOnly ++ [(.task_dep, .list [[122]])])⟩] = .invalidTask ∧
    load [] [⟨[102], 1, .dict actionsOnly⟩, ⟨[102], 2, .dict actionsOnly⟩] = .invalidDodo ∧
    load [[102]] [⟨[102], 1, .dict actionsOnly⟩] = .invalidDodo := by decide

end DoitModel.C18
