import DoitModel.Proofs.KV
/-! # C07 — all DB backends behave as the same persistent key-value map

Property theorems only (helpers: `Proofs/KV.lean`, model: `Model/KV.lean`).
Quantification: every backend, every finite sequence of `set/get/in_/remove/remove_all/reopen`
(any number of sessions), every starting file content. -/
namespace DoitModel.C07
open DoitModel.KV

/-- the full statement: a backend opened on any persisted content answers every operation sequence
    exactly as the specification map holding that content, and ends holding what the map holds -/
def Refines {S : Type} (step : S → Op → S × Out) (opn : Map → S) (abs : S → Map) : Prop :=
  ∀ (file : Map) (ops : List Op),
    (runWith step (opn file) ops).2 = (runWith specStep file ops).2 ∧
    abs (runWith step (opn file) ops).1 = (runWith specStep file ops).1

theorem refines_json : Refines jsonStep jsonOpen jsonAbs := by
  intro file ops
  have := runWith_refines jsonStep (fun _ => True) jsonAbs
    (fun s op h => json_step_refines s op h) ops (jsonOpen file) trivial
  exact ⟨this.1, this.2.1⟩

theorem refines_dbm : Refines dbmStep dbmOpen dbmAbs := by
  intro file ops
  have := runWith_refines dbmStep DbmWf dbmAbs dbm_step_refines ops (dbmOpen file) (dbmOpen_wf file)
  rw [dbmOpen_abs] at this
  exact ⟨this.1, this.2.1⟩

theorem refines_sqlite : Refines sqlStep sqlOpen sqlAbs := by
  intro file ops
  have := runWith_refines sqlStep SqlWf sqlAbs sql_step_refines ops (sqlOpen file) (sqlOpen_wf file)
  rw [sqlOpen_abs] at this
  exact ⟨this.1, this.2.1⟩

/-- the three backends are observationally indistinguishable (from an empty file, any op sequence) -/
theorem indistinguishable (b1 b2 : Backend) (ops : List Op) : outputs b1 ops = outputs b2 ops := by
  have hj := (refines_json Map.empty ops).1
  have hd := (refines_dbm Map.empty ops).1
  have hs := (refines_sqlite Map.empty ops).1
  cases b1 <;> cases b2 <;> simp only [outputs] <;> simp_all

/-- what a session stored is what the next session reads: `reopen` is invisible -/
theorem reopen_invisible (b : Backend) (pre post : List Op) :
    outputs b (pre ++ [Op.reopen] ++ post) = (specOutputs pre) ++ [Out.unit] ++
      ((runWith specStep (runWith specStep Map.empty pre).1 post).2) := by
  have key : ∀ (m : Map) (xs ys : List Op),
      (runWith specStep m (xs ++ ys)).2 = (runWith specStep m xs).2 ++ (runWith specStep (runWith specStep m xs).1 ys).2 := by
    intro m xs ys
    unfold runWith
    suffices ∀ (acc : List Out),
        (List.foldl (fun (st : Map × List Out) op => ((specStep st.1 op).1, st.2 ++ [(specStep st.1 op).2])) (m, acc) (xs ++ ys)).2 =
        (List.foldl (fun (st : Map × List Out) op => ((specStep st.1 op).1, st.2 ++ [(specStep st.1 op).2])) (m, acc) xs).2 ++
        (List.foldl (fun (st : Map × List Out) op => ((specStep st.1 op).1, st.2 ++ [(specStep st.1 op).2]))
          ((List.foldl (fun (st : Map × List Out) op => ((specStep st.1 op).1, st.2 ++ [(specStep st.1 op).2])) (m, acc) xs).1, []) ys).2
      from this []
    induction xs generalizing m with
    | nil =>
      intro acc
      simp only [List.nil_append, List.foldl_nil]
      suffices ∀ (m : Map) (a b : List Out),
          (List.foldl (fun (st : Map × List Out) op => ((specStep st.1 op).1, st.2 ++ [(specStep st.1 op).2])) (m, a ++ b) ys).2 =
          a ++ (List.foldl (fun (st : Map × List Out) op => ((specStep st.1 op).1, st.2 ++ [(specStep st.1 op).2])) (m, b) ys).2
        by simpa using this m acc []
      intro m a b
      induction ys generalizing m b with
      | nil => simp
      | cons y ys ih => simp only [List.foldl_cons, List.append_assoc]; exact ih _ _
    | cons x xs ih => intro acc; simp only [List.cons_append, List.foldl_cons]; exact ih _ _
  have hspec : outputs b (pre ++ [Op.reopen] ++ post) = specOutputs (pre ++ [Op.reopen] ++ post) := by
    cases b
    · exact (refines_json Map.empty _).1
    · exact (refines_dbm Map.empty _).1
    · exact (refines_sqlite Map.empty _).1
  rw [hspec]
  unfold specOutputs
  rw [key, key]
  have h1 : (runWith specStep (runWith specStep Map.empty pre).1 [Op.reopen]).2 = [Out.unit] := by
    simp [runWith, specStep]
  have h2 : (runWith specStep Map.empty (pre ++ [Op.reopen])).1 = (runWith specStep Map.empty pre).1 := by
    simp [runWith, specStep]
  rw [h1, h2]

/-- removed tasks never reappear: after `remove t` (and anything that does not `set t`), `in_ t` is false -/
theorem removed_stays_removed (b : Backend) (pre mid : List Op) (t : T)
    (hmid : ∀ op ∈ mid, ∀ k v, op ≠ Op.set t k v) :
    (outputs b (pre ++ [Op.remove t] ++ mid ++ [Op.has t])).getLast? = some (Out.bool false) := by
  have hspec : outputs b (pre ++ [Op.remove t] ++ mid ++ [Op.has t]) =
      specOutputs (pre ++ [Op.remove t] ++ mid ++ [Op.has t]) := by
    cases b
    · exact (refines_json Map.empty _).1
    · exact (refines_dbm Map.empty _).1
    · exact (refines_sqlite Map.empty _).1
  rw [hspec]
  unfold specOutputs runWith
  simp only [List.foldl_append, List.foldl_cons, List.foldl_nil]
  have := spec_absent_preserved mid t hmid
    ((specStep (List.foldl (fun (st : Map × List Out) op => ((specStep st.1 op).1, st.2 ++ [(specStep st.1 op).2])) (Map.empty, []) pre).1 (Op.remove t)).1)
    ((List.foldl (fun (st : Map × List Out) op => ((specStep st.1 op).1, st.2 ++ [(specStep st.1 op).2])) (Map.empty, []) pre).2 ++ [(specStep (List.foldl (fun (st : Map × List Out) op => ((specStep st.1 op).1, st.2 ++ [(specStep st.1 op).2])) (Map.empty, []) pre).1 (Op.remove t)).2])
    (by simp [specStep, Map.upd])
  revert this
  generalize (List.foldl (fun (st : Map × List Out) op => ((specStep st.1 op).1, st.2 ++ [(specStep st.1 op).2])) _ mid) = M
  intro this
  simp [specStep, this]

/-! ## non-vacuity and the pinned behaviour -/

/-- a non-trivial sequence really exercises set-after-reopen on every backend -/
example : outputs .dbm [.set 0 1 10, .reopen, .set 0 2 20, .get 0 1, .has 0, .remove 0, .reopen, .has 0]
    = [.unit, .unit, .unit, .val (some 10), .bool true, .unit, .unit, .bool false] := by decide

example : outputs .sqlite [.get 7 1, .has 7, .set 7 1 5, .reopen, .get 7 1]
    = [.val none, .bool false, .unit, .unit, .val (some 5)] := by decide

/-- F-C07a (fixed in /repo): the pinned `DbmDB.set` on a stored-but-unread task hid its other keys -/
theorem pinned_dbm_counterexample :
    (runWith dbmStepPinned (dbmOpen Map.empty) [.set 0 1 10, .reopen, .set 0 2 20, .reopen, .get 0 1]).2
      ≠ specOutputs [.set 0 1 10, .reopen, .set 0 2 20, .reopen, .get 0 1] := by decide

/-- F-C07a/b (fixed in /repo): same for the pinned SqliteDB, and `get` of a missing task made `in_` true -/
theorem pinned_sqlite_counterexample :
    (runWith sqlStepPinned (sqlOpen Map.empty) [.get 0 1, .has 0]).2 ≠ specOutputs [.get 0 1, .has 0] ∧
    (runWith sqlStepPinned (sqlOpen Map.empty) [.set 0 1 10, .reopen, .set 0 2 20, .get 0 1]).2
      ≠ specOutputs [.set 0 1 10, .reopen, .set 0 2 20, .get 0 1] := by decide

end DoitModel.C07
