import DoitModel.Proofs.Sel
/-! # C12 — task selection yields exactly the requested closure -/
namespace DoitModel.C12
open DoitModel.Sel

/-- `default`: no positional argument ⇒ `default_tasks` when configured, else all tasks in definition order -/
theorem default_selection (ts : List Task) (dflt : Option (List Tok)) :
    process ts (selArgs [] dflt) = match dflt with
      | none => .ok (names ts)
      | some d => filterTasks ts d := by
  cases dflt <;> rfl

end DoitModel.C12
