import DoitModel.Proofs.Sel
import DoitModel.Proofs.SelSingle
import DoitModel.Proofs.SelClosure
import DoitModel.Proofs.SelClosed
import DoitModel.Proofs.C12Order
import DoitModel.Proofs.C12Examples
/-! # C12 — task selection yields exactly the requested closure

Property theorems only (model: `Model/Sel.lean`; lemmas: `Proofs/Sel.lean`, `Proofs/SelSingle.lean`,
`Proofs/SelClosure.lean`, `Proofs/SelClosed.lean`; the order clause on the run model M1: `Proofs/C12*.lean`).  Quantification: every task set, every argument list, with / without `default_tasks`,
with / without `--single`.  Strings are `List Char`; patterns are the whole of `fnmatch` (`*`, `?`, bracket classes, literals). -/
namespace DoitModel.C12
open DoitModel.Sel

/-! ## patterns -/

/-- **glob_spec_full**: the model of `fnmatch` decides the declarative matching relation `Matches` — `*`, `?`, bracket
    classes as CPython 3.12's `fnmatch.translate` delimits (`splitClass`) and reads (`inClass`) them, an unclosed `[` and
    all other characters literal — for every pattern and every string -/
theorem glob_spec_full (p s : Tok) : glob p s = true ↔ Matches p s := glob_iff_matches p s

example : glob "[!a-c]x[]]*".toList "dx]yz".toList = true ∧ glob "[!a-c]x".toList "bx".toList = false := by decide

/-- a pattern without `[` means what it meant before classes were modelled: `*` any string, `?` any one character,
    everything else itself -/
theorem glob_spec (p s : Tok) (h : '[' ∉ p) : glob p s = true ↔ GlobMatch p s := glob_iff p s h

example : glob "a*?".toList "abc".toList = true ∧ GlobMatch "a*?".toList "abc".toList := by
  refine ⟨by decide, (glob_spec _ _ (by decide)).1 (by decide)⟩

/-- consecutive `*` mean what one `*` means (`fnmatch.translate` compresses them before it builds the expression) -/
theorem star_star (p s : Tok) : glob ('*' :: '*' :: p) s = glob ('*' :: p) s := by
  have h : Matches ('*' :: '*' :: p) s ↔ Matches ('*' :: p) s := by
    constructor
    · intro h
      cases h with
      | star _ pre1 s1 _ he1 h1 =>
        cases h1 with
        | star _ pre2 s2 _ he2 h2 =>
          exact Matches.star p (pre1 ++ pre2) s2 _ (by rw [he1, he2, List.append_assoc]) h2
        | lit _ _ _ hne => exact absurd rfl hne
      | lit _ _ _ hne => exact absurd rfl hne
    · intro h
      exact Matches.star _ [] s _ rfl h
  have := (glob_iff_matches ('*' :: '*' :: p) s).trans (h.trans (glob_iff_matches ('*' :: p) s).symm)
  cases h1 : glob ('*' :: '*' :: p) s <;> cases h2 : glob ('*' :: p) s <;> simp_all

example : glob "a**b".toList "axyb".toList = true := by decide

/-- a `[` with no `]` after it (other than one right behind it or behind `[!`) is an ordinary character, and the
    characters after it are read as pattern characters again -/
theorem unclosed_bracket_literal (p s : Tok) (h : splitClass p = none) :
    Matches ('[' :: p) s ↔ ∃ s', s = '[' :: s' ∧ Matches p s' := by
  constructor
  · intro hm
    cases hm with
    | cls _ _ _ _ _ hs => rw [h] at hs; cases hs
    | openLit _ s' _ hm => exact ⟨s', rfl, hm⟩
    | lit _ _ _ _ _ hne => exact absurd rfl hne
  · rintro ⟨s', rfl, hm⟩; exact Matches.openLit p s' h hm

example : splitClass "]a*".toList = none ∧ splitClass "!]".toList = none ∧ glob "[]a*".toList "[]abc".toList = true := by
  decide

/-- a class without hyphen and without leading `!` is the set of its characters (backslash included: nothing escapes) -/
theorem class_plain (body : Tok) (d : Char) (h1 : '-' ∉ body) (h2 : body.head? ≠ some '!') :
    inClass body d = true ↔ d ∈ body := by
  unfold inClass
  have : body.contains '-' = false := by simpa using h1
  simp only [this, Bool.false_eq_true, if_false]
  split
  · simp at h2
  · simp

example : inClass "]a\\".toList '\\' = true ∧ inClass "]a".toList ']' = true ∧ inClass "]a".toList 'b' = false := by decide

/-- `[!seq]` without hyphen: every character not in `seq` -/
theorem class_negated (m : Tok) (d : Char) (h1 : '-' ∉ m) : inClass ('!' :: m) d = true ↔ d ∉ m := by
  unfold inClass
  have : ('!' :: m).contains '-' = false := by simpa using h1
  simp only [this, Bool.false_eq_true, if_false]
  simp

example : inClass "!]".toList 'x' = true ∧ inClass "!]".toList ']' = false := by decide

/-- `[a-b]` is the range from `a` to `b` in code-point order, and nothing when `a > b` (an "empty range" never matches) -/
theorem class_range (a b d : Char) (ha : a ≠ '!') : inClass [a, '-', b] d = true ↔ a ≤ d ∧ d ≤ b := by
  have hk : mergeR (fixLast (chunksGo (if [a,'-',b].head? = some '!' then 2 else 1) [] [a,'-',b]))
      = if a > b then [[]] else [[a],[b]] := by
    simp [ha, chunksGo, fixLast, mergeR]
  unfold inClass
  rw [hk]
  have hc : [a, '-', b].contains '-' = true := by simp
  simp only [hc, if_true]
  by_cases hab : a > b
  · simp only [hab, if_true]
    simp [inChunks, inRanges]
    intro h1
    exact Nat.lt_of_lt_of_le hab h1
  · simp only [hab, if_false]
    split
    · rename_i h; simp at h
    · rename_i h; simp at h; exact absurd h.1.1 ha
    · simp [inChunks, inRanges]
      have hab' : a ≤ b := Char.not_lt.1 hab
      rintro (rfl | rfl)
      · exact ⟨Char.le_refl _, hab'⟩
      · exact ⟨hab', Char.le_refl _⟩

example : inClass ['a', '-', 'c'] 'b' = true ∧ ∀ d, inClass ['c', '-', 'a'] d = false := by
  refine ⟨by decide, fun d => ?_⟩
  cases h : inClass ['c', '-', 'a'] d with
  | false => rfl
  | true =>
    have := (class_range 'c' 'a' d (by decide)).1 h
    exact absurd (Char.le_trans this.1 this.2) (by decide)

/-- corner cases of `fnmatch.translate`, evaluated: an empty range never matches, also inside a pattern; a negated empty
    range matches every character; the `!` test is made on what is left after the removal of the empty ranges (`[b-a!]`
    matches every character, `[b-a!x]` is `[!x]`, `[b-a!-z]` is "not `-`, not `z`"); a hyphen first, last or after a
    range is a literal; `[a-c-e]` is `a`..`c`, `-`, `e` -/
theorem class_corner_cases :
    (∀ d ∈ "ab-]![".toList, inClass "b-a".toList d = false) ∧ glob "x[b-a]".toList "xa".toList = false
    ∧ (∀ d ∈ "ab-]![".toList, inClass "!b-a".toList d = true ∧ inClass "b-a!".toList d = true)
    ∧ inClass "b-a!x".toList 'x' = false ∧ inClass "b-a!x".toList '!' = true
    ∧ inClass "b-a!-z".toList '-' = false ∧ inClass "b-a!-z".toList 'z' = false ∧ inClass "b-a!-z".toList 'm' = true
    ∧ inClass "-a".toList '-' = true ∧ inClass "a-".toList '-' = true ∧ inClass "a-c-e".toList '-' = true
    ∧ inClass "a-c-e".toList 'd' = false ∧ inClass "a-c-e".toList 'b' = true := by decide

/-- a pattern stands for all matching task names, in definition order -/
theorem wild_spec (ts : List Task) (p : Tok) :
    (∀ x, x ∈ wild ts p ↔ x ∈ names ts ∧ Matches p x) ∧ List.Sublist (wild ts p) (names ts) := by
  refine ⟨fun x => ?_, List.filter_sublist⟩
  simp [wild, List.mem_filter, glob_iff_matches]

example : wild [{ name := "a1".toList }, { name := "b1".toList }, { name := "a[1]".toList }] "[ab]1*".toList
    = ["a1".toList, "b1".toList] := by decide

/-- only `*` makes a task_dep entry a pattern: an entry without `*` — also one containing `?`, `[` or `]`, which are
    legal in task names — is a literal task name and is kept as it is (no matching is done for it) -/
theorem literal_dep_kept (ts : List Task) (t : Task) (h : ∀ d ∈ t.taskDep, hasStar d = false) :
    expandWild ts t = t.taskDep := by
  unfold expandWild
  have h1 : t.taskDep.filter (fun d => !hasStar d) = t.taskDep :=
    List.filter_eq_self.2 (by intro d hd; simp [h d hd])
  have h2 : t.taskDep.filter hasStar = [] := List.filter_eq_nil_iff.2 (by intro d hd; simp [h d hd])
  rw [h1, h2]; simp

/-- a dependency on the task literally named `a[1]` reaches `a[1]`, not `a1`; one on `a?` reaches `a?` only -/
example : closureOf (prepare [{ name := ['u'], taskDep := [['a', '[', '1', ']'], ['a', '?']] }, { name := ['a', '1'] },
    { name := ['a', '[', '1', ']'] }, { name := ['a', '?'] }]) [['u']] = [['u'], ['a', '[', '1', ']'], ['a', '?']] := by
  decide

/-! ## `filter_spec` -/

/-- **filter_spec** (full strength since dcfe778): `TaskControl._filter_tasks` selects exactly what the arguments denote
    — name → itself; target → producer; pattern with `*` → all matching names in definition order; options after the
    first naming of a task consumed by that task's parser; a task with `pos_arg` takes all the rest; a task named again
    is selected again and parses nothing; sub-task of a delayed task → placeholder -/
theorem filter_spec (ts : List Task) (args sel : List Tok) :
    filterTasks ts args = .ok sel ↔ Resolves ts [] args sel :=
  spec_run_iff ts (args.length + 1) [] args sel (by omega)

/-- `Resolves` is functional: an argument list denotes at most one selection -/
theorem resolves_functional (ts : List Task) (args s1 s2 : List Tok) (h1 : Resolves ts [] args s1)
    (h2 : Resolves ts [] args s2) : s1 = s2 := by
  have a := (filter_spec ts args s1).2 h1
  have b := (filter_spec ts args s2).2 h2
  rw [a] at b
  cases b; rfl

/-- the selection is rejected iff the arguments denote nothing -/
theorem filter_error_iff (ts : List Task) (args : List Tok) :
    (∃ e, filterTasks ts args = .error e) ↔ ¬ ∃ sel, Resolves ts [] args sel := by
  constructor
  · rintro ⟨e, he⟩ ⟨sel, hs⟩
    rw [(filter_spec ts args sel).2 hs] at he
    cases he
  · intro hn
    cases hr : filterTasks ts args with
    | error e => exact ⟨e, rfl⟩
    | ok sel => exact absurd ⟨sel, (filter_spec ts args sel).1 hr⟩ hn

/-- a reported `not_found` names an argument that is neither a pattern, a task, a target nor a sub-task of a delayed
    task; and the model never runs out of fuel -/
theorem filter_notFound_sound (ts : List Task) (args : List Tok) (a : Tok)
    (h : filterTasks ts args = .error (.notFound a)) : a ∈ args ∧ ∀ n, ¬ Denotes ts a n :=
  notFound_sound ts false args a h

theorem filter_fuel_suffices (ts : List Task) (pinned : Bool) (args : List Tok) :
    filterGen ts pinned [] args ≠ .error .fuel := filterGen_no_fuel ts pinned args

/-- every selected name stays selected: each argument that names a task (outside the values of a `pos_arg` task and
    option values) is in the selection — in particular `doit t1 t1 t2` selects `t2` -/
example : filterTasks [{ name := ['t', '1'] }, { name := ['t', '2'] }] [['t', '1'], ['t', '1'], ['t', '2']]
    = .ok [['t', '1'], ['t', '1'], ['t', '2']] ∧
    filterTasks [{ name := ['t', '1'] }, { name := ['t', '2'] }] [['t', '1'], ['t', '1'], ['n', 'o']]
    = .error (.notFound ['n', 'o']) := by decide

/-- F-C12b (fixed in /repo by dcfe778): before the fix the statement was **false**: the pinned `_process_filter`
    stopped at a task named again — `doit t1 t1 t2` selected `[t1, t1]` although the arguments denote `[t1, t1, t2]` -/
theorem reinit_counterexample :
    ¬ ∀ (ts : List Task) (args sel : List Tok), pinnedFilterTasks ts args = .ok sel ↔ Resolves ts [] args sel := by
  intro h
  have h1 := (h [{ name := ['t', '1'] }, { name := ['t', '2'] }] [['t', '1'], ['t', '1'], ['t', '2']]
    [['t', '1'], ['t', '1']]).1 (by decide)
  have h2 := (filter_spec [{ name := ['t', '1'] }, { name := ['t', '2'] }] [['t', '1'], ['t', '1'], ['t', '2']]
    [['t', '1'], ['t', '1'], ['t', '2']]).1 (by decide)
  have := resolves_functional _ _ _ _ h1 h2
  revert this
  decide

/-- the pinned code was wrong only there: when no task is named again after its options were initialised
    (`NoReinit`, decidable) it selected what the current code selects -/
theorem pinned_agrees_without_reinit (ts : List Task) (args : List Tok) (h : NoReinit ts args) :
    pinnedFilterTasks ts args = filterTasks ts args := by
  unfold pinnedFilterTasks filterTasks filterGen
  rw [pf_head_eq_spec ts _ [] args h]

/-! ## `default` -/

/-- no positional argument ⇒ `default_tasks` when configured, else all tasks in definition order;
    with positional arguments `default_tasks` is not consulted -/
theorem default_selection (ts : List Task) (dflt : Option (List Tok)) :
    process ts (selArgs [] dflt) = (match dflt with
      | none => .ok (names ts)
      | some d => filterTasks ts d) ∧
    ∀ a rest, process ts (selArgs (a :: rest) dflt) = filterTasks ts (a :: rest) := by
  constructor
  · cases dflt <;> rfl
  · intro a rest; rfl

/-! ## command-line variables (`name=value` words) -/

/-- what reaches the selection from the command line: the words that are not `name=value` words, in their order;
    filtering again changes nothing; a command line without such words is passed on as it is -/
theorem cli_strip_spec (args : List Tok) :
    (∀ a, a ∈ stripVars args ↔ a ∈ args ∧ isVarWord a = false) ∧ List.Sublist (stripVars args) args ∧
    stripVars (stripVars args) = stripVars args ∧
    ((∀ a ∈ args, isVarWord a = false) → stripVars args = args) := by
  refine ⟨fun a => ?_, List.filter_sublist, ?_, fun h => ?_⟩
  · simp [stripVars, List.mem_filter]
  · simp [stripVars, List.filter_filter]
  · exact List.filter_eq_self.2 (by intro a ha; simp [h a ha])

/-- no word with `=` that does not start with `-` is ever looked up as a task or target: a target whose name contains
    `=` cannot be selected from the command line -/
theorem cli_var_word_never_selected (args : List Tok) (a : Tok) (h : a ∈ stripVars args) :
    a = [] ∨ a.head? = some '-' ∨ a.contains '=' = false := by
  have h2 : isVarWord a = false := ((cli_strip_spec args).1 a).1 h |>.2
  cases a with
  | nil => exact Or.inl rfl
  | cons c cs =>
    simp only [isVarWord, Bool.and_eq_false_iff, bne_eq_false_iff_eq] at h2
    rcases h2 with h2 | h2
    · exact Or.inr (Or.inl (by simp [h2]))
    · exact Or.inr (Or.inr h2)

/-- the `run` command given words on the command line: the selection is exactly what the remaining words denote
    (`filter_spec`), the set considered is its closure (`closure`, `closure_closed` apply to it unchanged); when no word
    remains the configured `default_tasks` / all tasks are taken (`default_selection`) -/
theorem cli_selection_spec (ts : List Task) (args : List Tok) (dflt : Option (List Tok)) (p : Plan)
    (h : planCli ts args dflt false = .ok p) :
    p.closure = closureOf (prepare ts) p.sel ∧ p.tasks = prepare ts ∧
    (stripVars args ≠ [] → Resolves (prepare ts) [] (stripVars args) p.sel) ∧
    (stripVars args = [] → process (prepare ts) dflt = .ok p.sel) := by
  unfold planCli planGen at h
  cases hs : processGen (prepare ts) false (selArgs (stripVars args) dflt) with
  | error e => simp [hs] at h
  | ok sel =>
    simp only [hs, Bool.false_eq_true, if_false, Except.ok.injEq] at h
    subst h
    refine ⟨rfl, rfl, fun hne => ?_, fun he => ?_⟩
    · cases hl : stripVars args with
      | nil => exact absurd hl hne
      | cons a rest =>
        rw [hl] at hs
        exact (filter_spec (prepare ts) (a :: rest) sel).1 hs
    · rw [he] at hs
      cases dflt <;> exact hs

/-- an empty word is an ordinary word: not a variable, kept in place; named as a task it is rejected as not found, after
    an option that takes a value it is that value -/
example : cliArgs [['t'], [], ['=', 'x']] = [['t'], []] ∧
    processGen (prepare [{ name := ['t'] }]) false (selArgs (cliArgs [['t'], []]) none) = .error (.notFound []) ∧
    processGen (prepare [{ name := ['t'], params := [{ short := some 'v', long := [], takesVal := true }] }]) false
      (selArgs (cliArgs [['t'], ['-', 'v'], []]) none) = .ok [['t']] := by decide

/-- F-C12-empty-word-crash (fixed in /repo by 0ab6253): before the fix an empty word made `process_args` raise
    IndexError outside the `try` of `DoitMain.run` — no `ERROR` line, no exit code 3 — where the statement demands that
    the unknown name `""` be rejected -/
theorem pinned_empty_word_counterexample :
    pinnedCliArgs [['t', '1'], []] = none ∧ cliArgs [['t', '1'], []] = [['t', '1'], []] ∧
    (∀ args, ¬ args.contains [] = true → pinnedCliArgs args = some (cliArgs args)) := by
  refine ⟨by decide, by decide, fun args h => ?_⟩
  simp only [pinnedCliArgs, cliArgs, h]
  rfl

/-- the detached value of a task option is taken out as well: `t --val a=b x` selects what `t --val x` selects -/
example : stripVars [['t'], ['-', '-', 'v'], ['a', '=', 'b'], ['x'], ['k', '=', '1'], ['-', '-', 'v', '=', 'c', '=', 'd'], []]
    = [['t'], ['-', '-', 'v'], ['x'], ['-', '-', 'v', '=', 'c', '=', 'd'], []] := by decide

/-! ## `single` -/

/-- with `--single` every named task ends up without task dependencies — for a group: each of its sub-tasks does —
    and all named tasks are kept: the selection is the one computed without `--single` -/
theorem single (ts : List Task) (head : Bool) (args : List Tok) (dflt : Option (List Tok)) (p : Plan)
    (h : planGen ts head args dflt true = .ok p) :
    (∀ n ∈ p.sel, SingleOK p.tasks n) ∧
    ∃ q, planGen ts head args dflt false = .ok q ∧ q.sel = p.sel := by
  unfold planGen at h ⊢
  cases hs : processGen (prepare ts) head (selArgs args dflt) with
  | error e => simp [hs] at h
  | ok sel =>
    simp only [hs, if_true, Except.ok.injEq] at h
    subst h
    exact ⟨applySingle_ok _ sel, _, rfl, rfl⟩

/-- F-C12 (fixed in /repo by 07d690a): the pinned `Run._execute` called `control.process` a second time under
    `--single`; `doit --single t1 t2` then kept only `t1` -/
theorem pinned_single_counterexample :
    pinnedSingleSelect [{ name := ['t', '1'] }, { name := ['t', '2'] }] (some [['t', '1'], ['t', '2']])
      = .ok [['t', '1']] ∧
    process [{ name := ['t', '1'] }, { name := ['t', '2'] }] (some [['t', '1'], ['t', '2']])
      = .ok [['t', '1'], ['t', '2']] := by decide

/-! ## `closure` -/

/-- the set computed for the dispatcher is the least set that contains the selection and is closed under the edges
    `succs` (task_dep after wild-card expansion and implicit deps, calc_dep, setup-tasks of tasks that are not declared
    up-to-date): it consists of reachable names only, contains the selection, contains everything reachable, and is
    inside every closed set that contains the selection.  Completeness is unconditional (`closure_closed`); the
    decidable certificate `closedB`, which the driver still evaluates on every case, always holds. -/
theorem closure (ts : List Task) (sel : List Tok) :
    (∀ m, m ∈ closureOf ts sel → Reach ts sel m) ∧
    (∀ n ∈ sel, n ∈ closureOf ts sel) ∧
    (∀ m, Reach ts sel m → m ∈ closureOf ts sel) ∧
    (∀ S : List Tok, (∀ n ∈ sel, n ∈ S) → Closed ts S → ∀ m, Reach ts sel m → m ∈ S) :=
  ⟨closure_sound ts sel, closure_has_sel ts sel, closure_complete' ts sel, reach_least ts sel⟩

/-- `ts.length` rounds of expansion reach the fixed point: the computed closure is closed under `succs`, i.e. the
    certificate `closedB` cannot fail -/
theorem closure_closed (ts : List Task) (sel : List Tok) :
    Closed ts (closureOf ts sel) ∧ closedB ts (closureOf ts sel) = true :=
  ⟨closureOf_closed ts sel, closedB_closureOf ts sel⟩

/-! ## `order` -/

/-- **order**, on a small abstraction of the serial dispatcher: if a start order works the selected tasks off one after
    the other (`chunkedB`: for every `j`, the part of the closure of the first `j+1` selected tasks that is started at all
    is started before anything outside it — what `_dispatcher_generator` does, taking the next selected task only when
    nothing is ready or waiting), then the order clause of C12 holds: a selected task given later starts earlier only if
    it is in the closure of a task selected before.  `chunkedB` is validated on every observed serial run (K). -/
theorem order (ts : List Task) (sel started : List Tok) (h : chunkedB ts sel started = true) :
    orderPairsBad ts sel started = [] := order_of_chunked ts sel started h

/-- **order_full** — the order clause of C12 on the dispatcher itself (run model M1, `Model/Run.lean`).

    `Represents ts sel nm inp`: `inp` is a serial run of the task table `ts` with selection `sel` (`nm`, injective, names
    the run model's tasks) and every edge the dispatcher can follow is an edge of the static graph `succs`: task_dep,
    calc_dep, setup-tasks of a task that may run (not ignored, not up-to-date), whatever a calc_dep task delivers.
    Then in EVERY reachable state of the serial runner — any iteration order of the sets, any outcomes / statuses /
    `--continue`, runs cut short by a failure or by the cyclic-dependency error included — the order in which tasks
    were started satisfies the clause `Sel.monitor` evaluates: a selected task given later starts before a selected task
    `a` only if it is in the closure of the tasks selected up to `a`.

    The notion of dependency that is needed: `b` may overtake `a` iff `b ∈ closureOf ts (tasks selected up to a)`, i.e.
    `b` is reachable from SOME task selected no later than `a` (not only from `a`), transitively, over ALL edge kinds
    the dispatcher follows (task_dep incl. wild-card expansion and implicit file deps, calc_dep, calc results,
    setup-tasks of tasks that run).  Run-model form, for any task `b` (selected or not): `Run.serial_start_order`.

    Why not via `chunkedB`: the chunk abstraction is NOT an invariant of the run model (`chunk_not_invariant` below);
    `order` (for chunked start orders) is kept, `order_full` is proved directly: while only a prefix `pre` of the
    selection has been popped from `tasks_to_run` every node is in the closure of `pre`; `tasks_to_run` is popped only
    when nothing is current or ready, and then every existing node is finished or belongs to a set of parked nodes that
    await each other, none of which is ever started. -/
theorem order_full (ts : List Task) (sel : List Tok) (nm : Run.Name → Tok) (inp : Run.RunInput) (s : Run.Sys)
    (h : Represents ts sel nm inp) (hr : Run.Reach inp s) :
    orderPairsBad ts sel ((Run.startOrder s).map nm) = [] := order_of_run h hr

/-- the same on the run model alone: serial runner, `pre` a prefix of the selection; whatever is started before a
    member of `pre` belongs to the dependency closure of `pre` (`Run.Cl`, Proofs/RunClosure.lean) -/
theorem order_run_model (inp : Run.RunInput) (pre post : List Run.Name) (s : Run.Sys)
    (hser : inp.runner = .serial) (hsel : inp.sel = pre ++ post) (hr : Run.Reach inp s)
    (before : List Run.Name) (a : Run.Name) (after : List Run.Name)
    (hso : Run.startOrder s = before ++ a :: after) (ha : a ∈ pre) :
    ∀ b ∈ before, Run.Cl (Run.cutSel inp pre) b :=
  Run.serial_start_order hser hsel hr before a after hso ha

/-! ## non-vacuity -/

section examples
def exTasks : List Task := [
  { name := ['a'], targets := [['b']] },
  { name := ['a', 'b'], taskDep := [['a', '*']], params := [{ short := some 'f', long := ['f', 'l'], takesVal := false },
                                                            { short := some 'v', long := [], takesVal := true }] },
  { name := ['b'], fileDep := [['b']], setup := [['a', 'b']] },
  { name := ['g'], hasSubtask := true, taskDep := [['g', ':', 'x']] },
  { name := ['g', ':', 'x'], taskDep := [['b']] }]

/-- a pattern matching two names, then one of them named again (its options are initialised already: the next token
    is a name again), then a name that is also a target of another task (the name wins) -/
example : filterTasks (prepare exTasks) [['a', '*'], ['a', 'b'], ['b']]
    = .ok [['a'], ['a', 'b'], ['a', 'b'], ['b']] ∧
    pinnedFilterTasks (prepare exTasks) [['a', '*'], ['a', 'b'], ['b']] = .ok [['a'], ['a', 'b'], ['a', 'b']] ∧
    filterTasks (prepare exTasks) [['a', '*'], ['a', 'b'], ['-', 'f']] = .error (.notFound ['-', 'f']) ∧
    ¬ NoReinit (prepare exTasks) [['a', '*'], ['a', 'b'], ['b']] := by decide

/-- the interesting branches of `filter_spec` are reached on a non-trivial input -/
example : NoReinit (prepare exTasks) [['a', 'b'], ['-', 'v'], ['-', 'f'], ['-', '-'], ['g', ':', '*'], ['a']] ∧
    filterTasks (prepare exTasks) [['a', 'b'], ['-', 'v'], ['-', 'f'], ['-', '-'], ['g', ':', '*'], ['a']]
      = .ok [['a', 'b'], ['g', ':', 'x'], ['a']] ∧
    filterTasks (prepare exTasks) [['a'], ['n', 'o']] = .error (.notFound ['n', 'o']) ∧
    filterTasks (prepare exTasks) [['a', 'b'], ['-', 'z']] = .error .optErr := by decide

/-- wild-card and implicit dependencies, closure through setup, `--single` on a group -/
example : (prepare exTasks).map (·.taskDep) = [[], [['a'], ['a', 'b']], [['a']], [['g', ':', 'x']], [['b']]] ∧
    closureOf (prepare exTasks) [['g']] = [['g'], ['g', ':', 'x'], ['b'], ['a'], ['a', 'b']] ∧
    closedB (prepare exTasks) (closureOf (prepare exTasks) [['g']]) = true ∧
    closureOf (applySingle (prepare exTasks) [['g']]) [['g']] = [['g'], ['g', ':', 'x']] := by decide

/-- a chunked start order in which a later selected task (`a`) legitimately starts before an earlier one (`b`) -/
example : chunkedB (prepare exTasks) [['b'], ['a'], ['g']] [['a'], ['a', 'b'], ['b'], ['g', ':', 'x'], ['g']] = true ∧
    chunkedB (prepare exTasks) [['g', ':', 'x'], ['a']] [['a'], ['a', 'b'], ['b'], ['g', ':', 'x']] = true ∧
    chunkedB (prepare exTasks) [['a'], ['g']] [['g'], ['a']] = false := by decide
end examples

/-! ### the order clause on the run model -/

section run_examples
/-! the task tables `exOrdTasks` / `exChunkTasks`, their run inputs and the proofs that these represent them are in
    `Proofs/C12Examples.lean`; run-model task `n` is called `exNm n` = `x` repeated `n+1` times -/

/-- the hypotheses of `order_full` are satisfiable and the interesting situation is reached: `doit xx x xxxx` runs to
    completion, and the later-selected `x` (a dependency of `xx`) and the unselected setup-task `xxx` start before `xx` -/
example : ∃ s, Represents exOrdTasks [exNm 1, exNm 0, exNm 3] exNm exOrdInp ∧ Run.Reach exOrdInp s ∧
    (Run.startOrder s).map exNm = [exNm 0, exNm 2, exNm 1, exNm 3] ∧ s.events.contains Run.Ev.complete = true :=
  ⟨_, exOrd_represents, Run.autoRun_reach (by decide) false false 400 _ Run.Reach.init, by decide +kernel,
    by decide +kernel⟩

/-- the chunk abstraction `chunkedB` is NOT an invariant of the run model: under `--continue`, `x` fails with an unmet
    dependency (`xx` failed), so its setup-task `xxx` — a member of the closure of `x` — is not created in the tree of
    `x`; it is created and started later, in the tree of `xxxx`, after `xxxxx` which is outside the closure of `x`.  The
    order clause itself holds (`order_full`): `x` is never started. -/
theorem chunk_not_invariant : ∃ s, Represents exChunkTasks [exNm 0, exNm 3] exNm exChunkInp ∧
    Run.Reach exChunkInp s ∧
    (Run.startOrder s).map exNm = [exNm 1, exNm 4, exNm 2, exNm 3] ∧
    chunkedB exChunkTasks [exNm 0, exNm 3] ((Run.startOrder s).map exNm) = false ∧
    orderPairsBad exChunkTasks [exNm 0, exNm 3] ((Run.startOrder s).map exNm) = [] :=
  ⟨_, exChunk_represents, Run.autoRun_reach (by decide) false false 400 _ Run.Reach.init, by decide +kernel,
    by decide +kernel,
    order_full _ _ _ _ _ exChunk_represents (Run.autoRun_reach (by decide) false false 400 _ Run.Reach.init)⟩
end run_examples

end DoitModel.C12
