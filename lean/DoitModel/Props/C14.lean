import DoitModel.Proofs.CleanSpec
import DoitModel.Proofs.CleanEffects
import DoitModel.Proofs.CleanFuel
import DoitModel.Proofs.CleanFrame
import DoitModel.Proofs.CleanRmdir
import DoitModel.Proofs.CleanMon
/-! # C14 — clean acts on exactly the selected tasks, once, dependents first

Property theorems only (model: `Model/Clean.lean`; helpers: `Proofs/CleanFlat.lean`, `CleanOrder.lean`,
`CleanBuild.lean`, `CleanFuel.lean`, `CleanSpec.lean`, `CleanEffects.lean`, `CleanFrame.lean`, `CleanMon.lean`).  Quantification: every task table, every command
line (positional arguments, patterns, default_tasks, the four flags), every world (files, directories, DB).

`plan tbl r = .ok p` : the command was accepted; `p.order` is the list of tasks handed to `Task.clean`.
`cleanList tbl r = .ok base` : `base` is `clean_list` of `Clean._execute` (named tasks / expanded patterns /
default tasks / all tasks).  `InCleanSet tbl r base` is the declarative clean set of the property statement. -/
namespace DoitModel.C14
open DoitModel.Clean

/-- `flat` / `_get_leafs` terminate on **every** node table — cyclic dependency graphs included — and emit
    each key of the table exactly once (a permutation of the keys).  (Each recursive call is preceded by a
    `pop` of the node it descends into, so a cycle cannot be followed twice.) -/
theorem flat_terminates (ns : Nodes) : (flat ns).oof = false ∧ (flat ns).out.Perm (keys ns) :=
  flat_spec ns

/-- what the code does on a cyclic graph `0 ⇄ 1` (`clean --clean-dep t0`): both are cleaned once, `1` first;
    no diagnostic, no loop -/
theorem cyclic_example :
    (match plan [⟨['a'], [1], [], none, [], .actions [⟨.plain, none⟩]⟩, ⟨['b'], [0], [], none, [], .actions [⟨.plain, none⟩]⟩]
        ⟨[['a']], none, true, false, false, false⟩ with
      | .ok p => some (p.order, p.oof)
      | .error _ => none) = some ([1, 0], false) := by decide

/-- `clean_tasks`' de-duplication never removes anything: what `flat` emits is already duplicate-free -/
theorem dedup_redundant (ns : Nodes) (h : (keys ns).Nodup) : dedup [] (flat ns).out = (flat ns).out :=
  dedup_of_nodup _ _ ((flat_spec ns).2.nodup_iff.2 h) (fun _ _ hm => by simp at hm)

/-- **fuel_suffices** — when every task_dep / setup names a task (`wfB`; `TaskControl._check_dep_names` enforces
    it) the recursion of `build_nodes_with_deps` never exhausts the model's fuel (number of tasks + 1), for any
    accepted command line; together with `flat_terminates` no theorem below rests on a fuel artefact -/
theorem build_fuel_suffices (tbl : Table) (r : Req) (base : List Name)
    (hwf : wfB tbl = true) (hb : cleanList tbl r = .ok base) : BuildFuelOk tbl r base := by
  unfold BuildFuelOk buildTree
  by_cases hd : withDeps r = true
  · simp only [hd, if_true]
    exact buildAll_fuel (depsOf tbl) tbl.length (wfB_sound tbl hwf) base (cleanList_lt tbl r base hb)
  · simp [hd]

/-- **flat_perm** — the tasks handed to `Task.clean` are duplicate-free and are exactly the declarative clean
    set: the named / default / all tasks; with dependencies (`--clean-dep`, `--clean-all`, or no task named)
    everything reachable over task_dep and setup; otherwise plus the direct sub-tasks of the named tasks -/
theorem flat_perm (tbl : Table) (r : Req) (base : List Name) (p : Plan)
    (hwf : wfB tbl = true) (hb : cleanList tbl r = .ok base) (hp : plan tbl r = .ok p) :
    p.order.Nodup ∧ ∀ x, x ∈ p.order ↔ InCleanSet tbl r base x := by
  have hf := build_fuel_suffices tbl r base hwf hb
  have hnd := tree_nodup hf
  have hperm := (flat_spec (buildTree tbl r base).nodes).2
  have hord : p.order = (flat (buildTree tbl r base).nodes).out := by
    rw [plan_order hb hp]; exact dedup_redundant _ hnd
  rw [hord]
  refine ⟨hperm.nodup_iff.2 hnd, fun x => ?_⟩
  rw [hperm.mem_iff]
  unfold BuildFuelOk at hf
  unfold buildTree at hf ⊢
  unfold InCleanSet
  by_cases hd : withDeps r = true
  · simp only [hd, if_true] at hf ⊢
    obtain ⟨_, _, hroots, hclosed, hreach⟩ := buildAll_spec _ _ _ hf
    constructor
    · exact hreach x
    · rintro ⟨n, hn, hr⟩
      exact reach_in_closed (S := fun y => y ∈ keys (buildAll (depsOf tbl) (tbl.length + 1) base).nodes)
        (fun a ha b hb => (hclosed a ha b hb).1) (hroots n hn) hr
  · simp only [hd, Bool.false_eq_true, ↓reduceIte] at hf ⊢
    rw [(buildNoDeps_spec _ _).2]
    simp only [mem_subsRevOf]

/-- **dependents_first** — when dependencies are included and task_dep + setup is acyclic, a task that
    depends on another emitted task is cleaned before it -/
theorem dependents_first (tbl : Table) (r : Req) (base : List Name) (p : Plan)
    (hwf : wfB tbl = true) (hb : cleanList tbl r = .ok base) (hp : plan tbl r = .ok p)
    (hdeps : withDeps r = true) (hac : acyclicB tbl = true) :
    ∀ a b, b ∈ depsOf tbl a → a ∈ p.order → b ∈ p.order → p.order.idxOf a < p.order.idxOf b := by
  have hf := build_fuel_suffices tbl r base hwf hb
  have hnd := tree_nodup hf
  have hperm := (flat_spec (buildTree tbl r base).nodes).2
  have hord : p.order = (flat (buildTree tbl r base).nodes).out := by
    rw [plan_order hb hp]; exact dedup_redundant _ hnd
  rw [hord]
  intro a b hab ha hb'
  have hfa := hf
  unfold BuildFuelOk at hfa
  have htree : (buildTree tbl r base) = buildAll (depsOf tbl) (tbl.length + 1) base := by
    simp [buildTree, hdeps]
  rw [htree] at hfa hperm ha hb' ⊢
  obtain ⟨s1, s2, _, s4, _⟩ := buildAll_spec _ _ _ hfa
  have hG : GOK (depsOf tbl) (depth (depsOf tbl) (tbl.length + 1))
      (buildAll (depsOf tbl) (tbl.length + 1) base).nodes :=
    ⟨s1, fun b a h => (s2 b a h).2, fun b a h => (s2 b a h).1, acyclicB_sound tbl hac⟩
  have hak := hperm.mem_iff.1 ha
  exact (flat_order hG b hb' a (s4 a hak b hab).2).2

/-- **targets_order** — `clean_targets` walks `sorted(targets, reverse=True)`: the walk is a rearrangement of
    the targets, and nothing that lies below a directory `d` (has `d/` as a proper prefix) comes after `d`;
    so a file inside a target directory has been dealt with when the directory's turn comes -/
theorem targets_order (ts : List Path) :
    (∀ y, y ∈ sortDesc ts ↔ y ∈ ts) ∧
    ∀ (l1 l2 : List Path) (d p : Path), sortDesc ts = l1 ++ d :: l2 → below d p = true → p ∉ l2 := by
  refine ⟨mem_sortDesc ts, ?_⟩
  intro l1 l2 d p hs hb hp
  have hdesc := desc_sortDesc ts
  rw [hs] at hdesc
  have h2 := (List.pairwise_append.1 hdesc).2.1
  have h3 := (List.pairwise_cons.1 h2).1 p hp
  have h4 := not_pathLe_of_prefix '/' d p hb
  rw [h4] at h3
  exact absurd h3 (by simp)

/-- **files_before_dir** — the effect of `targets_order`: when `clean_targets` (no dry run) reaches a target
    directory `d` whose whole content are target files of the same task (`LinksAway`: `d` is not itself a symbolic
    link and no symbolic link lies below it), `d` is empty and is removed -/
theorem files_before_dir (t : Name) (targets : List Path) (w : World) (evs : List Ev) (d : Path)
    (hd : d ∈ targets) (hnf : d ∉ w.files) (hnl : LinksAway d w)
    (hfiles : ∀ q, q ∈ w.files → below d q = true → q ∈ targets)
    (hdirs : ∀ q, q ∈ w.dirs → below d q = false) :
    d ∉ (cleanTargets false t targets (w, evs)).1.dirs :=
  cleanTargets_rmdir t targets (w, evs) d hd hnf hnl hfiles hdirs

/-- **symlink_destination_untouched** — a target that is a symbolic link: `clean_targets` tests it through the
    link (`isfile` / `isdir` follow it) but acts on the link itself; no regular file and no directory — in
    particular not the link's destination — is removed -/
theorem symlink_destination_untouched (dry : Bool) (t : Name) (st : World × List Ev) (p : Path)
    (hl : (linkDest st.1 p).isSome = true) (hnf : p ∉ st.1.files) :
    (rmTarget dry t st p).1.files = st.1.files ∧ (rmTarget dry t st p).1.dirs = st.1.dirs := by
  unfold rmTarget
  simp only [hnf, if_false, hl, if_true]
  exact rmLink_files dry t st p _

/-- **clean_runs_to_its_end** — the model has no way to die half-way any more: since fix a5ed062 (a target that is a
    symbolic link to an empty directory is removed with `os.remove`, not handed to `os.rmdir`) no `crash` event is
    ever emitted, for any table, command line and world; every statement here about `res` is a statement about the
    code's complete run -/
theorem clean_runs_to_its_end (tbl : Table) (r : Req) (w : World) (res : Result)
    (h : run tbl r w = .ok res) : res.crashed = false := by
  unfold run at h
  cases hp : plan tbl r with
  | error e => simp [hp] at h
  | ok p =>
    simp only [hp] at h
    cases h
    have := cleanTasks_nocrash tbl r.dryrun r.forget p.order w
    simp only [Result.crashed, List.any_eq_false]
    intro e he
    simp [this e he]

/-- the pinned behaviour (before a5ed062): a target link `l -> e` to an empty directory: announcement, then
    `os.rmdir(l)` fails — the `crash` event, link and directory still there; the current model removes the link -/
theorem pinned_symlink_to_empty_dir_crashes :
    (rmLinkPinned false 0 (⟨[], [['e']], [], [(['l'], ['e'])]⟩, []) ['l'] ['e']).2 = [Ev.rmDir 0 ['l'], Ev.crash 0 ['l']] ∧
    (rmLinkPinned false 0 (⟨[], [['e']], [], [(['l'], ['e'])]⟩, []) ['l'] ['e']).1.links.map Prod.fst = [['l']] ∧
    (rmLink false 0 (⟨[], [['e']], [], [(['l'], ['e'])]⟩, []) ['l'] ['e']).2 = [Ev.rmDir 0 ['l']] ∧
    (rmLink false 0 (⟨[], [['e']], [], [(['l'], ['e'])]⟩, []) ['l'] ['e']).1.links.map Prod.fst = [] := by decide

/-- a target `dist/latest.txt -> ../store/v1.txt`: the link goes, the file it points to (a target of no task) stays;
    a target link to an empty directory: the link goes, the directory stays -/
example :
    (match run [⟨['t'], [], [], none, [['l']], .targets⟩] ⟨[], none, false, false, false, false⟩
        ⟨[['v']], [], [], [(['l'], ['v'])]⟩ with
      | .ok res => some (res.world.files, res.world.links.map Prod.fst, res.events, res.crashed) | .error _ => none) =
    some ([['v']], [], [Ev.rmFile 0 ['l']], false) := by decide

example :
    (match run [⟨['t'], [], [], none, [['l']], .targets⟩] ⟨[], none, false, false, false, false⟩
        ⟨[], [['e']], [], [(['l'], ['e'])]⟩ with
      | .ok res => some (res.world.dirs, res.world.links.length, res.events, res.crashed) | .error _ => none) =
    some ([['e']], 0, [Ev.rmDir 0 ['l']], false) := by decide

/-- **dryrun_frame** — with `--dry-run` the command changes neither files, nor directories, nor the DB
    (whatever else is on the command line, `--forget` included) -/
theorem dryrun_frame (tbl : Table) (r : Req) (w : World) (res : Result)
    (h : run tbl r w = .ok res) (hd : r.dryrun = true) : res.world = w := by
  unfold run at h
  cases hp : plan tbl r with
  | error e => simp [hp] at h
  | ok p =>
    simp only [hp] at h
    cases h
    simp only [hd]
    exact cleanTasks_dry tbl r.forget p.order w

/-- **dryrun_runs_only_aware_actions** — the dry-run rule of `Task.clean` is per action: on `--dry-run` no shell
    command is executed and no callable is called with `dryrun=False` (a callable without a `dryrun` parameter
    would record `false`): the only actions that run are python callables that declare `dryrun`, and they are
    told `True` — wherever they stand in the task's `clean` list -/
theorem dryrun_runs_only_aware_actions (tbl : Table) (r : Req) (w : World) (res : Result)
    (h : run tbl r w = .ok res) (hd : r.dryrun = true) :
    ∀ t k, Ev.cmd t k ∉ res.events ∧ Ev.ran t k false ∉ res.events := by
  unfold run at h
  cases hp : plan tbl r with
  | error e => simp [hp] at h
  | ok p =>
    simp only [hp] at h
    cases h
    simp only [hd]
    intro t k
    have := cleanTasks_dryOk tbl r.forget p.order w
    exact ⟨fun hm => this _ hm, fun hm => by have := this _ hm; simp [dryOk] at this⟩

/-- a task with `clean: [aware, cmd rm x, plain]` on a dry run: three announcements, only the aware callable runs
    (told `True`); the same list on a real clean runs all three and removes `x` -/
example :
    (match run [⟨['t'], [], [], none, [], .actions [⟨.aware, none⟩, ⟨.cmd, some (.rm ['x'])⟩, ⟨.plain, none⟩]⟩]
        ⟨[], none, false, false, true, false⟩ ⟨[['x']], [], [0], []⟩ with
      | .ok res => some (res.world.files, res.events) | .error _ => none) =
    some ([['x']], [Ev.executing 0 0, Ev.ran 0 0 true, Ev.executing 0 1, Ev.executing 0 2]) ∧
    (match run [⟨['t'], [], [], none, [], .actions [⟨.aware, none⟩, ⟨.cmd, some (.rm ['x'])⟩, ⟨.plain, none⟩]⟩]
        ⟨[], none, false, false, false, false⟩ ⟨[['x']], [], [0], []⟩ with
      | .ok res => some (res.world.files, res.events) | .error _ => none) =
    some ([], [Ev.executing 0 0, Ev.ran 0 0 false, Ev.executing 0 1, Ev.cmd 0 1, Ev.executing 0 2, Ev.ran 0 2 false]) := by
  decide

/-- **forget_exact** — saved state after the command: a task keeps its saved state unless `--forget` was given
    without `--dry-run` and the task is one of the cleaned tasks; nothing is ever added -/
theorem forget_exact (tbl : Table) (r : Req) (w : World) (res : Result) (h : run tbl r w = .ok res) :
    ∀ x, x ∈ res.world.db ↔ x ∈ w.db ∧ ¬ (r.forget = true ∧ r.dryrun = false ∧ x ∈ res.order) := by
  unfold run at h
  cases hp : plan tbl r with
  | error e => simp [hp] at h
  | ok p =>
    simp only [hp] at h
    cases h
    intro x
    exact cleanTasks_db tbl r.dryrun r.forget p.order (w, []) x

/-- **targets_frame** — (clean *actions* are user code; here they are taken not to touch the tree, `effFree`)
    files and directories after the command: nothing appears; whatever disappeared is a
    target of a cleaned `clean: True` task; and (no dry run) every target file of such a task is gone -/
theorem targets_frame (tbl : Table) (r : Req) (w : World) (res : Result) (h : run tbl r w = .ok res)
    (hfree : effFree tbl = true) :
    (∀ q, q ∈ res.world.files → q ∈ w.files) ∧
    (∀ q, q ∈ w.files → q ∈ res.world.files ∨ q ∈ cleanedTargets tbl res.order) ∧
    (∀ q, q ∈ res.world.dirs → q ∈ w.dirs) ∧
    (∀ q, q ∈ w.dirs → q ∈ res.world.dirs ∨ q ∈ cleanedTargets tbl res.order) ∧
    (r.dryrun = false → ∀ q, q ∈ cleanedTargets tbl res.order → q ∉ res.world.files) := by
  unfold run at h
  cases hp : plan tbl r with
  | error e => simp [hp] at h
  | ok p =>
    simp only [hp] at h
    cases h
    have hfr := cleanTasks_frame tbl hfree r.dryrun r.forget p.order w
    have hset : cleanedTargets tbl p.order = p.order.flatMap (rmSet tbl) := by
      unfold cleanedTargets rmSet
      rfl
    rw [hset]
    refine ⟨hfr.fsub, hfr.fonly, hfr.dsub, hfr.donly, ?_⟩
    intro hd q hq
    simp only [List.mem_flatMap] at hq
    obtain ⟨t, ht, hqt⟩ := hq
    simp only [hd]
    exact cleanTasks_removes tbl hfree r.forget p.order w t q ht hqt

/-- **monitor_sound** — the decidable predicate the driver evaluates on the implementation's observed order
    (`monitorOrder`) is the statement of `flat_perm` + `dependents_first`, restricted to the tasks whose clean
    behaviour can be seen: if it answers `true`, the observed list is duplicate-free, is exactly the visible part
    of the declarative clean set, and (dependencies included, acyclic) puts dependents first -/
theorem monitor_sound (tbl : Table) (r : Req) (base : List Name) (w : World) (o : List Name)
    (h : monitorOrder tbl r base w o = true) :
    o.Nodup ∧ (∀ x, x ∈ o ↔ InCleanSet tbl r base x ∧ visible tbl w x = true) ∧
    (withDeps r = true → acyclicB tbl = true →
      ∀ a b, b ∈ depsOf tbl a → a ∈ o → b ∈ o → o.idxOf a < o.idxOf b) := by
  unfold monitorOrder at h
  simp only [Bool.and_eq_true, decide_eq_true_eq, subset_iff, List.mem_filter] at h
  obtain ⟨⟨⟨⟨hc, hn⟩, h1⟩, h2⟩, h3⟩ := h
  refine ⟨hn, fun x => ?_, ?_⟩
  · rw [← mem_declSet_iff tbl r base hc x]
    exact ⟨h1 x, h2 x⟩
  · intro hd ha a b hab hao hbo
    simp only [hd, ha, Bool.and_self, Bool.not_true, Bool.false_or] at h3
    exact (depFirstB_iff _ _).1 h3 a hao b hab hbo

/-! ## non-vacuity: concrete inputs that meet the hypotheses and reach the interesting states -/

/-- a diamond with a shared dependency, defined in an order unrelated to the dependencies:
    `t0 → t2, t3`; `t2 → t1`(setup); `t3 → t1`; `clean t0 --clean-dep`: accepted, fuel fine, acyclic,
    four tasks cleaned, the shared dependency `t1` last -/
def diamond : Table :=
  [⟨['t', '0'], [2, 3], [], none, [], .actions [⟨.plain, none⟩]⟩, ⟨['t', '1'], [], [], none, [], .actions [⟨.aware, none⟩]⟩,
   ⟨['t', '2'], [], [1], none, [], .actions [⟨.plain, none⟩]⟩, ⟨['t', '3'], [1], [], none, [], .targets⟩]
def diamondReq : Req := ⟨[['t', '0']], none, true, false, false, true⟩

example : (cleanList diamond diamondReq).toOption = some [0] ∧ withDeps diamondReq = true ∧ acyclicB diamond = true ∧
    wfB diamond = true ∧
    (match plan diamond diamondReq with | .ok p => some p.order | .error _ => none) = some [0, 3, 2, 1] := by
  decide

/-- a group cleaned without `--clean-dep`: its sub-tasks are cleaned, a plain task_dep is not -/
example :
    (match plan [⟨['g'], [2, 1], [], none, [], .actions [⟨.plain, none⟩]⟩, ⟨['g', ':', 'a'], [], [], some 0, [], .actions [⟨.plain, none⟩]⟩,
                 ⟨['x'], [], [], none, [], .actions [⟨.plain, none⟩]⟩]
        ⟨[['g']], none, false, false, false, false⟩ with | .ok p => some p.order | .error _ => none) = some [0, 1] := by
  decide

/-- `--forget` on the diamond world: state of all four cleaned tasks goes, task 4's (not in the table's clean
    set) stays; the file inside the target directory goes before the directory -/
example :
    (match run [⟨['t'], [], [], none, [['d'], ['d', '/', 'f']], .targets⟩] ⟨[], none, false, false, false, true⟩
        ⟨[['d', '/', 'f']], [['d']], [0, 4], []⟩ with
      | .ok res => some (res.world.files, res.world.dirs, res.world.db, res.events)
      | .error _ => none) =
    some ([], [], [4], [Ev.rmFile 0 ['d', '/', 'f'], Ev.rmDir 0 ['d']]) := by decide

end DoitModel.C14
