import DoitModel.Model.Clean
/-! # C14 — clean acts on exactly the selected tasks, once, dependents first -/
namespace DoitModel.C14
open DoitModel.Clean

theorem rmTarget_dry (t : Name) (st : World × List Ev) (p : Path) : (rmTarget true t st p).1 = st.1 := by
  unfold rmTarget
  split
  · rfl
  · split
    · split <;> rfl
    · rfl

end DoitModel.C14
