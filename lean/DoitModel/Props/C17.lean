import DoitModel.Proofs.ActFrame
import DoitModel.Proofs.ActTask
import DoitModel.Proofs.ActFwd
import DoitModel.Proofs.ActMode
import DoitModel.Proofs.ActModeBuf
/-! # C17 — action outcomes are classified exactly and output is captured intact

Property theorems only (model: `Model/Act.lean`; helpers: `Proofs/Act.lean`, `Proofs/ActFrame.lean`,
`Proofs/ActTask.lean`).  Quantification: every return category / exception, every return code (all of `Int`),
every list of actions, every well-nested interleaving of python-action executions of any depth and length. -/
namespace DoitModel.C17
open DoitModel.Act

/-! ## classification -/

/-- A python-action succeeds iff it returns True/None/str/dict, fails iff it returns False or a `TaskFailed`
    instance, is an error iff it raises an `Exception`, returns a `TaskError` instance (returned as it is) or
    anything else.  What the statement does not say and the code does: a `BaseException` that is not an
    `Exception` (KeyboardInterrupt, SystemExit) is **not** classified — it leaves `execute()` (`raised`);
    the streams are restored all the same (`restore_exec`). -/
theorem classify_py (r : PyRet) :
    (classifyPy r = .ok ↔ (r = .rTrue ∨ r = .rNone ∨ (∃ s, r = .rStr s) ∨ (∃ d, r = .rDict d))) ∧
    (classifyPy r = .failed ↔ (r = .rFalse ∨ r = .rTaskFailed)) ∧
    (classifyPy r = .error ↔ (r = .raisesExc ∨ r = .rTaskError ∨ r = .rOther)) ∧
    (classifyPy r = .raised ↔ r = .raisesBase) := by
  cases r <;> simp [classifyPy]

/-- what `PythonAction.execute` leaves behind: the outcome is the classification; `values` is the returned dict
    and nothing else; `result` is the returned str/dict and `None` otherwise; when `_prepare_kwargs` raises
    the exception propagates and nothing is set -/
theorem py_exec (r : PyRet) :
    (pyExec false r).outcome = classifyPy r ∧
    (∀ d, r = .rDict d → (pyExec false r).values = d ∧ (pyExec false r).result = .dict d) ∧
    (∀ s, r = .rStr s → (pyExec false r).values = [] ∧ (pyExec false r).result = .str s) ∧
    ((∀ d, r ≠ .rDict d) → (∀ s, r ≠ .rStr s) → (pyExec false r).values = [] ∧ (pyExec false r).result = .none) ∧
    pyExec true r = ⟨.raised, .none, []⟩ := by
  cases r <;> simp [pyExec, classifyPy]

/-- The classification of a python-action and the text its body produces do not depend on the verbosity (on
    whether a live stream is handed over): the tee `Writer` has the same interface with and without a live stream.
    The one operation whose result the code makes depend on the live stream is `fileno()` (answered by the live
    stream; `UnsupportedOperation` without one) -- hence the hypothesis. -/
theorem classification_verbosity_independent (capture l1 l2 : Bool) (ops : List StreamOp) (ret : PyRet)
    (h : StreamOp.fileno ∉ ops) :
    bodyRun capture l1 ops = bodyRun capture l2 ops ∧
    pyExec false (pyBody capture l1 ops ret) = pyExec false (pyBody capture l2 ops ret) := by
  have hb : bodyRun capture l1 ops = bodyRun capture l2 ops := by
    induction ops with
    | nil => rfl
    | cons op rest ih =>
      have hop : op ≠ StreamOp.fileno := fun e => h (by simp [e])
      have hr : StreamOp.fileno ∉ rest := fun e => h (by simp [e])
      have he : opEffect capture l1 op = opEffect capture l2 op := by
        cases op <;> first | rfl | exact absurd rfl hop
      simp only [bodyRun, he, ih hr]
  exact ⟨hb, by simp only [pyBody, hb]⟩

/-- with capture on, a body using `writelines`, `.buffer.write` or any other attribute the `Writer` lacks is an
    error at every verbosity, and the operations after it never run -/
theorem writer_interface (l : Bool) (pre post : List StreamOp) (op : StreamOp) (ret : PyRet)
    (hpre : ∀ o ∈ pre, opEffect true l o ≠ .raises)
    (hop : op = .writelines ∨ op = .bufferWrite ∨ op = .attr) :
    classifyPy (pyBody true l (pre ++ op :: post) ret) = .error ∧
    (bodyRun true l (pre ++ op :: post)).1.length = pre.length := by
  have key : (bodyRun true l (pre ++ op :: post)).2 = true ∧
      (bodyRun true l (pre ++ op :: post)).1.length = pre.length := by
    induction pre with
    | nil => rcases hop with e | e | e <;> subst e <;> simp [bodyRun, opEffect]
    | cons p pre ih =>
      have hp := hpre p (by simp)
      have ih' := ih (fun o ho => hpre o (by simp [ho]))
      cases hpe : opEffect true l p with
      | raises => exact absurd hpe hp
      | text => simp [bodyRun, hpe, ih'.1, ih'.2]
      | silent => simp [bodyRun, hpe, ih'.1, ih'.2]
  exact ⟨by simp [pyBody, key.1, classifyPy], key.2⟩

/-- A cmd-action succeeds iff the return code is 0, is an error iff it is above 125, fails for every other
    return code — which includes the negative return codes of a process killed by a signal (the statement is
    silent about those; this is what the code does). -/
theorem classify_cmd (rc : Int) :
    (classifyCmd rc = .ok ↔ rc = 0) ∧
    (classifyCmd rc = .failed ↔ (rc ≠ 0 ∧ rc ≤ 125)) ∧
    (classifyCmd rc = .error ↔ rc > 125) ∧
    classifyCmd rc ≠ .raised := by
  unfold classifyCmd
  by_cases h1 : rc > 125
  · simp [h1]; omega
  · by_cases h2 : rc = 0
    · simp [h2]
    · simp [h1, h2]; omega

/-- exit statuses 0..255: 0 ok, 1..125 failed, 126..255 error -/
theorem classify_cmd_status (n : Nat) (h : n ≤ 255) :
    classifyCmd n = (if n = 0 then .ok else if n ≤ 125 then .failed else .error) := by
  unfold classifyCmd
  by_cases h0 : n = 0
  · simp [h0]
  · by_cases h1 : n ≤ 125
    · have : ¬ ((n : Int) > 125) := by omega
      have h0' : (n : Int) ≠ 0 := by omega
      simp [h0, h1, this]
    · have : (n : Int) > 125 := by omega
      simp [h0, h1, this]

/-- killed by signal `sig` (`returncode = -sig`): failed -/
theorem classify_cmd_signal (sig : Nat) (h : 0 < sig) : classifyCmd (-(sig : Int)) = .failed := by
  unfold classifyCmd
  have h1 : ¬ (-(sig : Int) > 125) := by omega
  have h2 : -(sig : Int) ≠ 0 := by omega
  simp [h1, h2]

/-- `CmdAction.execute`: the outcome is the return-code class (error when the command string cannot be
    built); with capture `result = out + err`; `save_out` stores `out` only when the action succeeded -/
theorem cmd_exec (cap : Cap) (saveOut : Option Nat) (rc : Int) (out err : List Char) :
    (cmdExec false cap saveOut rc out err).outcome = classifyCmd rc ∧
    (cmdExec true cap saveOut rc out err) = ⟨.error, .none, []⟩ ∧
    (cap = .yes → (cmdExec false cap saveOut rc out err).result = .str (out ++ err)) ∧
    (cap ≠ .yes → (cmdExec false cap saveOut rc out err).result = .none) ∧
    (∀ k, saveOut = some k → rc = 0 → cap = .yes →
        (cmdExec false cap saveOut rc out err).values = [(k, .text out)]) ∧
    (rc ≠ 0 → (cmdExec false cap saveOut rc out err).values = []) ∧
    (saveOut = none → (cmdExec false cap saveOut rc out err).values = []) := by
  have hc := classify_cmd rc
  refine ⟨?_, ?_, ?_, ?_, ?_, ?_, ?_⟩
  · simp only [cmdExec]; cases classifyCmd rc <;> cases saveOut <;> simp
  · simp [cmdExec]
  · intro h; simp only [cmdExec, h]; cases classifyCmd rc <;> cases saveOut <;> simp
  · intro h; simp only [cmdExec, h]; cases classifyCmd rc <;> cases saveOut <;> simp
  · intro k hk h0 hy
    have : classifyCmd rc = .ok := hc.1.mpr h0
    simp [cmdExec, hk, this, hy]
  · intro h0
    have : classifyCmd rc ≠ .ok := fun e => h0 (hc.1.mp e)
    simp only [cmdExec]
    cases hcl : classifyCmd rc <;> cases saveOut <;> simp_all
  · intro hn; simp only [cmdExec, hn]; cases classifyCmd rc <;> simp

/-- F-C17c (fixed in /repo, c208dcd): the captured text does not depend on the `buffering` value; the pinned
    code decoded each read on its own and turned `a é b` (61 C3 A9 62) read two bytes at a time into
    `a U+FFFD U+FFFD b` -/
theorem pinned_buffering_counterexample :
    (∀ n m bytes, cmdDecode n bytes = cmdDecode m bytes) ∧
    cmdDecode 2 [0x61, 0xC3, 0xA9, 0x62] = [0x61, 0xE9, 0x62] ∧
    cmdDecodePinned 2 [0x61, 0xC3, 0xA9, 0x62] = [0x61, 65533, 65533, 0x62] ∧
    cmdDecodePinned 4 [0x61, 0xC3, 0xA9, 0x62] = [0x61, 0xE9, 0x62] := by
  refine ⟨fun _ _ _ => rfl, ?_, ?_, ?_⟩ <;> decide

/-- The `doit.tools` action classes, as documented and as coded.  `LongRunning`: always successful whatever the
    return code and whether or not it was interrupted (unless the command cannot be built).  `Interactive`:
    successful iff the return code is 0, otherwise *failed* -- never an error, also above 125.
    `PythonInteractiveAction`: an error iff the callable raises an `Exception`; every returned value, `False` and
    `TaskFailed`/`TaskError` instances included, is a success (the statement's "fails iff it returns False" is about
    `PythonAction`; this class documents "successful unless an exception is raised"). -/
theorem tools_actions (rc : Int) (i : Bool) (r : PyRet) :
    (longRunningExec false i rc).outcome = .ok ∧
    ((interactiveExec false false rc).outcome = .ok ↔ rc = 0) ∧
    (interactiveExec false false rc).outcome ≠ .error ∧
    (interactiveExec false true rc).outcome = .raised ∧
    ((pyInteractiveExec false r).outcome = .error ↔ r = .raisesExc) ∧
    ((pyInteractiveExec false r).outcome = .raised ↔ r = .raisesBase) ∧
    (pyInteractiveExec false r).outcome ≠ .failed ∧
    (∀ d, r = .rDict d → (pyInteractiveExec false r).values = d) := by
  refine ⟨rfl, ?_, ?_, rfl, ?_, ?_, ?_, ?_⟩
  · by_cases h : rc = 0 <;> simp [interactiveExec, h]
  · by_cases h : rc = 0 <;> simp [interactiveExec, h]
  · cases r <;> simp [pyInteractiveExec]
  · cases r <;> simp [pyInteractiveExec]
  · cases r <;> simp [pyInteractiveExec]
  · intro d hd; subst hd; simp [pyInteractiveExec]

/-! ## `Task.execute` -/

/-- A task stops at its first unsuccessful action (`ran` counts the `execute` calls: the successful prefix plus
    the unsuccessful action), returns that action's failure, and its `values` / `result` come from the
    successful actions that ran: `values` = their `values` merged in order (`dict.update`), `result` = the
    `result` attribute of the last of them (`None` when that action returned True/None; the unsuccessful
    action contributes nothing). -/
theorem task_execute (as : List ARes) :
    (taskExecute as).values = (okPrefix as).foldl (fun v a => Vals.update v a.values) [] ∧
    (taskExecute as).result = (((okPrefix as).getLast?).map (·.result)).getD .none ∧
    (taskExecute as).outcome = ((as[(okPrefix as).length]?).map (·.outcome)).getD .ok ∧
    (taskExecute as).ran = (okPrefix as).length + (if (okPrefix as).length < as.length then 1 else 0) ∧
    (∀ a ∈ okPrefix as, a.outcome = .ok) ∧
    (∀ a, as[(okPrefix as).length]? = some a → a.outcome ≠ .ok) := by
  have h := taskRun_spec as .none [] 0
  refine ⟨h.1, ?_, h.2.2.1, ?_, ?_, ?_⟩
  · rw [taskExecute, h.2.1, foldl_last]
  · rw [taskExecute, h.2.2.2]; omega
  · exact okPrefix_all_ok as
  · exact okPrefix_next_bad as

/-- `Task.execute_teardown` stops at the first unsuccessful teardown action exactly as `Task.execute` does -/
theorem teardown_execute (as : List ARes) :
    teardownRun 0 as = ((taskExecute as).outcome, (taskExecute as).ran) :=
  teardownRun_spec as .none [] 0

/-- the merged values as a dictionary: the last successful action binding `k` wins -/
theorem task_values_lookup (as : List ARes) (k : Nat) :
    Vals.get (taskExecute as).values k = (okPrefix as).reverse.findSome? (fun a => Vals.get a.values k) := by
  rw [(task_execute as).1, foldl_update_get]
  simp [Vals.get, alookup]

/-! ## captured intact, streams restored: the stream machine -/

/-- **Nested or disjoint executions** (serial runner, each worker process; any depth, any length): from the
    initial state (cell = the original stream), after the whole list — hence after the last `restore` of every
    top-level execution, the statement holding for every well-nested list — the cell holds the original
    stream again, no `restore` found its saved stream missing, every write of every action `a` is in `a.out`
    in order and nothing else is, and nothing leaked to the original stream. -/
theorem restore_nested (evs : List Ev) (h : WN none evs) (hn : (started evs).Nodup) :
    (run St.init evs).cell = .orig ∧
    (run St.init evs).unbound = false ∧
    (∀ a, a ∈ started evs → (run St.init evs).out a = some (writesOf a evs)) ∧
    (run St.init evs).origLog = [] := by
  have F := wn_frame h St.init hn (by intro b _; rfl) (by intro a ha; cases ha)
  exact ⟨F.cell, F.unbound, F.outs, F.orig⟩

/-- the same from **any** state (whatever object `sys.stdout` is bound to when the run starts): the cell is
    left as found -/
theorem restore_nested_any (evs : List Ev) (h : WN none evs) (hn : (started evs).Nodup) (s : St)
    (hfresh : ∀ b, b ∈ started evs → s.buf b = []) :
    (run s evs).cell = s.cell ∧ (run s evs).origLog = s.origLog ∧
    (∀ a, a ∈ started evs → (run s evs).out a = some (writesOf a evs)) := by
  have F := wn_frame h s hn hfresh (by intro a ha; cases ha)
  exact ⟨F.cell, F.orig, F.outs⟩

/-- one python-action execution in the order of the repaired code, whatever its callable returns or raises
    (`try/finally`: same steps), with any nested scenario `body` inside its callable and whether or not
    `_prepare_kwargs` raises: cell restored, own writes captured -/
theorem restore_exec (kwargsRaise : Bool) (a : Act) (body : Forest)
    (hn : (started (execSteps kwargsRaise a (flatten (some a) body))).Nodup) :
    (run St.init (execSteps kwargsRaise a (flatten (some a) body))).cell = .orig ∧
    (kwargsRaise = false →
      (run St.init (execSteps kwargsRaise a (flatten (some a) body))).out a
        = some (writesOf a (flatten (some a) body))) := by
  cases kwargsRaise with
  | true => simp [execSteps, run, St.init]
  | false =>
    have hw : WN none (execSteps false a (flatten (some a) body)) := by
      have := WN.exec none a _ [] (flatten_wn body (some a)) (WN.nil none)
      simpa [execSteps] using this
    have R := restore_nested _ hw hn
    refine ⟨R.1, fun _ => ?_⟩
    rw [R.2.2.1 a (by simp [execSteps, started])]
    simp [execSteps, writesOf_append, writesOf]

/-- every scenario the harness generates as a forest satisfies the hypothesis of `restore_nested` -/
theorem forest_well_nested (f : Forest) : WN none (flatten none f) := flatten_wn f none

/-- and every well-nested list comes from a forest: `WN none` and "is the step list of a forest" are the same
    hypothesis -/
theorem well_nested_iff_forest (evs : List Ev) : WN none evs ↔ ∃ f : Forest, flatten none f = evs :=
  ⟨wn_is_forest, fun ⟨f, hf⟩ => hf ▸ flatten_wn f none⟩

/-- `restore_nested` with decidable hypotheses only: for every scenario forest whose action ids are distinct -/
theorem restore_forest (f : Forest) (hn : (started (flatten none f)).Nodup) :
    (run St.init (flatten none f)).cell = .orig ∧
    (run St.init (flatten none f)).unbound = false ∧
    (∀ a, a ∈ started (flatten none f) →
      (run St.init (flatten none f)).out a = some (writesOf a (flatten none f))) ∧
    (run St.init (flatten none f)).origLog = [] :=
  restore_nested _ (flatten_wn f none) hn

/-- The same **with the live copy of `Writer`** (the machine `Fwd`: a writer forwards every write to the live
    stream it was handed, which in a nested execution is the enclosing action's writer): for every well-nested
    list of any depth, whatever the verbosity of each execution, the cell is restored, every buffer's own
    tokens are exactly the action's writes in order (forwarded text of nested executions may be interleaved
    with them, never lost or reordered), and when no execution is handed a live stream nothing reaches the
    original stream. -/
theorem restore_nested_live (evs : List Fwd.Ev) (h : Fwd.WN none evs) (hn : (Fwd.started evs).Nodup) :
    (Fwd.run Fwd.St.init evs).cell = .orig ∧
    (Fwd.run Fwd.St.init evs).unbound = false ∧
    (∀ a, a ∈ Fwd.started evs →
      ∃ l, (Fwd.run Fwd.St.init evs).out a = some l ∧ Fwd.own a l = Fwd.writesOf a evs) ∧
    (Fwd.allOff evs = true → (Fwd.run Fwd.St.init evs).origLog = []) := by
  have F := Fwd.wn_frame h Fwd.St.init hn (by intro b _; exact ⟨rfl, by simp [Fwd.St.init, Fwd.bufsOf]⟩)
    (by intro a ha; cases ha)
  exact ⟨F.cell, F.unbound, F.outs, fun hoff => F.quiet hoff (by intro a ha; cases ha)⟩

theorem forest_well_nested_live (f : Fwd.Forest) : Fwd.WN none (Fwd.flatten none f) := Fwd.flatten_wn f none

theorem well_nested_iff_forest_live (evs : List Fwd.Ev) :
    Fwd.WN none evs ↔ ∃ f : Fwd.Forest, Fwd.flatten none f = evs :=
  ⟨Fwd.wn_is_forest, fun ⟨f, hf⟩ => hf ▸ Fwd.flatten_wn f none⟩

/-- `restore_nested_live` with decidable hypotheses only -/
theorem restore_forest_live (f : Fwd.Forest) (hn : (Fwd.started (Fwd.flatten none f)).Nodup) :
    (Fwd.run Fwd.St.init (Fwd.flatten none f)).cell = .orig ∧
    (Fwd.run Fwd.St.init (Fwd.flatten none f)).unbound = false ∧
    (∀ a, a ∈ Fwd.started (Fwd.flatten none f) →
      ∃ l, (Fwd.run Fwd.St.init (Fwd.flatten none f)).out a = some l ∧
        Fwd.own a l = Fwd.writesOf a (Fwd.flatten none f)) ∧
    (Fwd.allOff (Fwd.flatten none f) = true → (Fwd.run Fwd.St.init (Fwd.flatten none f)).origLog = []) :=
  restore_nested_live _ (Fwd.flatten_wn f none) hn

/-- **Overlapping executions** (two threads of one process, F-C17a, open): a legal interleaving of two
    python-actions (each thread follows its program order) after which the cell holds the stale writer of
    action 0, action 0 lost its write, action 1 captured it, and action 1's write leaked to the original
    stream. -/
theorem overlap_counterexample :
    let evs : List Ev := [.save 0, .set 0, .save 1, .set 1, .write 0 7, .restore 0, .read 0,
                          .write 1 8, .restore 1, .read 1]
    progOrder (fun _ => 0) evs = true ∧ (started evs).Nodup ∧
    (run St.init evs).cell = .writer 0 ∧
    (run St.init evs).out 0 = some [] ∧ writesOf 0 evs = [(0, 7)] ∧
    (run St.init evs).out 1 = some [(0, 7)] ∧ writesOf 1 evs = [(1, 8)] ∧
    (run St.init evs).origLog = [(1, 8)] := by
  decide

/-- the shortest overlap (the order of `findings/demos/F-C17a.py`): no write needed to lose the original -/
theorem overlap_counterexample_min :
    progOrder (fun _ => 0) [.save 0, .set 0, .save 1, .set 1, .restore 0, .read 0, .restore 1, .read 1] = true ∧
    (run St.init [.save 0, .set 0, .save 1, .set 1, .restore 0, .read 0, .restore 1, .read 1]).cell
      = .writer 0 := by
  decide

/-- F-C17b (fixed in /repo): in the pinned order `_prepare_kwargs` ran after the swap and outside the `try`;
    when it raised, the cell kept the action's writer -/
theorem pinned_kwargs_counterexample :
    (run St.init (execStepsPinned true 0 [])).cell = .writer 0 ∧
    (run St.init (execSteps true 0 [])).cell = .orig := by
  decide

/-! ## shown live only as verbosity dictates -/

/-- verbosity 0: nothing live; 1: stderr only; 2 (and `None`): both.  With capture on, text is captured
    whatever the verbosity and copied to the live stream exactly when one was handed over. -/
theorem live_rule (v : Nat) (hv : v ≤ 2) :
    getOutErr (some v) = (decide (v = 2), decide (1 ≤ v)) ∧
    (∀ live, (pyRoute true live).captured = true ∧ (pyRoute true live).shown = live) ∧
    (∀ live, (cmdRoute .yes live).captured = true ∧ (cmdRoute .yes live).shown = live ∧
             (cmdRoute .yes live).inherited = false) := by
  refine ⟨?_, by intro l; simp [pyRoute], by intro l; simp [cmdRoute]⟩
  match v, hv with
  | 0, _ => rfl
  | 1, _ => rfl
  | 2, _ => rfl


/-! ## `io.capture` off as a mode of the stream machine (`Mode`) -/

/-- **Both swap disciplines, mixed and nested to any depth, from any state**: after a scenario of executions
    with capture on (`save; set; …; restore; read`) and capture off (`if out: swap … finally: if out: restore`)
    the process-wide cell holds the object it held before and no `restore` found its saved stream missing. -/
theorem restore_forest_mode (f : Mode.Forest) (o : Option Act) (s : Fwd.St)
    (hn : (Mode.started (Mode.flatten o f)).Nodup) :
    (Mode.run s (Mode.flatten o f)).cell = s.cell ∧ (Mode.run s (Mode.flatten o f)).unbound = s.unbound :=
  ⟨(Mode.frame f o s hn).cell, (Mode.frame f o s hn).unbound⟩

/-- **capture off**: one execution of `PythonAction.execute` with `io.capture` false, at any verbosity (`on`),
    whose callable runs any scenario `body` (own writes, nested executions of either mode) and ends in any way
    (normal return, failure, `Exception`, `BaseException`: `try/finally`, same steps), started in any state: the
    process-wide stream is the one before the call, no saved stream was missing, and `action.out` is what it was
    (`None` for a fresh action: nothing is captured). -/
theorem restore_exec_nocapture (a : Act) (on : Bool) (body : Mode.Forest) (s : Fwd.St)
    (hn : (Mode.started (Mode.execNC a on body)).Nodup) :
    (Mode.run s (Mode.execNC a on body)).cell = s.cell ∧
    (Mode.run s (Mode.execNC a on body)).unbound = s.unbound ∧
    (Mode.run s (Mode.execNC a on body)).out a = s.out a := by
  have he : Mode.execNC a on body = Mode.flatten none (.exec a on false body .nil) := by
    simp [Mode.execNC, Mode.flatten]
  rw [he] at hn ⊢
  have F := Mode.frame (.exec a on false body .nil) none s hn
  refine ⟨F.cell, F.unbound, Mode.out_only_read _ s a ?_⟩
  intro hr
  simp only [Mode.flatten, Mode.started_exec, List.nodup_cons, List.mem_append, not_or] at hn
  simp only [Mode.flatten, Mode.reads_append, List.mem_append] at hr
  rcases hr with ((hr | hr) | hr) | hr
  · simp [Mode.pre, Mode.reads] at hr
  · exact hn.1.1 (Mode.reads_sub_started body _ a hr)
  · simp [Mode.post, Mode.reads] at hr
  · simp [Mode.reads] at hr

/-- **capture off passes everything through**: when the stream in the cell reaches the original stream (top
    level, or inside executions that are all shown live), every token the callable of a capture-off execution
    writes itself is on the original stream afterwards, in order, exactly once -- for *every* verbosity `on`
    (with capture off the verbosity only decides whether `sys.stdout` is re-bound to the same object). -/
theorem nocapture_passthrough (a : Act) (on : Bool) (body : Mode.Forest) (s : Fwd.St)
    (hn : (Mode.started (Mode.execNC a on body)).Nodup) (hr : Fwd.reachesOrig s.cell = true) :
    Fwd.own a (Mode.run s (Mode.execNC a on body)).origLog
      = Fwd.own a s.origLog ++ Mode.writesOf a (Mode.flatten (some a) body) := by
  have he : Mode.execNC a on body = Mode.flatten none (.exec a on false body .nil) := by
    simp [Mode.execNC, Mode.flatten]
  rw [he] at hn
  simp only [Mode.flatten, Mode.started_exec, List.nodup_cons, List.mem_append, not_or, List.nodup_append] at hn
  obtain ⟨⟨haB, _⟩, hnB, _, _⟩ := hn
  have P := Mode.pre_nc s a on
  have FB := Mode.frame body (some a) (Mode.run s (Mode.pre a on false)) hnB
  have Q := Mode.post_nc (Mode.run (Mode.run s (Mode.pre a on false)) (Mode.flatten (some a) body)) a s.cell
    (by rw [FB.cell, P.1]) (by rw [FB.keepLive a haB, FB.keepSaved a haB]; exact P.2.1)
  simp only [Mode.execNC, Mode.run_append]
  rw [Q.2.2.2.2.1, FB.pass a haB, P.1, P.2.2.2.2, hr]
  rfl

/-- the capture-off execution from the initial state: the original stream holds exactly the callable's own
    writes (as far as `a`'s tokens go), whatever the verbosity -/
theorem nocapture_passthrough_init (a : Act) (on : Bool) (body : Mode.Forest)
    (hn : (Mode.started (Mode.execNC a on body)).Nodup) :
    Fwd.own a (Mode.run Fwd.St.init (Mode.execNC a on body)).origLog = Mode.writesOf a (Mode.flatten (some a) body) := by
  have := nocapture_passthrough a on body Fwd.St.init hn rfl
  simpa [Fwd.St.init, Fwd.own] using this

/-- **Captured intact in both modes at once**: for every scenario forest mixing capturing and non-capturing
    executions to any depth (distinct ids), from the initial state: the cell is the original stream again, no saved
    stream was missing, every *capturing* execution ends with `out` holding exactly its own writes in order among
    the tokens of its buffer (text forwarded by nested executions -- live copies of capturing ones, everything of
    non-capturing ones -- may be interleaved, never lost or reordered), and every *non-capturing* execution ends
    with `out = None`. -/
theorem captured_intact_mode (f : Mode.Forest) (hn : (Mode.started (Mode.flatten none f)).Nodup) :
    (Mode.run Fwd.St.init (Mode.flatten none f)).cell = .orig ∧
    (Mode.run Fwd.St.init (Mode.flatten none f)).unbound = false ∧
    (∀ b, b ∈ Mode.reads (Mode.flatten none f) →
      ∃ l, (Mode.run Fwd.St.init (Mode.flatten none f)).out b = some l ∧
        Fwd.own b l = Mode.writesOf b (Mode.flatten none f)) ∧
    (∀ b, b ∉ Mode.reads (Mode.flatten none f) → (Mode.run Fwd.St.init (Mode.flatten none f)).out b = none) := by
  have F := Mode.frame f none Fwd.St.init hn
  have B := Mode.bframe f none Fwd.St.init hn (by intro b _; exact ⟨rfl, by simp [Fwd.St.init, Fwd.bufsOf]⟩)
    (by intro a ha; cases ha)
  exact ⟨F.cell, F.unbound, B.outs, fun b hb => Mode.out_only_read _ _ b hb⟩

/-- **Overlapping executions with capture off are harmless** (the contrast to `overlap_counterexample`, F-C17a):
    steps of capture-off executions in *any* order -- any number of threads, any interleaving, not even the program
    order of a thread is needed -- leave the cell holding the original stream, put every write on the original
    stream in the order it happened, and set no `out`.  With capture off nothing but the object already in the cell
    is ever stored into it. -/
theorem nocapture_overlap_harmless (evs : List Mode.Ev) (h : Mode.ncOnly evs = true) :
    (Mode.run Fwd.St.init evs).cell = .orig ∧
    (Mode.run Fwd.St.init evs).origLog = Mode.allWrites evs ∧
    (∀ a, (Mode.run Fwd.St.init evs).out a = none) := by
  have I := Mode.nc_only_inv evs Fwd.St.init h rfl (fun _ => Or.inr rfl) (fun _ => Or.inl rfl)
  refine ⟨I.1, by simpa [Fwd.St.init] using I.2.1, fun a => by rw [I.2.2]; rfl⟩

/-- the machine with the live copy (`restore_nested_live`) is the all-capture fragment of `Mode` -/
theorem mode_extends_fwd (f : Fwd.Forest) (o : Option Act) (s : Fwd.St) :
    Mode.run s (Mode.flatten o (Mode.ofFwdForest f)) = Fwd.run s (Fwd.flatten o f) := by
  rw [Mode.flatten_ofFwd, Mode.run_ofFwd]

/-- **The outcome class does not depend on the capture mode**: for a python-action whose body uses the stream
    operations every stream supports (`write`, `print`, `flush`, `isatty`) the whole `ARes` (outcome, result,
    values) is the same with capture on and off; for a cmd-action the outcome is the same for every `io.capture`
    value.  The hypothesis is needed and the code's behaviour: `writelines` (like `.buffer`, `.encoding`) exists on
    the caller's stream and not on the `Writer`, so that body is an error with capture on and fine with capture off. -/
theorem capture_mode_independent_classification :
    (∀ (l1 l2 : Bool) (ops : List StreamOp) (ret : PyRet) (kw : Bool), (∀ op ∈ ops, op.common = true) →
      pyExec kw (pyBody true l1 ops ret) = pyExec kw (pyBody false l2 ops ret)) ∧
    (∀ (c1 c2 : Cap) (e : Bool) (so : Option Nat) (rc : Int) (out err : List Char),
      (cmdExec e c1 so rc out err).outcome = (cmdExec e c2 so rc out err).outcome) ∧
    (classifyPy (pyBody true false [.writelines] .rTrue) = .error ∧
     classifyPy (pyBody false false [.writelines] .rTrue) = .ok) := by
  refine ⟨?_, ?_, by decide⟩
  · intro l1 l2 ops ret kw h
    have hb : ∀ c l, (bodyRun c l ops).2 = false := by
      intro c l
      induction ops with
      | nil => rfl
      | cons op rest ih =>
        have hop := h op (by simp)
        have ih' := ih (fun o ho => h o (by simp [ho]))
        cases op <;> simp [StreamOp.common] at hop <;> simp [bodyRun, opEffect, ih']
    simp [pyBody, hb]
  · intro c1 c2 e so rc out err
    cases e
    · rw [(cmd_exec c1 so rc out err).1, (cmd_exec c2 so rc out err).1]
    · simp [cmdExec]

/-- what the task asked for — `save_out` stores the same value whatever `io.capture` is — is **not** what
    `CmdAction.execute` does (`self.values[self.save_out] = self.out`, and `self.out` is only set under
    `if capture_io:`): see `save_out_independent_of_capture_refuted` -/
def save_out_independent_of_capture_full : Prop :=
  ∀ (c1 c2 : Cap) (so : Option Nat) (rc : Int) (out err : List Char),
    (cmdExec false c1 so rc out err).values = (cmdExec false c2 so rc out err).values

/-- as coded: with capture off a successful `save_out` action binds its key to `None` -/
theorem save_out_independent_of_capture_refuted : ¬ save_out_independent_of_capture_full := by
  intro h
  have := h .yes .no (some 1) 0 ['a'] []
  simp [cmdExec, classifyCmd] at this

/-- what does hold for every `io.capture` value: *whether* and under *which key* `save_out` binds does not depend
    on the capture mode (bound iff the action succeeded); the bound value is the process's stdout when capturing
    and `None` otherwise; `result` is `None` without capture -/
theorem save_out_independent_of_capture_partial (c1 c2 : Cap) (so : Option Nat) (rc : Int) (out err : List Char) :
    ((cmdExec false c1 so rc out err).values.map (·.1) = (cmdExec false c2 so rc out err).values.map (·.1)) ∧
    (∀ k, so = some k → rc = 0 →
      (cmdExec false c1 so rc out err).values = [(k, if c1 = .yes then Val.text out else Val.none)]) ∧
    (c1 ≠ .yes → (cmdExec false c1 so rc out err).result = .none) := by
  refine ⟨?_, ?_, (cmd_exec c1 so rc out err).2.2.2.1⟩
  · simp only [cmdExec]; cases classifyCmd rc <;> cases so <;> simp
  · intro k hk h0
    have : classifyCmd rc = .ok := (classify_cmd rc).1.mpr h0
    simp [cmdExec, hk, this]

/-- **what reaches the live stream with capture off**: a python-action's text is shown at every verbosity and
    never captured (verbosity only matters when capturing); a cmd-action with `io.capture` False hands the live
    stream to the process when verbosity gives one and lets it inherit the descriptor otherwise -- shown or
    inherited, never both, never captured; with `io.capture` None (any other falsy value) everything goes to
    `os.devnull`. -/
theorem live_rule_nocapture (v : Option Nat) (live : Bool) :
    pyRoute false live = ⟨false, true, false⟩ ∧
    pyRoute false (getOutErr v).1 = pyRoute false (getOutErr none).1 ∧
    pyRoute false (getOutErr v).2 = pyRoute false (getOutErr none).2 ∧
    cmdRoute .no live = ⟨false, live, !live⟩ ∧
    cmdRoute .devnull live = ⟨false, false, false⟩ := by
  refine ⟨rfl, rfl, rfl, rfl, rfl⟩

/-! ## non-vacuity -/

/-- a three-deep nested scenario with writes before, between and after the nested executions satisfies the
    hypotheses and every action really captures text -/
example :
    let f : Forest := .exec 0 (.write 1 (.exec 1 (.write 2 (.exec 2 (.write 3 .nil) (.write 4 .nil))) (.write 5 .nil)))
                        (.exec 3 (.write 6 .nil) .nil)
    (started (flatten none f)).Nodup ∧
    (run St.init (flatten none f)).cell = .orig ∧
    (run St.init (flatten none f)).out 0 = some [(0, 1), (0, 5)] ∧
    (run St.init (flatten none f)).out 1 = some [(1, 2), (1, 4)] ∧
    (run St.init (flatten none f)).out 2 = some [(2, 3)] ∧
    (run St.init (flatten none f)).out 3 = some [(3, 6)] := by
  decide

/-- the live copy at work: action 0 (live) runs action 1 (live) and action 2 (quiet); 1's text is forwarded into
    0's buffer and on to the original stream, 2's is not -/
example :
    let f : Fwd.Forest := .exec 0 true (.write 1 (.exec 1 true (.write 2 .nil) (.exec 2 false (.write 3 .nil) (.write 4 .nil)))) .nil
    (Fwd.started (Fwd.flatten none f)).Nodup ∧
    (Fwd.run Fwd.St.init (Fwd.flatten none f)).cell = .orig ∧
    (Fwd.run Fwd.St.init (Fwd.flatten none f)).out 0 = some [(0, 1), (1, 2), (0, 4)] ∧
    (Fwd.run Fwd.St.init (Fwd.flatten none f)).out 1 = some [(1, 2)] ∧
    (Fwd.run Fwd.St.init (Fwd.flatten none f)).out 2 = some [(2, 3)] ∧
    (Fwd.run Fwd.St.init (Fwd.flatten none f)).origLog = [(0, 1), (1, 2), (0, 4)] := by
  decide

/-- a task whose third action fails: two actions merged, the fourth never runs -/
example :
    taskExecute [pyExec false (.rDict [(1, .nat 5)]), pyExec false (.rStr ['a']), pyExec false .rFalse,
                 pyExec false (.rDict [(2, .nat 6)])]
      = ⟨.failed, .str ['a'], [(1, .nat 5)], 3⟩ := by
  decide

/-- the `result` of a task whose last action returns True is `None`, not the earlier string -/
example : (taskExecute [pyExec false (.rStr ['a']), pyExec false .rTrue]).result = .none := by decide

example : classifyCmd 125 = .failed ∧ classifyCmd 126 = .error ∧ classifyCmd (-9) = .failed := by decide

/-- capture off at work: action 0 (capture off, quiet) writes, runs action 1 (capture on, live) and action 2
    (capture off, live) and writes again: everything of 0 and 2 and the live copy of 1 is on the original stream in
    order, only 1 has an `out`, the cell is restored -/
example :
    let body : Mode.Forest := .write 1 (.exec 1 true true (.write 2 .nil) (.exec 2 true false (.write 3 .nil) (.write 4 .nil)))
    (Mode.started (Mode.execNC 0 false body)).Nodup ∧
    (Mode.run Fwd.St.init (Mode.execNC 0 false body)).cell = .orig ∧
    (Mode.run Fwd.St.init (Mode.execNC 0 false body)).origLog = [(0, 1), (1, 2), (2, 3), (0, 4)] ∧
    (Mode.run Fwd.St.init (Mode.execNC 0 true body)).origLog = [(0, 1), (1, 2), (2, 3), (0, 4)] ∧
    (Mode.run Fwd.St.init (Mode.execNC 0 false body)).out 0 = none ∧
    (Mode.run Fwd.St.init (Mode.execNC 0 false body)).out 1 = some [(1, 2)] ∧
    (Mode.run Fwd.St.init (Mode.execNC 0 false body)).out 2 = none := by
  decide

/-- a capture-off execution inside a quiet capturing one writes into that action's buffer, not to the original -/
example :
    let f : Mode.Forest := .exec 0 false true (.write 1 (.exec 1 true false (.write 2 .nil) .nil)) .nil
    (Mode.run Fwd.St.init (Mode.flatten none f)).cell = .orig ∧
    (Mode.run Fwd.St.init (Mode.flatten none f)).out 0 = some [(0, 1), (1, 2)] ∧
    (Mode.run Fwd.St.init (Mode.flatten none f)).origLog = [] := by
  decide

example : (cmdExec false .no (some 1) 0 ['a'] []).values = [(1, .none)] ∧
    (cmdExec false .yes (some 1) 0 ['a'] []).values = [(1, .text ['a'])] := by decide

example : (cmdRoute .no false).inherited = true ∧ (cmdRoute .no true).shown = true ∧ (pyRoute false false).shown = true := by
  decide

example : pyExec false (pyBody true false [.write, .flush, .print] (.rStr ['x']))
    = pyExec false (pyBody false true [.write, .flush, .print] (.rStr ['x'])) := by decide

/-- `captured_intact_mode` is not vacuous: a capturing, live action 0 runs a non-capturing action 1 which runs a
    capturing quiet action 2 -/
example :
    let f : Mode.Forest := .exec 0 true true (.write 1 (.exec 1 false false (.write 2 (.exec 2 false true (.write 3 .nil) (.write 4 .nil))) (.write 5 .nil))) .nil
    (Mode.started (Mode.flatten none f)).Nodup ∧ Mode.reads (Mode.flatten none f) = [2, 0] ∧
    (Mode.run Fwd.St.init (Mode.flatten none f)).out 0 = some [(0, 1), (1, 2), (1, 4), (0, 5)] ∧
    (Mode.run Fwd.St.init (Mode.flatten none f)).out 1 = none ∧
    (Mode.run Fwd.St.init (Mode.flatten none f)).out 2 = some [(2, 3)] ∧
    (Mode.run Fwd.St.init (Mode.flatten none f)).origLog = [(0, 1), (1, 2), (1, 4), (0, 5)] := by
  decide

/-- the interleaving of `overlap_counterexample` with capture off (both live): harmless -/
example :
    let evs : List Mode.Ev := [.getlive 0 true, .swapNC 0, .getlive 1 true, .swapNC 1, .write 0 7, .restoreNC 0,
                               .write 1 8, .restoreNC 1]
    Mode.ncOnly evs = true ∧ (Mode.run Fwd.St.init evs).cell = .orig ∧
    (Mode.run Fwd.St.init evs).origLog = [(0, 7), (1, 8)] := by
  decide

end DoitModel.C17
