import DoitModel.Proofs.C05Mon
import DoitModel.Proofs.C05Halt
/-! # C05 — failures are contained and never recorded as success

Property theorems only (model: `Model/Run.lean` + `Model/RunFail.lean`; invariants: `Proofs/Run*.lean`,
`Proofs/C05*.lean`).  Quantification as for C01/C02: every task table (any graph), every selection, every oracle
(status / ignore / outcome incl. "cannot be saved" / calc results / getargs errors), with and without `--continue`,
every iteration order of the `set`s the dispatcher iterates, every interleaving of any number of workers, every
reachable state — hence every prefix of every run.  `s.events` is newest first.

`DepPlus inp t d`: `t` depends on `d` through one or more edges of any kind — task_dep (incl. target→file_dep and
result_dep after the M8 expansion), calc_dep, what calc_deps deliver, setup (incl. getargs after expansion; a setup edge of
a task that is up-to-date does not count: its setup-tasks are never looked at, DESIGN §5 "closure").

Deliveries of FAILED calc tasks: doit also delivers the values a calc task returned before its execution failed (M1
`deliverF`, oracle `calcResFail`; the waiting task is reported unmet, what was delivered is still created and
processed).  Every theorem below holds for all inputs, those included (no `NoFailDeliver` hypothesis any more).  The
"normal report" theorems keep their narrow relations (`DepOnE`, `DepObs`: what executed / up-to-date calc_deps
delivered): the node invariant behind them (`Proofs/C05Unmet.lean`, `NDp`) is stated over the wider observed relation
`DepObsF` (… or what a calc_dep that was started and then reported failed delivered), and a dependency seen only the wide
way always comes with the failed calc_dep that delivered it, itself observed the narrow way (`DepObsF.reduce`) — so an
`unmet` / `skip_ignore` report is still justified by a failed / ignored dependency of the narrow kind.  The monitor
`monC05ContinueComplete` is unchanged (its `closureOf` / `edgesOf` count finished calc_deps only; what failed calc tasks
delivered is extra work the run did, reported once all the same by C02's `closureOfF` monitors). -/
namespace DoitModel.C05
open DoitModel.Run

/-- (a) for one transition system (`DepPlusE`: the dependency relation as the run determines it — it contains the static
    `DepPlus`, see `C05_no_start_after_failure`; it differs only in counting the setup-tasks of every task the run did
    not report up-to-date, whatever the oracle says): once `d` has a failure report (failed / error / unmet dependency / dependency error),
    a task `t` that depends on `d` in any way is never chosen by `select_task`, its actions never start — neither
    after the report (what the property asks) nor before it — and it is reported neither successful nor up-to-date -/
def NoDependentRuns (inp : RunInput) (reach : Sys → Prop) : Prop :=
  ∀ s, reach s → ∀ (d t : Name) (k : FailKind), Ev.failure d k ∈ s.events → DepPlusE inp s.events t d →
    (∀ deps, Ev.go t deps ∉ s.events) ∧ (∀ w, Ev.start t w ∉ s.events) ∧ Ev.success t ∉ s.events ∧
      Ev.skipUtd t ∉ s.events

/-- C05 (a), serial runner, with or without `--continue` -/
theorem C05_no_dependent_runs_serial (inp : RunInput) : NoDependentRuns inp (Reach inp) :=
  fun _ hr _ _ _ hf hd => failed_dep_never_started (reach_inv2 hr) (reach_invG hr) (reach_invF hr) hf hd

/-- C05 (a), `MRunner` / `MThreadRunner`: every interleaving, every `numProcess`, with or without `--continue` -/
theorem C05_no_dependent_runs_parallel (inp : RunInput) : NoDependentRuns inp (PReach inp) :=
  fun _ hr _ _ _ hf hd => failed_dep_never_started (preach_inv hr).1 (preach_invG hr) (preach_invF hr) hf hd

/-- (a) in the positional form of the property text: no `start t` at a position after the failure report of `d` -/
theorem C05_no_start_after_failure (inp : RunInput) (s : Sys) (hr : PReach inp s ∨ Reach inp s) (pre post : List Ev)
    (d t : Name) (k : FailKind) (he : s.events = post ++ Ev.failure d k :: pre) (hd : DepPlus inp t d) :
    ∀ w, Ev.start t w ∉ post := by
  have hF : InvF inp s := by rcases hr with hr | hr; exact preach_invF hr; exact reach_invF hr
  have hd := depPlus_depPlusE hF hd
  intro w hw
  have hf : Ev.failure d k ∈ s.events := by rw [he]; simp
  have hs : Ev.start t w ∈ s.events := by rw [he]; simp [hw]
  rcases hr with hr | hr
  · exact (C05_no_dependent_runs_parallel inp s hr d t k hf hd).2.1 w hs
  · exact (C05_no_dependent_runs_serial inp s hr d t k hf hd).2.1 w hs

/-- a failure report always goes with `run_status = 'failure'`, which is final: the task is never reported again and
    what depends on it sees it in `bad_deps` (the invariant behind (a)) -/
theorem C05_failure_is_final (inp : RunInput) (s : Sys) (hr : PReach inp s ∨ Reach inp s) (d : Name) (k : FailKind)
    (hf : Ev.failure d k ∈ s.events) : stOf s d = .fail ∧ Ev.success d ∉ s.events ∧ Ev.skipUtd d ∉ s.events := by
  have hF : InvF inp s := by rcases hr with hr | hr; exact preach_invF hr; exact reach_invF hr
  have h := hF.fl d k hf
  refine ⟨h, fun a => ?_, fun a => ?_⟩
  · have := (hF.ok d a).1; rw [h] at this; cases this
  · have := hF.ut d a; rw [h] at this; cases this

/-- (b), the M1 part: `_handle_task_error` calls `remove_success` for every kind of failure report — the action failed
    or raised, a dependency failed (unmet), `get_status` answered `error` (missing file_dep before execution),
    `_get_task_args` raised, or `save_success` raised FileNotFoundError (missing file_dep after execution, outcome
    `saveErr`) — and no later `save_success` follows, so whatever record the task had before the run (`r0`), it has
    none after it.  (That a task without record is not up-to-date on the next run unless it is stateless is the M2 lemma
    `status_of_empty_record`; there is no M2 model yet, the harness observes it on the real code with a second run on
    each backend.) -/
theorem C05_not_recorded_serial (inp : RunInput) (s : Sys) (hr : Reach inp s) (r0 : Name → Bool) (n : Name)
    (k : FailKind) (hf : Ev.failure n k ∈ s.events) : recAfter r0 n s.events = false :=
  recAfter_failed r0 n s.events ((reach_inv3 hr).t2 n) ⟨k, hf⟩

theorem C05_not_recorded_parallel (inp : RunInput) (s : Sys) (hr : PReach inp s) (r0 : Name → Bool) (n : Name)
    (k : FailKind) (hf : Ev.failure n k ∈ s.events) : recAfter r0 n s.events = false :=
  recAfter_failed r0 n s.events ((preach_inv hr).2.t2 n) ⟨k, hf⟩

/-- with `--continue` a failure never sets `_stop_running` (all runners) -/
theorem C05_continue_never_stops (inp : RunInput) (hc : inp.continue_ = true) (s : Sys)
    (hr : PReach inp s ∨ Reach inp s) : s.stop = false := by
  rcases hr with hr | hr
  · exact (preach_invF hr).st hc
  · exact (reach_invF hr).st hc

/-- a task is reported `unmet` only if one of its direct dependencies (as the run determines them: `DepOnE`) has a
    failure report — so, by induction, only below a task that failed on its own account (all runners) -/
theorem C05_unmet_has_failed_dep (inp : RunInput) (s : Sys) (hr : PReach inp s ∨ Reach inp s) (t : Name)
    (h : Ev.failure t .unmet ∈ s.events) : ∃ d k, DepOnE inp s.events t d ∧ Ev.failure d k ∈ s.events := by
  rcases hr with hr | hr
  · exact unmet_has_failed_dep (preach_invU hr) (preach_invF hr) h
  · exact unmet_has_failed_dep (reach_invU hr) (reach_invF hr) h

/-- (c), serial runner, full strength: with `--continue`, when the run ends without an internal error, every task in
    the closure of the selection has exactly one terminal report (executed, up-to-date, ignored, or failed/unmet) — no
    failure cuts the run short — and the report is `unmet` only for tasks that depend on a task with a failure report;
    every other closure member gets its normal report -/
theorem C05_continue_complete_serial (inp : RunInput) (hc : inp.continue_ = true) (s : Sys) (hr : Reach inp s)
    (hend : s.rpc = .halted) (hhalt : s.halt = .none) :
    (∀ t, RunCl inp s t → s.events.countP (Ev.isTerminalOf t) = 1) ∧
    (∀ t, Ev.failure t .unmet ∈ s.events → ∃ d k, DepOnE inp s.events t d ∧ Ev.failure d k ∈ s.events) :=
  ⟨fun t ht => all_processed_serial hr hend hhalt ((reach_invF hr).st hc) t ht,
   fun _ h => unmet_has_failed_dep (reach_invU hr) (reach_invF hr) h⟩

/-- (c), `MRunner` / `MThreadRunner`, full strength — every interleaving of any number of workers: with `--continue`,
    when the main loop ends (`proc_count = 0`) without an internal error, every task in the closure of the selection has
    exactly one terminal report — its normal one (executed / up-to-date / ignored / failed on its own account) unless it
    depends on a task with a failure report, the only case in which it is reported `unmet`.  No hypothesis on `stop`:
    with `--continue` a failure never sets `_stop_running` (`C05_continue_never_stops`), so `get_next_job` never
    answers "nothing left" because of a failure; that the loop then leaves no closure member unprocessed is the
    `free_proc` / `proc_count` accounting invariant of `Proofs/RunAcct.lean` (`C02_all_processed_parallel`). -/
theorem C05_continue_complete_parallel (inp : RunInput) (hc : inp.continue_ = true) (s : Sys) (hr : PReach inp s)
    (hend : s.rpc = .halted) (hhalt : s.halt = .none) :
    (∀ t, RunCl inp s t → s.events.countP (Ev.isTerminalOf t) = 1) ∧
    (∀ t, Ev.failure t .unmet ∈ s.events → ∃ d k, DepOnE inp s.events t d ∧ Ev.failure d k ∈ s.events) :=
  ⟨fun t ht => all_processed_parallel hr hend hhalt ((preach_invF hr).st hc) t ht,
   fun _ h => unmet_has_failed_dep (preach_invU hr) (preach_invF hr) h⟩

/-- (c) for every runner (the statement that used to be the placeholder `def C05_continue_complete_full`) -/
theorem C05_continue_complete (inp : RunInput) (hc : inp.continue_ = true) (s : Sys)
    (hr : PReach inp s ∨ Reach inp s) (hend : s.rpc = .halted) (hhalt : s.halt = .none) :
    (∀ t, RunCl inp s t → s.events.countP (Ev.isTerminalOf t) = 1) ∧
    (∀ t, Ev.failure t .unmet ∈ s.events → ∃ d k, DepOnE inp s.events t d ∧ Ev.failure d k ∈ s.events) := by
  rcases hr with hr | hr
  · exact C05_continue_complete_parallel inp hc s hr hend hhalt
  · exact C05_continue_complete_serial inp hc s hr hend hhalt

/-- (d) serial runner without `--continue`: no action starts after the first failure report (of any kind) -/
theorem C05_serial_stops (inp : RunInput) (hc : inp.continue_ = false) (s : Sys) (hr : Reach inp s)
    (pre post : List Ev) (d : Name) (k : FailKind) (he : s.events = post ++ Ev.failure d k :: pre) :
    ∀ e ∈ post, e.isStart = false :=
  NSA_split (reach_invS hc hr).ns he

/-- and the run is over: the runner goes straight to `finish()` -/
theorem C05_serial_stops_state (inp : RunInput) (hc : inp.continue_ = false) (s : Sys) (hr : Reach inp s)
    (d : Name) (k : FailKind) (hf : Ev.failure d k ∈ s.events) :
    s.stop = true ∧ s.rpc ≠ .sWait ∧ ∀ m, s.rpc ≠ .sExec m :=
  (reach_invS hc hr).sd ⟨d, k, hf⟩

/-! ### the monitors: the decidable statements the driver evaluates on every IMPLEMENTATION trace hold on every
    observable trace of the model (so an implementation trace on which one is false is no trace of the model) -/

/-- (a): `monC05NoDependentRuns` — after a failure report of `d`, no `start t` with `d` in the dependency closure of `t`
    computed from the trace (task_dep, setup unless reported up-to-date, calc_dep, everything delivered by finished
    calc_deps; transitively) — for every bound `nTasks` of the fixed-point iterations -/
theorem C05_monitor_no_dependent_runs_serial (inp : RunInput) (s : Sys) (hr : Reach inp s) (nTasks : Nat) :
    monC05NoDependentRuns inp nTasks (trace inp s) = true :=
  monC05NoDependentRuns_of_inv (reach_inv2 hr) (reach_invG hr) (reach_invF hr) nTasks

theorem C05_monitor_no_dependent_runs_parallel (inp : RunInput) (s : Sys) (hr : PReach inp s) (nTasks : Nat) :
    monC05NoDependentRuns inp nTasks (trace inp s) = true :=
  monC05NoDependentRuns_of_inv (preach_inv hr).1 (preach_invG hr) (preach_invF hr) nTasks

/-- (b): `monC05NotRecorded` with the DB content the model predicts (`recAfter`), whatever was recorded before -/
theorem C05_monitor_not_recorded_serial (inp : RunInput) (s : Sys) (hr : Reach inp s) (nTasks : Nat) (r0 : Name → Bool) :
    monC05NotRecorded nTasks (trace inp s) (fun n => recAfter r0 n s.events) = true :=
  monC05NotRecorded_of_inv (reach_inv3 hr) nTasks r0

theorem C05_monitor_not_recorded_parallel (inp : RunInput) (s : Sys) (hr : PReach inp s) (nTasks : Nat)
    (r0 : Name → Bool) : monC05NotRecorded nTasks (trace inp s) (fun n => recAfter r0 n s.events) = true :=
  monC05NotRecorded_of_inv (preach_inv hr).2 nTasks r0

/-- (d): `monC05SerialStops` -/
theorem C05_monitor_serial_stops (inp : RunInput) (s : Sys) (hr : Reach inp s) :
    monC05SerialStops inp (trace inp s) = true :=
  monC05SerialStops_of_inv (fun hc => reach_invS hc hr)

/-- (c): `monC05ContinueComplete` — the monitor the driver evaluates on every implementation trace — holds on the
    observable trace of EVERY reachable state of the model, for every runner, with any exit code that is `≤ 2` only if
    no internal error ended the run (as `exitCode` is), for every bound `nTasks` that exceeds all task names
    (`namesBelow`, decidable; the driver's `n`).  On a trace that does not end in `complete` the monitor's guard is
    false (`C05_complete_means_halted`: a trace ending in `complete` is the trace of a halted state); at a normal end
    every member of the closure the monitor computes FROM THE TRACE (`closureOf`: selection, task_dep, calc_dep, what calc_deps with a finish report delivered, setup-tasks of every task whose first-stage dependencies all
    finished and which is neither ignored nor up-to-date nor in error — a superset of `RunCl`: it also contains the
    setup-tasks of a task reported `unmet` / ignored in the second `select_task` pass) has exactly one terminal report
    in the trace, and a task reported `unmet` has a failed task among the direct dependencies the trace determines
    (`edgesOf`).  The fixed-point iterations of the monitor need no more than `nTasks` rounds (`Proofs/C05Fuel.lean`). -/
theorem C05_monitor_continue_complete_serial (inp : RunInput) (s : Sys) (hr : Reach inp s) (nTasks : Nat)
    (hb : namesBelow inp nTasks = true) (exit : Nat) (hx : exit ≤ 2 → s.halt = .none) :
    monC05ContinueComplete inp nTasks (trace inp s) exit = true :=
  monC05ContinueComplete_of_inv (allInv_serial hr) (reach_invC hr) (endFacts_serial hr) (below_of hb) exit hx

theorem C05_monitor_continue_complete_parallel (inp : RunInput) (s : Sys) (hr : PReach inp s) (nTasks : Nat)
    (hb : namesBelow inp nTasks = true) (exit : Nat) (hx : exit ≤ 2 → s.halt = .none) :
    monC05ContinueComplete inp nTasks (trace inp s) exit = true :=
  monC05ContinueComplete_of_inv (allInv_parallel hr) (preach_invC hr) (endFacts_parallel hr) (below_of hb) exit hx

/-- … in particular with the exit code of the model (`exitCode`: 3 after an internal error) -/
theorem C05_monitor_continue_complete_exit (inp : RunInput) (s : Sys) (hr : PReach inp s ∨ Reach inp s) (nTasks : Nat)
    (hb : namesBelow inp nTasks = true) : monC05ContinueComplete inp nTasks (trace inp s) (exitCode s) = true := by
  rcases hr with hr | hr
  · exact C05_monitor_continue_complete_parallel inp s hr nTasks hb _ exit_le_two
  · exact C05_monitor_continue_complete_serial inp s hr nTasks hb _ exit_le_two

/-- `complete_run` is reported only by `Runner.finish()`: a trace that contains `complete` belongs to a halted state
    (why the guard of the monitor singles out the ends of runs) -/
theorem C05_complete_means_halted (inp : RunInput) (s : Sys) (hr : PReach inp s ∨ Reach inp s)
    (h : Ev.complete ∈ s.events) : s.rpc = .halted := by
  rcases hr with hr | hr
  · exact preach_invC hr h
  · exact reach_invC hr h

/-- the sharper form of `C05_unmet_has_failed_dep` behind the monitor: the failed dependency is one the run has OBSERVED
    (`DepObs`: task_dep, calc_dep, what calc_deps with a finish report in the event list delivered) or a setup-task -/
theorem C05_unmet_has_observed_failed_dep (inp : RunInput) (s : Sys) (hr : PReach inp s ∨ Reach inp s) (t : Name)
    (h : Ev.failure t .unmet ∈ s.events) :
    ∃ d k, (DepObs inp s.events t d ∨ d ∈ inp.setup t) ∧ Ev.failure d k ∈ s.events := by
  rcases hr with hr | hr
  · exact (preach_invU hr).um t h
  · exact (reach_invU hr).um t h

/-- why a task got a failure or `skip_ignore` report (all runners, every reachable state): all its setup-tasks had been
    processed (second `select_task` pass), or it is ignored itself / its status is `error`, or one of its observed
    first-stage dependencies has a failure / `skip_ignore` report, or `select_task` had chosen it for execution -/
theorem C05_abnormal_report_justified (inp : RunInput) (s : Sys) (hr : PReach inp s ∨ Reach inp s) (u : Name)
    (h : (∃ k, Ev.failure u k ∈ s.events) ∨ Ev.skipIgn u ∈ s.events) :
    (∀ d ∈ inp.setup u, (stOf s d).finished = true) ∨ inp.ignored u = true ∨ inp.statusOf u = .error ∨
    (∃ p, DepObs inp s.events u p ∧ ((∃ k, Ev.failure p k ∈ s.events) ∨ Ev.skipIgn p ∈ s.events)) ∨
    (∃ deps, Ev.go u deps ∈ s.events) := by
  rcases hr with hr | hr
  · exact (preach_invE hr).just u h
  · exact (reach_invE hr).just u h

/-! ### the pinned behaviour -/

/-- node of a task whose first `select_task` pass said "run, setup-tasks first" and whose setup-task `1` then failed -/
def exSecondPass : Node :=
  { pc := .afterSelf2, pendTask := [], pendCalc := [], status := .run, bad := [1], anc := [0], dynTask := [], dynCalc := [] }

def exSetup : RunInput :=
  { taskDep := fun _ => [], calcDep := fun _ => [], setup := fun n => if n = 0 then [1] else [],
    sel := [0], continue_ := true, outcome := fun n => if n = 1 then .failed else .ok }

/-- on the pinned tree (second `select_task` pass without a look at `bad_deps`) the task whose setup-task failed was
    executed; the repaired code reports it `unmet` (finding F-C05, regression seed `seeded/revert-F-C05`) -/
theorem pinned_setup_counterexample :
    selDecisionPinned exSetup 0 exSecondPass = .go ∧ selDecision exSetup 0 exSecondPass = .unmet := by
  decide

/-! ### non-vacuity -/

/-- `0` fails; `1` has it as task_dep, `2` has `1` as setup-task, `4` gets `0` delivered by its calc_dep `3`;
    `5` is independent; `--continue` -/
def exFail : RunInput :=
  { taskDep := fun n => if n = 1 then [0] else []
    calcDep := fun n => if n = 4 then [3] else []
    setup := fun n => if n = 2 then [1] else []
    calcRes := fun n => if n = 3 then { tasks := [0] } else {}
    sel := [2, 4, 5], continue_ := true
    outcome := fun n => if n = 0 then .failed else .ok }

example : DepPlus exFail 2 0 :=
  .more (m := 1) (.setup (by decide) (by decide)) (.one (.ns (.task (by decide))))
example : DepPlus exFail 4 0 := .one (.ns (.resTask (c := 3) (.base (by decide)) (by decide)))

/-- the run really reports the failure, the three dependents `unmet`, executes the independent task and completes:
    the hypotheses of (a), (b), (c) are met by a real run -/
example : ∃ s, Reach exFail s ∧ s.rpc = .halted ∧ s.halt = .none ∧
    s.events.contains (Ev.failure 0 .failed) = true ∧ s.events.contains (Ev.failure 1 .unmet) = true ∧
    s.events.contains (Ev.failure 2 .unmet) = true ∧ s.events.contains (Ev.failure 4 .unmet) = true ∧
    s.events.contains (Ev.success 5) = true ∧ s.events.contains (Ev.success 3) = true :=
  ⟨_, autoRun_reach (by decide) false false 600 _ Reach.init, by decide +kernel⟩

/-- the same under two worker threads: the hypotheses of `C05_continue_complete_parallel` are met by a real run -/
example : ∃ s, PReach { exFail with runner := .thread, numProc := 2 } s ∧ s.rpc = .halted ∧ s.halt = .none ∧
    s.events.contains (Ev.failure 0 .failed) = true ∧ s.events.contains (Ev.failure 4 .unmet) = true ∧
    s.events.contains (Ev.failure 1 .unmet) = true ∧ s.events.contains (Ev.failure 2 .unmet) = true ∧
    s.events.contains (Ev.success 5) = true :=
  ⟨_, autoRun_preach (by decide) false true 900 _ PReach.init, by decide +kernel⟩

/-- the hypotheses of the monitor theorem: all names of `exFail` are below 6, and the monitor's closure of the two-thread
    run is the whole table -/
example : namesBelow exFail 6 = true := by decide

/-- … and the closure the monitor computes from the trace of the two-thread run is the whole table; it contains the
    setup-task `1` of task `2`, which `select_task` never chose for execution (no `go 2`: `2` is reported `unmet` in the
    second pass) — the case in which `closureOf` exceeds `RunCl` -/
example : ∃ s, PReach { exFail with runner := .thread, numProc := 2 } s ∧ s.rpc = .halted ∧ s.halt = .none ∧
    (closureOf { exFail with runner := .thread, numProc := 2 } 6
      (trace { exFail with runner := .thread, numProc := 2 } s)).length = 6 ∧
    s.events.all (fun e => match e with | .go 2 _ => false | _ => true) = true :=
  ⟨_, autoRun_preach (by decide) false true 900 _ PReach.init, by decide +kernel⟩

/-- without `--continue` the serial run stops after the failure: the independent task `5` is never started -/
example : ∃ s, Reach { exFail with continue_ := false } s ∧ s.rpc = .halted ∧
    s.events.contains (Ev.failure 0 .failed) = true ∧ s.events.any (Ev.isStartOf 5) = false :=
  ⟨_, autoRun_reach (by decide) false false 600 _ Reach.init, by decide +kernel⟩

/-- a calc_dep (`0`) that fails AFTER its first action has returned values (`calcResFail 0` names `2`): the values are
    delivered all the same — `2` is created and executed — and the task that waited for them (`1`) is reported unmet,
    justified by its failed calc_dep `0` (`C05_unmet_has_failed_dep` with no hypothesis on `calcResFail`) -/
def exFailDeliver : RunInput :=
  { taskDep := fun _ => [], calcDep := fun n => if n = 1 then [0] else [], setup := fun _ => [],
    calcResFail := fun n => if n = 0 then { tasks := [2] } else {},
    sel := [1], continue_ := true, outcome := fun n => if n = 0 then .failed else .ok }

example : ∃ s, Reach exFailDeliver s ∧ s.rpc = .halted ∧ s.halt = .none ∧
    s.events.contains (Ev.failure 0 .failed) = true ∧ s.events.contains (Ev.success 2) = true ∧
    s.events.contains (Ev.failure 1 .unmet) = true :=
  ⟨_, autoRun_reach (by decide) false false 600 _ Reach.init, by decide +kernel⟩

end DoitModel.C05
