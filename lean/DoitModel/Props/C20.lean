import DoitModel.Proofs.C20
import DoitModel.Proofs.C20Spec
/-! # C20 — introspection commands are read-only and agree with run

Property theorems only (models: `Model/Status.lean`, `Model/Intro.lean`; helpers: `Proofs/C20.lean`, `Proofs/Status*.lean`).
Quantification: every state `s` of the status model -- in particular every state reachable by a history
(`runHist true h`, any number of tasks and files, both checkers) --, every read-only command with every option that
matters for the DB (`list` with/without `--status` over any print list, `info` with/without `--no-status`,
`clean --dry-run` with/without `--forget` over any clean list, `help`, `dumpdb`, `tabcompletion`).
Backends: by C07 every backend is the map `task → key → value` this model works on; *persistence* of the documented
removal (only a write-through `remove`, i.e. dbm, keeps it: none of these commands but `clean` calls `close()`) is
observed by the correspondence, not modelled. -/
namespace DoitModel.C20
open DoitModel.Status DoitModel.Intro

/-! ## read-only -/

/-- **C20 frame.**  A read-only command changes neither the file system, nor the task definitions, nor the configured
    checker; every task's record is left exactly as it was, or -- only when it names another checker than the
    configured one (the documented invalidation) -- is removed as a whole. -/
theorem C20_frame (cmd : Cmd) (hro : cmd.readOnly = true) (s : St) :
    (cmd.exec s).fs = s.fs ∧ (cmd.exec s).defs = s.defs ∧ (cmd.exec s).checker = s.checker ∧
    ∀ t, (cmd.exec s).rcd t = s.rcd t ∨
         (checkerChanged s.checker (s.rcd t) = true ∧ (cmd.exec s).rcd t = Rcd.empty) :=
  have h := frame_exec cmd hro s
  ⟨h.fs, h.defs, h.checker, h.rcd⟩

/-- the same over histories, every prefix: wherever the command is issued -/
theorem C20_frame_history (h : List Op) (k : Nat) (cmd : Cmd) (hro : cmd.readOnly = true) (t : Name) :
    let s := runHist true (h.take k)
    (cmd.exec s).fs = s.fs ∧
    ((cmd.exec s).rcd t = s.rcd t ∨ (checkerChanged s.checker (s.rcd t) = true ∧ (cmd.exec s).rcd t = Rcd.empty)) :=
  have h := frame_exec cmd hro (runHist true (h.take k))
  ⟨h.fs, h.rcd t⟩

/-- when no record names another checker, the DB is untouched and no DB write operation is issued at all -/
theorem C20_frame_identity (cmd : Cmd) (hro : cmd.readOnly = true) (s : St)
    (hcc : ∀ t, checkerChanged s.checker (s.rcd t) = false) :
    (cmd.exec s).rcd = s.rcd ∧ cmd.removes s = [] := by
  refine ⟨((frame_exec cmd hro s).same hcc).1, ?_⟩
  cases hr : cmd.removes s with
  | nil => rfl
  | cons a rest =>
    have := removes_cc cmd hro s a (by simp [hr])
    rw [hcc a] at this; cases this

/-- the DB write operations of a read-only command are removals of records that name another checker, nothing else
    (`Cmd.removes` is the whole write trace: no `set`, no `remove_all`) -/
theorem C20_only_documented_removal (cmd : Cmd) (hro : cmd.readOnly = true) (s : St) (t : Name)
    (ht : t ∈ cmd.removes s) : checkerChanged s.checker (s.rcd t) = true :=
  removes_cc cmd hro s t ht

/-- `help`, `dumpdb`, `tabcompletion` (and `list` without `--status`, `info --no-status`) never touch the DB -/
theorem C20_no_db_access (cmd : Cmd) (h : cmd.opensDb = false) (s : St) :
    cmd.exec s = s ∧ cmd.removes s = [] := by
  cases cmd with
  | list status ts => cases status <;> simp_all [Cmd.opensDb, Cmd.exec, Cmd.removes]
  | info t hide => cases hide <;> simp_all [Cmd.opensDb, Cmd.exec, Cmd.removes]
  | clean dry forget ts => simp [Cmd.opensDb] at h
  | help => exact ⟨rfl, rfl⟩
  | dumpdb => exact ⟨rfl, rfl⟩
  | tabcompletion => exact ⟨rfl, rfl⟩

/-- `clean --dry-run` forgets nothing, with or without `--forget` -/
theorem C20_clean_dry_run (forget : Bool) (ts : List Name) (s : St) :
    (Cmd.clean true forget ts).exec s = s ∧ (Cmd.clean true forget ts).removes s = [] := by
  simp [Cmd.exec, Cmd.removes]

/-! non-vacuity: a reachable state in which `list -s` really removes a record (checker switched after a run), one in
    which it removes nothing, and the contrast with a real `clean --forget` -/

def demoHist : List Op :=
  [.edit 0 4 1, .redefine 0 ⟨[0], [], []⟩, .redefine 1 ⟨[0], [], []⟩, .run 0 true false [] none,
   .run 1 true false [] none, .ignore 1, .switchChecker .ts]

example : (Cmd.list true [0, 1]).removes (runHist true demoHist) = [0] := by decide
example : listRun (runHist true demoHist) [0, 1] = [.run, .ignore] := by decide
example : (Cmd.info 0 false).removes (runHist true demoHist) = [0] := by decide
/-- task 1 is ignored: `info` does not even call `get_status` -/
example : (Cmd.info 1 false).removes (runHist true demoHist) = [] := by decide
example : (Cmd.list true [0, 1]).removes (runHist true (demoHist.take 6)) = [] := by decide
example : (Cmd.clean false true [0]).removes (runHist true demoHist) = [0] ∧
    (Cmd.clean true true [0]).removes (runHist true demoHist) = [] := by decide

/-! ## `get_status(get_log=True)` against `get_status(get_log=False)` -/

/-- **`getlog_agrees`, full** (the tree after the `fix:` commit "status shown by `doit info` is the decision `doit run`
    takes"): `info`'s status computation `get_status(get_log=True)` gives the status of `run`'s
    `get_status(get_log=False)` in every situation -- every task definition, record, file system, saved results.
    Hypothesis: no saved state of the wrong shape (`MD5Checker` meeting a float: the unhandled `TypeError` of
    findings/pending/C03-md5-on-timestamp-state.md; `get_log=True` always reaches the file loop, `get_log=False` may
    leave before it). -/
theorem C20_getlog_agrees_full (c : Checker) (d : TaskDef) (r : Rcd) (fs : FS) (resOf : Name → Option Res)
    (hnc : d.deps.any (depIs .crash c r fs) = false) :
    logStatus c d r fs resOf = statusOf true c d r fs resOf :=
  getlog_agrees c d r fs resOf hnc

/-- … in particular, without any hypothesis, after every prefix of every history that does not switch the checker -/
theorem C20_getlog_agrees_history (h : List Op) (hn : NoSwitch h = true) (k : Nat) (t : Name) :
    logStatusAt (runHist true (h.take k)) t = (runHist true (h.take k)).status true t := by
  have hk : NoSwitch (h.take k) = true := by
    unfold NoSwitch at hn ⊢
    rw [List.all_eq_true] at hn ⊢
    intro o ho
    exact hn o (List.mem_of_mem_take ho)
  exact getlog_agrees _ _ _ _ _ (md5Only_no_crash (noSwitch_md5 true _ hk) t)

/-- and on "up-to-date" whatever is saved -/
theorem C20_getlog_agrees_on_upToDate (s : St) (t : Name) :
    logStatusAt s t = .upToDate ↔ s.status true t = .upToDate :=
  logStatus_upToDate_iff _ _ _ _ _

/-! ### the tree before that commit (`logStatusPinned`: the last reason found decided) — F-C20 (a), (b) -/

/-- the two computations agreed *exactly* outside `logDisagree` -- a file dependency is missing and either another
    one is listed as changed (no early exit, checker unchanged): `error` was overwritten by `run`; or the
    `get_log=False` call leaves early with `run` and no dependency is listed: `get_log=True` said `error` -/
theorem C20_pinned_getlog_agrees_iff (c : Checker) (d : TaskDef) (r : Rcd) (fs : FS) (resOf : Name → Option Res)
    (hnc : d.deps.any (depIs .crash c r fs) = false) :
    logStatusPinned c d r fs resOf = statusOf true c d r fs resOf ↔ logDisagree c d r fs resOf = false :=
  pinned_getlog_agrees_iff c d r fs resOf hnc

/-- F-C20 (a): run, edit one dependency, delete the other: `run` / `list -s` say `error`, `info` said `run` -/
def overwrittenHist : List Op :=
  [.edit 0 4 1, .edit 1 4 2, .redefine 0 ⟨[0, 1], [], []⟩, .run 0 true false [] none, .edit 0 4 3, .delete 1]

theorem C20_pinned_getlog_error_overwritten_counterexample :
    (runHist true overwrittenHist).status true 0 = .error ∧
    logStatusPinnedAt (runHist true overwrittenHist) 0 = .run := by
  decide

/-- F-C20 (b): a false `uptodate` item and a missing dependency: `run` executes the task, `info` said `error` -/
def hiddenHist : List Op :=
  [.edit 0 4 1, .redefine 0 ⟨[0], [], [.const false]⟩, .run 0 true false [] none, .delete 0]

theorem C20_pinned_getlog_error_hidden_counterexample :
    (runHist true hiddenHist).status true 0 = .run ∧ logStatusPinnedAt (runHist true hiddenHist) 0 = .error := by
  decide

theorem C20_pinned_getlog_counterexample :
    ¬ ∀ (c : Checker) (d : TaskDef) (r : Rcd) (fs : FS) (resOf : Name → Option Res),
      d.deps.any (depIs .crash c r fs) = false → logStatusPinned c d r fs resOf = statusOf true c d r fs resOf := by
  intro h
  have h1 := h (runHist true overwrittenHist).checker ((runHist true overwrittenHist).defs 0)
    ((runHist true overwrittenHist).rcd 0) (runHist true overwrittenHist).fs (runHist true overwrittenHist).resOf
    (by decide)
  have h2 := C20_pinned_getlog_error_overwritten_counterexample
  simp only [St.status, logStatusPinnedAt] at h2
  rw [h1, h2.1] at h2
  exact absurd h2.2 (by decide)

/-- the same histories on the repaired tree -/
example : logStatusAt (runHist true overwrittenHist) 0 = .error ∧ logStatusAt (runHist true hiddenHist) 0 = .run := by
  decide

/-! ## the status shown is the decision of `run` -/

/-- **`list --status`.**  The letter shown for a task is the decision `select_task` takes for it in that state … -/
theorem C20_list_status_agrees (s : St) (t : Name) : listShown s t = decision s t := rfl

/-- … and that decision is what the runner then does with the task (`Status.runTask`, the model tied to real runs by
    C03/C04): ignored and up-to-date tasks are left alone, `error` erases the record without executing, `run`
    executes. -/
theorem C20_decision_is_what_run_does (s : St) (t : Name) (ok : Bool) (ws : List (Path × Nat × Nat))
    (res : Option Res) :
    (decision s t = .ignore → runTask true s t ok false ws res = s) ∧
    (decision s t = .upToDate → runTask true s t ok false ws res = s) ∧
    (decision s t = .error → runTask true s t ok false ws res = erase s t) ∧
    (decision s t = .run → runTask true s t ok false ws res = finish (applyWrites (peek s t) ws) t ok res) ∧
    (decision s t = .crash → runTask true s t ok false ws res = { s with crashed := true }) :=
  decision_effect s t ok ws res

/-- all lines of one `list -s`: when no listed record names another checker (nothing is removed on the way) every line
    shows the decision of the state the command was started in, and the state is left as it was -/
theorem C20_list_lines_agree (s : St) (ts : List Name) (hc : s.crashed = false)
    (hcc : ∀ t, t ∈ ts → checkerChanged s.checker (s.rcd t) = false)
    (hst : ∀ t, t ∈ ts → s.status true t ≠ .crash) :
    listRun s ts = ts.map (decision s) ∧ (Cmd.list true ts).exec s = s :=
  listRun_eq_map s ts hc hcc hst

/-- in general each line shows the decision of the state *in which it is printed* (records removed by earlier lines
    are gone) -/
theorem C20_list_lines_threaded (s : St) (t : Name) (rest : List Name) (hc : s.crashed = false) :
    listRun s (t :: rest) = decision s t :: listRun (listOne s t) rest := by
  simp [listRun, hc, C20_list_status_agrees]

example : listRun (runHist true overwrittenHist) [0] = [.error] := by decide

/-- **`info`, full** (tree as repaired: the ignore mark is consulted first, the first reason found decides): the status
    `doit info` shows is the decision of `run` -- ignore / up-to-date / run / error -- in every state (hypothesis as
    for `C20_getlog_agrees_full`: no saved state of the wrong shape) -/
theorem C20_info_status_agrees_full (s : St) (t : Name)
    (hnc : (s.defs t).deps.any (depIs .crash s.checker (s.rcd t) s.fs) = false) :
    infoShown s t = decision s t := by
  simp only [infoShown, decision, logStatusAt, St.status, getlog_agrees _ _ _ _ _ hnc]

/-- … and so `info` and `list -s` show the same -/
theorem C20_info_agrees_with_list (s : St) (t : Name)
    (hnc : (s.defs t).deps.any (depIs .crash s.checker (s.rcd t) s.fs) = false) :
    infoShown s t = listShown s t :=
  C20_info_status_agrees_full s t hnc

/-- an ignored task: `info` says `ignore` as `run` and `list -s` do, prints no reason, and does not touch the DB (not
    even the documented removal: `get_status` is not called) -/
theorem C20_info_ignored_agrees (s : St) (t : Name) (hign : (s.rcd t).ign = true) :
    infoShown s t = decision s t ∧ infoShown s t = listShown s t ∧ infoPrinted s t = Reasons.none ∧
    (Cmd.info t false).exec s = s ∧ (Cmd.info t false).removes s = [] := by
  simp [infoShown, decision, listShown, infoPrinted, Cmd.exec, Cmd.removes, infoOne, hign]

theorem C20_info_upToDate_iff (s : St) (t : Name) :
    infoShown s t = .upToDate ↔ decision s t = .upToDate := by
  have : logStatusAt s t = .upToDate ↔ s.status true t = .upToDate := logStatus_upToDate_iff _ _ _ _ _
  simp only [infoShown, decision]
  cases (s.rcd t).ign
  · simp only [Bool.false_eq_true, if_false]
    generalize logStatusAt s t = a at this ⊢
    generalize s.status true t = b at this ⊢
    cases a <;> cases b <;> simp_all [ofStatus]
  · simp

/-- F-C20 (c), the pinned tree (`Info._execute` never consulted `ignore:`; repaired by the `fix:` commit "`doit info`
    shows status "ignore" for an ignored task"): `info` on an ignored task showed what `get_status` says while `run`
    skips the task as ignored -/
def ignoredHist : List Op := [.edit 0 4 1, .redefine 0 ⟨[0], [], []⟩, .ignore 0]

theorem C20_pinned_info_ignored_counterexample :
    decision (runHist true ignoredHist) 0 = .ignore ∧ infoShownPinned (runHist true ignoredHist) 0 = .run ∧
    listShown (runHist true ignoredHist) 0 = .ignore := by decide

/-- the same history on the repaired tree -/
example : infoShown (runHist true ignoredHist) 0 = .ignore := by decide

/-- F-C20 (a) on the tree before the `fix:` commit e6acbba: `info` showed `run` where `run` reports the error -/
theorem C20_pinned_info_counterexample :
    ((runHist true overwrittenHist).rcd 0).ign = false ∧
    ofStatus (logStatusPinnedAt (runHist true overwrittenHist) 0) = .run ∧
    decision (runHist true overwrittenHist) 0 = .error ∧ infoShown (runHist true overwrittenHist) 0 = .error := by
  decide

/-! ## the reasons `info` prints -/

/-- **every printed reason holds**: each entry of the reasons `info` prints is true of the task definition, the file
    system and the saved state at that moment (`logRcd`: the saved state after the invalidation on a checker change) -/
theorem C20_reasons_true (c : Checker) (d : TaskDef) (r : Rcd) (fs : FS) (resOf : Name → Option Res) :
    let x := reasonsOf c d r fs resOf
    (x.noDeps = true ↔ d.deps = [] ∧ ∀ u, u ∈ d.uptodate → evalUtd r.getValues resOf u = none) ∧
    (∀ u, u ∈ x.utdFalse ↔ u ∈ d.uptodate ∧ evalUtd r.getValues resOf u = some false) ∧
    (∀ a b, x.checkerChanged = some (a, b) ↔ r.checker = some a ∧ a ≠ c ∧ b = c) ∧
    (∀ p, p ∈ x.missingTarget ↔ p ∈ d.targets ∧ fs p = none) ∧
    (∀ p, p ∈ x.missingDep ↔ p ∈ d.deps ∧ fs p = none) ∧
    (∀ p, p ∈ x.changed ↔ p ∈ d.deps ∧ ∃ cur, fs p = some cur ∧
        ((logRcd c r).fstate p = none ∨ notInPrev (logRcd c r) p = true ∨
         ∃ st, (logRcd c r).fstate p = some st ∧ checkModified c st cur = .modified)) ∧
    (∀ p, p ∈ x.removed → p ∈ prevDeps (logRcd c r) ∧ p ∉ d.deps) ∧
    (∀ p, p ∈ x.added → p ∈ d.deps ∧ p ∉ prevDeps (logRcd c r)) := by
  intro x
  refine ⟨?_, ?_, ?_, ?_, ?_, ?_, ?_, ?_⟩
  · simp only [x, reasonsOf, Bool.and_eq_true, List.isEmpty_iff, utdEvaluated, Bool.not_eq_true', List.any_eq_false]
    constructor
    · rintro ⟨h1, h2⟩
      refine ⟨h1, fun u hu => ?_⟩
      have := h2 u hu
      cases h : evalUtd r.getValues resOf u with
      | none => rfl
      | some b => simp [h] at this
    · rintro ⟨h1, h2⟩
      exact ⟨h1, fun u hu => by simp [h2 u hu]⟩
  · intro u
    simp [x, reasonsOf, List.mem_filter]
  · intro a b
    simp only [x, reasonsOf, ckReason]
    cases r.checker with
    | none => simp
    | some c' =>
      by_cases h : c' = c
      · simp only [h, ne_eq, not_true_eq_false, if_false, Option.some.injEq]
        constructor
        · intro h'; cases h'
        · rintro ⟨h1, h2, _⟩; exact absurd h1.symm h2
      · simp only [ne_eq, h, not_false_eq_true, if_true, Option.some.injEq, Prod.mk.injEq]
        constructor
        · rintro ⟨h1, h2⟩; subst h1; subst h2; exact ⟨rfl, h, rfl⟩
        · rintro ⟨h1, _, h3⟩; exact ⟨h1, h3.symm⟩
  · intro p
    simp [x, reasonsOf, List.mem_filter, depMissing]
  · intro p
    simp [x, reasonsOf, List.mem_filter, depMissing]
  · intro p
    simp only [x, reasonsOf, List.mem_filter, depListed]
    constructor
    · rintro ⟨hp, h⟩
      refine ⟨hp, ?_⟩
      cases hf : fs p with
      | none => simp [hf] at h
      | some cur =>
        refine ⟨cur, rfl, ?_⟩
        simp only [hf] at h
        cases hs : (logRcd c r).fstate p with
        | none => exact Or.inl rfl
        | some st =>
          simp only [hs, Bool.or_eq_true, beq_iff_eq] at h
          rcases h with h | h
          · exact Or.inr (Or.inl h)
          · exact Or.inr (Or.inr ⟨st, rfl, h⟩)
    · rintro ⟨hp, cur, hf, h⟩
      refine ⟨hp, ?_⟩
      simp only [hf]
      rcases h with h | h | ⟨st, hs, h⟩
      · simp [h]
      · cases hs : (logRcd c r).fstate p <;> simp [h]
      · simp [hs, h]
  · intro p hp
    simp only [x, reasonsOf] at hp
    split at hp
    · simpa [List.mem_filter] using hp
    · simp at hp
  · intro p hp
    simp only [x, reasonsOf] at hp
    split at hp
    · simpa [List.mem_filter] using hp
    · simp at hp

/-- … and the list is complete: `info` prints no reason at all exactly when it reports `up-to-date` -/
theorem C20_reasons_complete (c : Checker) (d : TaskDef) (r : Rcd) (fs : FS) (resOf : Name → Option Res)
    (hnc : d.deps.any (depRaises c (logRcd c r) fs) = false) :
    (reasonsOf c d r fs resOf).isEmpty = true ↔ logStatus c d r fs resOf = .upToDate :=
  reasons_isEmpty_iff c d r fs resOf hnc

/-- the `changed_file_dep` reason against the *ghost* state (never a record), at full strength: after every prefix of
    every history within the checker's premise, `info` lists a file dependency as changed **exactly** when the file
    exists and the last recorded successful execution did not see it as it is now: there is no such execution, or it
    used another checker, or it did not have this dependency (the `fix:` commit "a file_dep added back to a task is
    reported as changed"), or the file is modified -- by the configured checker's rule -- relative to what it saw. -/
theorem C20_reasons_changed_is_true (h : List Op) (hf : Faithful h = true) (k : Nat) (t : Name) (p : Path) :
    let s := runHist true (h.take k)
    p ∈ (infoReasons s t).changed ↔
      p ∈ (s.defs t).deps ∧ (s.fs p).isSome = true ∧
        match s.shadow t with
        | none => True
        | some e => e.checker ≠ s.checker ∨ p ∉ e.deps ∨ depUnmod s.checker e s.fs p = false := by
  intro s
  have hf' : Faithful (h.take k) = true := by
    unfold Faithful at hf ⊢
    rw [List.all_eq_true] at hf ⊢
    intro o ho
    exact hf o (List.mem_of_mem_take ho)
  have hinv : Inv s := hist_inv _ hf'
  cases he : s.shadow t with
  | none => simpa using changed_iff_none hinv t he p
  | some e =>
    by_cases hck : e.checker = s.checker
    · simpa [hck] using changed_iff_spec hinv t e he hck p
    · simpa [hck] using changed_iff_other hinv t e he hck p

/-- a dependency added back to the task (its stale state is still in the record) is listed, whatever its content -/
def readdedHist : List Op :=
  [.edit 0 4 1, .edit 1 4 2, .redefine 0 ⟨[0, 1], [], []⟩, .run 0 true false [] none,
   .redefine 0 ⟨[0], [], []⟩, .run 0 true false [] none, .redefine 0 ⟨[0, 1], [], []⟩]

example : (infoReasons (runHist true readdedHist) 0).changed = [1] ∧ (infoReasons (runHist true readdedHist) 0).added = [1]
    ∧ depIsPinned .modified .md5 ((runHist true readdedHist).rcd 0) (runHist true readdedHist).fs 1 = false
    ∧ depIs .modified .md5 ((runHist true readdedHist).rcd 0) (runHist true readdedHist).fs 1 = true := by decide

/-- non-vacuity of the hypotheses: after `overwrittenHist` the last execution of task 0 is recorded with both
    dependencies and the configured checker, and dependency 0 is listed as changed -/
example : ∃ e, (runHist true overwrittenHist).shadow 0 = some e ∧ e.checker = (runHist true overwrittenHist).checker ∧
    0 ∈ e.deps ∧ depUnmod .md5 e (runHist true overwrittenHist).fs 0 = false ∧
    0 ∈ (infoReasons (runHist true overwrittenHist) 0).changed :=
  ⟨_, rfl, by decide, by decide, by decide, by decide⟩

/-- non-vacuity: a reachable state with several reasons at once -/
example : infoReasons (runHist true overwrittenHist) 0 =
    { Reasons.none with changed := [0], missingDep := [1] } := by decide

example : infoReasons (runHist true (demoHist ++ [.redefine 0 ⟨[1], [2], [.const false]⟩])) 0 =
    { Reasons.none with utdFalse := [.const false], checkerChanged := some (.md5, .ts), missingTarget := [2],
                        missingDep := [1] } := by decide

end DoitModel.C20
