import DoitModel.Proofs.StatusMix
/-! # C06 (M2 half) — after a kill, the next invocation skips only tasks that really completed successfully with the
present state of their dependencies

`Props/C06.lean` (M9) proves that after any kill every readable per-task record is *legitimate*: the record present
before the run or one a successful execution of this run saved — i.e. for every task, independently, the pair
`(record, ghost)` of SOME earlier point of the same history, or the record is absent.  This file is the other half:
whatever mixture of such old / new / absent records the next invocation finds, on the *present* file system, task
definitions and configured checker, `get_status` still decides exactly the specification relative to the (real,
successful, possibly old) execution each recovered record stems from.

Quantification: every `Faithful` history `h` (`Props/C03.lean`), every choice function `pick` with
`Recovered h t (pick t)` for all tasks `t` (absent, or the pair of an arbitrary prefix `h.take k`; prefixes may differ
from task to task; `k ≥ h.length` gives the present pair).  `result_dep` items are covered: they read the recovered
record of the other task, and the specification reads the ghost recovered with it. -/
namespace DoitModel.C06b
open DoitModel.Status

/-- the full statement -/
def mix_sound_full : Prop :=
  ∀ (h : List Op), Faithful h = true → ∀ (pick : Name → Rcd × Option Exec), (∀ t, Recovered h t (pick t)) →
    ∀ t, (mixState (runHist true h) pick).status true t = .upToDate → (mixState (runHist true h) pick).spec t = true

/-- **C06, status half.**  A task that the next invocation finds up-to-date (the only status on which it is skipped)
    satisfies the specification relative to the successful execution its recovered record was saved by: same set of
    file dependencies, every dependency present and unmodified w.r.t. what *that* execution saw, same checker, targets
    present, uptodate items true.  With an absent record: only tasks that are up-to-date without any saved state. -/
theorem mix_sound : mix_sound_full := by
  intro h hf pick hp t
  exact (decision_eq_spec (mix_inv h hf pick hp) t).mp

/-- the converse (nothing is re-executed needlessly on account of the kill: a task whose recovered execution still
    matches the present state is skipped) -/
theorem mix_minimal (h : List Op) (hf : Faithful h = true) (pick : Name → Rcd × Option Exec)
    (hp : ∀ t, Recovered h t (pick t)) (t : Name) :
    (mixState (runHist true h) pick).spec t = true → (mixState (runHist true h) pick).status true t = .upToDate :=
  (decision_eq_spec (mix_inv h hf pick hp) t).mpr

/-- a task whose record did not survive (absent) and that has a file dependency is never skipped -/
theorem mix_absent_runs (h : List Op) (hf : Faithful h = true) (pick : Name → Rcd × Option Exec)
    (hp : ∀ t, Recovered h t (pick t)) (t : Name) (ht : pick t = (Rcd.empty, none))
    (hd : ((runHist true h).defs t).deps ≠ []) :
    (mixState (runHist true h) pick).status true t ≠ .upToDate := by
  intro hst
  have hs := mix_sound h hf pick hp t hst
  simp only [St.spec, specUpToDate, mixState, ht, Bool.and_eq_true, List.isEmpty_iff] at hs
  exact hd hs.2

/-- under md5, a skipped task's dependencies have exactly the size and content that the execution which saved the
    recovered record saw -/
theorem mix_md5_content (h : List Op) (hf : Faithful h = true) (pick : Name → Rcd × Option Exec)
    (hp : ∀ t, Recovered h t (pick t)) (t : Name) :
    let σ := mixState (runHist true h) pick
    σ.checker = .md5 → σ.status true t = .upToDate →
    ∀ e, (pick t).2 = some e → ∀ p, p ∈ (σ.defs t).deps →
      ∃ now sm, σ.fs p = some now ∧ e.saw p = some sm ∧ now.size = sm.size ∧ now.cid = sm.cid := by
  intro σ hc hst e he p hpd
  have hinv : Inv σ := mix_inv h hf pick hp
  have hspec := (decision_eq_spec hinv t).mp hst
  have hsh : σ.shadow t = some e := he
  simp only [St.spec, specUpToDate, hsh, Bool.and_eq_true, List.all_eq_true] at hspec
  have hu := hspec.2.2 p hpd
  simp only [depUnmod] at hu
  cases hnow : σ.fs p with
  | none => simp [hnow] at hu
  | some now =>
    cases hsaw : e.saw p with
    | none => simp [hnow, hsaw] at hu
    | some sm =>
      refine ⟨now, sm, rfl, rfl, ?_⟩
      simp only [hnow, hsaw, unmodBy, hc, stateOf, checkModified, beq_iff_eq] at hu
      by_cases hm : now.mtime = sm.mtime
      · have := (hinv.saw t e hsh p sm hsaw).2 now hnow hm
        simp [this]
      · simp only [hm, if_false] at hu
        by_cases hsz : now.size = sm.size
        · by_cases hcid : sm.cid = now.cid
          · exact ⟨hsz, hcid.symm⟩
          · simp [hsz, hcid] at hu
        · simp [hsz] at hu

/-! ## non-vacuity

Two tasks share the dependency `f0`.  History: both run; `f0` is edited; both run again; `f0` is touched.
The kill leaves `t0` with its NEW record (prefix of length 8 = after the second round of runs) and `t1` with its OLD
record (prefix of length 5 = after the first round).  The next invocation finds `t0` up-to-date and skips it; `t1`, whose recovered execution saw the
old content, is not up-to-date and runs; and a third task whose record is absent runs. -/

def demoHist : List Op :=
  [.edit 0 4 1, .redefine 0 ⟨[0], [], []⟩, .redefine 1 ⟨[0], [], []⟩,
   .run 0 true false [] none, .run 1 true false [] none,
   .edit 0 4 2, .run 0 true false [] none, .run 1 true false [] none, .touch 0, .redefine 2 ⟨[0], [], []⟩]

def demoPick (t : Name) : Rcd × Option Exec :=
  if t = 0 then ((runHist true (demoHist.take 8)).rcd 0, (runHist true (demoHist.take 8)).shadow 0)
  else if t = 1 then ((runHist true (demoHist.take 5)).rcd 1, (runHist true (demoHist.take 5)).shadow 1)
  else (Rcd.empty, none)

theorem demoPick_recovered : ∀ t, Recovered demoHist t (demoPick t) := by
  intro t
  unfold demoPick
  by_cases h0 : t = 0
  · subst h0; exact Or.inr ⟨8, by simp⟩
  · by_cases h1 : t = 1
    · subst h1; exact Or.inr ⟨5, by simp⟩
    · simp [h0, h1, Recovered]

example : Faithful demoHist = true ∧
    (demoPick 0).2.isSome = true ∧ (demoPick 1).2.isSome = true ∧
    (mixState (runHist true demoHist) demoPick).status true 0 = .upToDate ∧
    (mixState (runHist true demoHist) demoPick).spec 0 = true ∧
    (mixState (runHist true demoHist) demoPick).status true 1 = .run ∧
    (mixState (runHist true demoHist) demoPick).spec 1 = false ∧
    (mixState (runHist true demoHist) demoPick).status true 2 = .run := by decide

/-! `Faithful` is needed for the same reason as in C03 (`C03.C03_mtime_preserving_counterexample`, which is the special
    case `pick` = the present pairs). -/

end DoitModel.C06b
