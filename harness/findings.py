"""Signature predicates of the *open* known findings (findings/known-findings.txt).

SIGNATURES[key](witness) -> bool decides whether a (shrunk) failing case found by a check is the listed finding.
A violation matching no open signature is reported as VIOLATION.  Keys must match `key=` in the findings file.
Predicates must be specific: they describe the failing input/call site/history, never "any failure of Cxx".
"""

SIGNATURES = {}


def signature(key):
    def deco(f):
        SIGNATURES[key] = f
        return f
    return deco
