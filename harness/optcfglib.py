"""C16 wave 5: the configuration side of option handling (model lean/DoitModel/Model/OptCfg.lean)

  layers  a `main` case (API dict + pyproject.toml + doit.cfg at once) built around ONE option `probe` that every
          present layer gives a value naming the layer: command line, environment, DOIT_CONFIG, [vcmd] x 3, [GLOBAL] x 3.
          Extra driver request `winner` (Opt.winner / layerValue); compared with what the real command receives.
  plug    PLUGIN sections REPORTER / BACKEND / LOADER in extra_config, pyproject.toml and doit.cfg at once, the name chosen
          on the command line, in a config section or in DOIT_CONFIG; the real `doit run` through DoitMain; observed: the
          class instantiated (reporter, DB backend, loader) or how the run ends.  Driver request `plugpick`.
  conv    one text as the value of one option in a config section, on the command line and in the environment, through
          the real CmdParse.  Driver request `cfgtext`.
"""
import contextlib
import io
import os

import optlib

LAYERS = ['cmdline', 'environ', 'dodoCfg', 'secCfg', 'secToml', 'secApi', 'globCfg', 'globToml', 'globApi']
BLANK = {'env': [], 'ini': [], 'glob': [], 'dodo': [], 'asgs': None, 'sep': False, 'pos': [], 'malformed': None,
         'n_base': 0, 'ini_mode': 'api', 'spec': [], 'argv': []}


# ------------------------------------------------------------------------------------------------ (a) layers

def _layer_text(ty, i, name):
    if ty == 'bool':
        return ['yes', 'off', 'TRUE', '0'][i % 4]
    if ty == 'int':
        return str(10 + i)
    if ty == 'list':
        return '%s1, %s2' % (name, name)
    return name


def _layer_typed(ty, i, name):
    if ty == 'bool':
        return i % 2 == 0
    if ty == 'int':
        return 10 + i
    if ty == 'list':
        return [name + '1', name + '2']
    return name


def gen_layers_case(rng, base, present=None):
    ty = rng.choice(['str', 'str', 'int', 'list', 'bool'])
    o = {'name': 'probe', 'type': ty, 'default': {'str': 'declared', 'int': 0, 'list': ['d'], 'bool': rng.random() < 0.5}[ty],
         'short': optlib.SHORTS[0], 'long': 'probe', 'inverse': 'no-probe' if ty == 'bool' else '', 'choices': [],
         'env_var': 'DOITV_A'}
    if present is None:
        p_ = rng.choice([0.2, 0.5, 0.5, 0.8])
        cut = rng.choice([0, 0, 0, 1, 2, 3, 3, 4, 5, 6, 6, 7, 8])     # nothing above layer `cut`: the weaker layers get to decide too
        present = [l for i, l in enumerate(LAYERS) if i >= cut and rng.random() < p_]
    case = dict(BLANK, path='main', spec=[dict(x) for x in base] + [o], n_base=len(base), ini_mode='mixed')

    def cfgval(l, typed_ok):
        i = LAYERS.index(l)
        if typed_ok and rng.random() < 0.5:
            return {'val': _layer_typed(ty, i, l)}
        return {'raw': _layer_text(ty, i, l)}
    files = {'toml': None, 'cfg': None}
    for kind, sec, glob in (('toml', 'secToml', 'globToml'), ('cfg', 'secCfg', 'globCfg')):
        if sec in present or glob in present or rng.random() < 0.3:
            files[kind] = {'ini': [['probe', cfgval(sec, kind == 'toml')]] if sec in present else [],
                           'glob': [['probe', cfgval(glob, kind == 'toml')]] if glob in present else []}
    case['files'] = files
    case['ini'] = [['probe', cfgval('secApi', True)]] if 'secApi' in present else []
    case['glob'] = [['probe', cfgval('globApi', True)]] if 'globApi' in present else []
    case['dodo'] = [['probe', _layer_typed(ty, 2, 'dodoCfg')]] if 'dodoCfg' in present else []
    case['env'] = [['DOITV_A', _layer_text(ty, 1, 'environ')]] if 'environ' in present else []
    asgs = []
    if 'cmdline' in present:
        for n in range(rng.choice([1, 1, 2])):
            if ty == 'bool':
                asgs.append(['lFlag', rng.choice(['probe', 'no-probe'])])
                continue
            asgs.append([rng.choice(['lEq', 'lDet']), 'probe', _layer_text(ty, 0, 'cmdline') if n == 0 else
                         {'int': '77', 'list': 'more', 'str': 'cmdline'}[ty]])
    case['asgs'] = asgs
    case['argv'] = optlib.render(asgs, False, [])
    case['klayers'] = {'present': present, 'type': ty, 'opt': o}
    return case


def probe_opt(case):
    return next((o for o in case['spec'] if o['name'] == 'probe'), None)


def winner_request(case):
    o = probe_opt(case) or dict(case['klayers'].get('opt') or {})
    fs = case.get('files') or {}

    def sec(kind, fld):
        return [e for e in (fs.get(kind) or {}).get(fld, []) if e[0] == 'probe'] if fs.get(kind) else []
    return {'model': 'opt', 'op': 'winner', 'opt': o,
            'occ': [[a[1] == 'no-probe', a[2] if len(a) == 3 else ''] for a in case['asgs'] or []
                    if a[1] in ('probe', 'no-probe') and a[0] in ('lFlag', 'lEq', 'lDet')],
            'envv': dict((k, v) for k, v in case['env']).get('DOITV_A'),
            'dodo': case['dodo'],
            'gApi': case['glob'], 'gToml': sec('toml', 'glob'), 'gCfg': sec('cfg', 'glob'),
            'sApi': case['ini'], 'sToml': sec('toml', 'ini'), 'sCfg': sec('cfg', 'ini')}


def present_of(case):
    fs = case.get('files') or {}

    def has(lst):
        return any(e[0] == 'probe' for e in lst or [])
    flags = {'cmdline': any(a[1] in ('probe', 'no-probe') for a in case['asgs'] or []),
             'environ': any(k == 'DOITV_A' for k, _ in case['env']),
             'dodoCfg': has(case['dodo']),
             'secCfg': has((fs.get('cfg') or {}).get('ini')), 'secToml': has((fs.get('toml') or {}).get('ini')),
             'secApi': has(case['ini']),
             'globCfg': has((fs.get('cfg') or {}).get('glob')), 'globToml': has((fs.get('toml') or {}).get('glob')),
             'globApi': has(case['glob'])}
    return [l for l in LAYERS if flags[l]]


def judge_layers(case, impl, model):
    """-> (viol, div) additions for a layers case"""
    viol, div = [], []
    if probe_opt(case) is None or case.get('malformed'):
        return viol, div
    w = (model.get('_aux') or {}).get('winner') or {}
    present = present_of(case)          # from the case as it is now (the shrinker removes entries)
    want_layer = next((l for l in LAYERS if l in present), 'declared')      # the order the property states
    if w.get('winner') != want_layer:
        viol.append(('precedence', 'layers present %s: the model\'s winner is %s, the stated order gives %s'
                     % (present, w.get('winner'), want_layer)))
    r = impl.get('res') or {}
    got = dict((k, v) for k, v in r['ok']['vals']).get('probe') if 'ok' in r else {'err': r.get('err')}
    mv = w.get('value') or {}
    if ('ok' in mv and got != mv['ok']) or ('err' in mv and 'ok' in r):
        div.append('M4/layers: probe = %r with layers %s present, the model (winner %s) gives %s'
                   % (got, present, w.get('winner'), mv))
    ty = case['klayers']['type']
    if 'ok' in r and ty != 'list':
        i = LAYERS.index(want_layer) if want_layer in LAYERS else None
        exp = probe_opt(case)['default'] if i is None else _layer_typed(ty, i, want_layer)
        if want_layer == 'cmdline':
            last = [a for a in case['asgs'] if a[1] in ('probe', 'no-probe')][-1]
            exp = (last[1] == 'probe') if ty == 'bool' else int(last[2]) if ty == 'int' else last[2]
        if got != exp:
            viol.append(('precedence', 'layers present %s: probe = %r, the layer that must win (%s) says %r'
                         % (present, got, want_layer, exp)))
    return viol, div


# ------------------------------------------------------------------------------------------------ (b) plugins

SEEN = {}
_ready = {}
CATS = {'reporter': ('REPORTER', 'reporter'), 'backend': ('BACKEND', 'backend'), 'loader': ('LOADER', 'loader')}
LAYER3 = ['api', 'toml', 'cfg']


def _task_t():
    return {'actions': None}


def _classes():
    """plugin classes, one per category and layer (the class instantiated tells the layer that won)"""
    import doit
    key = id(doit)
    if _ready.get('key') == key:
        return
    from doit.reporter import ZeroReporter
    from doit.dependency import JsonDB
    from doit.cmd_base import ModuleTaskLoader
    g = globals()
    for l in LAYER3:
        def rinit(self, *a, **k):
            SEEN['reporter'] = type(self).__name__
            ZeroReporter.__init__(self, *a, **k)
        g['R_' + l] = type('R_' + l, (ZeroReporter,), {'desc': 'probe reporter', '__init__': rinit})

        def binit(self, *a, **k):
            SEEN['backend'] = type(self).__name__
            JsonDB.__init__(self, *a, **k)
        g['B_' + l] = type('B_' + l, (JsonDB,), {'desc': 'probe backend', '__init__': binit})

        def linit(self):
            SEEN['loader'] = type(self).__name__
            ModuleTaskLoader.__init__(self, {'task_t': _task_t})
        g['L_' + l] = type('L_' + l, (ModuleTaskLoader,), {'__init__': linit})
    _ready['key'] = key


def core_tables():
    """name -> class name of the core reporters / backends, introspected from the real `run` command"""
    from doit.cmd_run import Run
    from doit.cmd_base import ModuleTaskLoader
    cmd = Run(task_loader=ModuleTaskLoader({}), config={})
    return {'reporter': {k: v.__name__ for k, v in cmd.reporters.items()},
            'backend': {k: v.__name__ for k, v in cmd._backends.items()},
            'loader': {}}


def gen_plug_case(rng, core):
    cat = rng.choice(['reporter', 'reporter', 'backend', 'backend', 'loader'])
    letter = {'reporter': 'R', 'backend': 'B', 'loader': 'L'}[cat]
    shadow = {'reporter': 'zero', 'backend': 'json', 'loader': 'pc'}[cat]      # a plugin named like a core class
    pool = ['pa', 'pb', shadow]
    layers = {}
    for l in LAYER3:
        if rng.random() < 0.75:
            layers[l] = [[n, 'optcfglib:%s_%s' % (letter, l)] for n in pool if rng.random() < 0.45]
        else:
            layers[l] = None            # API: no such section; file: not present
    other_core = sorted(n for n in core[cat] if n != shadow)
    name = rng.choice(pool + pool + other_core[:2] + ['nosuch'])
    where = 'config' if cat == 'loader' else rng.choice(['cmdline', 'config', 'dodo'])
    case = dict(BLANK, path='plug', cat=cat, layers=layers, name=name, where=where,
                core=sorted(core[cat]))
    present = [l for l in LAYER3 if layers[l] is not None]
    if present and rng.random() < 0.22:
        # an entry that does not load: no / two colons, a module that does not exist, an attribute the module lacks
        l = rng.choice(present)
        n = rng.choice(pool + ['px', 'px'])
        bad = rng.choice(['nomod_xyz:X', 'optcfglib:NoSuchAttr', 'optcfglib', 'optcfglib:%s_api:x' % letter])
        layers[l] = [e for e in layers[l] if e[0] != n] + [[n, bad]]
        case['broken'] = [l, n, bad]
    if where == 'config':
        case['cfg_at'] = [rng.choice(LAYER3), 'GLOBAL' if cat == 'loader' else rng.choice(['GLOBAL', 'run'])]
    elif where == 'cmdline':
        opt = {'reporter': rng.choice(['-r', '--reporter']), 'backend': '--backend'}[cat]
        case['plug_argv'] = [opt, name] if rng.random() < 0.6 or opt == '-r' else [opt + '=' + name]
        case['argv'] = list(case['plug_argv'])      # shown; the run uses plug_argv (the shrinker edits argv)
    return case


def plug_request(case):
    attrs = ['%s_%s' % (c, l) for c in 'RBL' for l in LAYER3]
    return {'model': 'opt', 'op': 'plugpick', 'cat': case['cat'], 'where': case['where'], 'core': case['core'],
            'layers': [case['layers'][l] or [] for l in LAYER3], 'name': case['name'],
            'mods': [['optcfglib', attrs]]}


def impl_plug(case, workdir):
    _classes()
    from doit.doit_cmd import DoitMain
    from doit.cmd_base import ModuleTaskLoader
    import doit.cmd_run as cmd_run
    cat = case['cat']
    section, key = CATS[cat]
    extra, toml_, cfg_ = {}, [], []
    lay = case['layers']
    if lay['api'] is not None:
        extra[section] = {n: loc for n, loc in lay['api']}
    if lay['toml'] is not None:
        toml_.append('[tool.doit.plugins.%s]\n' % cat + ''.join('%s = "%s"\n' % (n, loc) for n, loc in lay['toml']))
    if lay['cfg'] is not None:
        cfg_.append('[%s]\n' % section + ''.join('%s = %s\n' % (n, loc) for n, loc in lay['cfg']))
    ns = {'task_t': _task_t}
    if case['where'] == 'config':
        at, sec = case['cfg_at']
        if at == 'api':
            extra.setdefault(sec, {})[key] = case['name']
        elif at == 'toml':
            toml_.insert(0, ('[tool.doit]\n' if sec == 'GLOBAL' else '[tool.doit.commands.run]\n') + '%s = "%s"\n' % (key, case['name']))
        else:
            cfg_.append('[%s]\n%s = %s\n' % (sec, key, case['name']))
    elif case['where'] == 'dodo':
        ns['DOIT_CONFIG'] = {key: case['name']}
    old = os.getcwd()
    os.chdir(workdir)
    err = io.StringIO()
    SEEN.clear()
    real_runner = cmd_run.Runner

    class SpyRunner(real_runner):
        def __init__(self, dep_manager, reporter, *a, **k):
            SEEN['reporter_obj'] = type(reporter).__name__
            SEEN['backend_obj'] = type(dep_manager.backend).__name__
            real_runner.__init__(self, dep_manager, reporter, *a, **k)
    try:
        for f in os.listdir(workdir):
            os.remove(os.path.join(workdir, f))
        if toml_:
            with open('pyproject.toml', 'w') as f:
                f.write(''.join(toml_))
        if cfg_:
            with open('doit.cfg', 'w') as f:
                f.write(''.join(cfg_))
        with open('dodo.py', 'w') as f:
            f.write('def task_t():\n    return {"actions": None}\n')
        cmd_run.Runner = SpyRunner
        with optlib.environ([]), contextlib.redirect_stderr(err), contextlib.redirect_stdout(io.StringIO()):
            try:
                main = DoitMain(task_loader=None if cat == 'loader' else ModuleTaskLoader(ns),
                                extra_config=extra or None)
                code = main.run(['run'] + list(case.get('plug_argv') or []))
            except BaseException as ex:  # noqa
                return {'pick': 'escapes', 'exc': type(ex).__name__, 'res': {'err': 'crash'}}
    finally:
        cmd_run.Runner = real_runner
        os.chdir(old)
    text = err.getvalue()
    if code == 0:
        cls = {'reporter': SEEN.get('reporter_obj'), 'backend': SEEN.get('backend_obj'),
               'loader': SEEN.get('loader', 'DodoTaskLoader')}[cat]
        return {'pick': 'cls', 'cls': cls, 'exit': 0, 'res': {'ok': {'vals': [], 'nd': None, 'pos': []}}}
    if code == 3 and text.startswith('ERROR:') and 'Traceback' not in text:
        return {'pick': 'error', 'exit': 3, 'msg': optlib.classify_error(text), 'res': {'err': 'bad-choice'}}
    if code == 3 and 'Traceback' in text:
        return {'pick': 'traceback3', 'exit': 3, 'exc': text.strip().split('\n')[-1][:80], 'res': {'err': 'crash'}}
    return {'pick': 'other', 'exit': code, 'text': text[-200:], 'res': {'err': 'crash'}}


def _cls_name(case, model, core_names):
    c = model.get('cls')
    if not c:
        return None
    if c[0] == 'plugin':
        return c[1].split(':')[1]
    return core_names.get(c[1])


def judge_plug(case, impl, model):
    viol, div = [], []
    core_names = core_tables()[case['cat']]
    want_cls = _cls_name(case, model, core_names)
    if impl.get('pick') != model.get('pick') or (model.get('pick') == 'cls' and impl.get('cls') != want_cls):
        div.append('M4/plug: %s name %r written in %s with plugin layers %s: doit %s, the model %s %s'
                   % (case['cat'], case['name'], case.get('cfg_at') or case['where'], case['layers'],
                      {k: impl.get(k) for k in ('pick', 'cls', 'exc', 'msg', 'exit')}, model.get('pick'), want_cls))
    if case.get('broken'):
        return viol, div        # a plugin entry that does not load: correspondence only (the property does not speak about it)
    # (P) the statement, from the structured input alone
    defined = [l for l in reversed(LAYER3) if case['layers'][l] and case['name'] in [n for n, _ in case['layers'][l]]]
    if defined:
        exp = [loc for n, loc in case['layers'][defined[0]] if n == case['name']][0].split(':')[1]
        if impl.get('pick') != 'cls' or impl.get('cls') != exp:
            viol.append(('precedence', '%s %r is defined as a plugin in %s (doit.cfg > pyproject.toml > extra_config, plugin '
                         'before core): class %s expected, doit: %s' % (case['cat'], case['name'], defined, exp,
                                                                        {k: impl.get(k) for k in ('pick', 'cls', 'exc')})))
    elif case['name'] in core_names:
        if impl.get('pick') != 'cls' or impl.get('cls') != core_names[case['name']]:
            viol.append(('precedence', 'core %s %r: class %s expected, doit: %s'
                         % (case['cat'], case['name'], core_names[case['name']], impl.get('pick'))))
    elif impl.get('pick') != 'error':
        viol.append(('reject', 'unknown %s name %r written in %s is not rejected with `ERROR: ...` / exit code 3: %s'
                     % (case['cat'], case['name'], case.get('cfg_at') or case['where'],
                        {k: impl.get(k) for k in ('pick', 'exc', 'exit')})))
    return viol, div


# ------------------------------------------------------------------------------------------------ (c) conversion

CONV_TEXTS = {'bool': optlib.BOOL_GOOD + optlib.BOOL_BAD + ['Yes', 'ON', 'oFF'],
              'int': optlib.INT_GOOD + optlib.INT_BAD,
              'list': optlib.LIST_VALUES + ['a, b', ' x ', 'a,,b'],
              'str': optlib.STR_VALUES + ['a, b', ' x ']}


def gen_conv_case(rng):
    ty = rng.choice(['bool', 'int', 'str', 'list'])
    choices = []
    if ty in ('int', 'str') and rng.random() < 0.3:
        choices = {'int': [7, 42], 'str': ['a', 'val']}[ty]
    o = {'name': 'probe', 'type': ty, 'default': {'bool': False, 'int': 0, 'str': 'declared', 'list': ['d']}[ty],
         'short': '', 'long': 'probe', 'inverse': '', 'choices': choices, 'env_var': 'DOITV_A'}
    return dict(BLANK, path='conv', opt=o, text=rng.choice(CONV_TEXTS[ty]))


def conv_request(case):
    return {'model': 'opt', 'op': 'cfgtext', 'opt': case['opt'], 'text': case['text']}


def impl_conv(case):
    from doit.cmdparse import CmdParse, CmdOption, CmdParseError
    o, text = case['opt'], case['text']

    def one(f, env):
        parser = CmdParse([CmdOption(optlib.to_cmdoption_dict(o))])
        try:
            with optlib.environ(env):
                return {'ok': optlib.canon_val(f(parser))}
        except CmdParseError as ex:
            return {'err': optlib.classify_error(str(ex))}
        except Exception:  # noqa
            return {'err': 'crash'}

    def cfg(p):
        p.overwrite_defaults({'probe': text})
        return p.parse([])[0]['probe']
    out = {'cfg': one(cfg, []), 'cmd': one(lambda p: p.parse(['--probe=' + text])[0]['probe'], []),
           'env': one(lambda p: p.parse([])[0]['probe'], [['DOITV_A', text]])}
    out['res'] = {'err': 'conv'}
    return out


def judge_conv(case, impl, model):
    viol, div = [], []
    for k in ('cfg', 'cmd', 'env'):
        if impl[k] != model[k]:
            div.append('M4/conv: text %r for a %s option through %s: doit %s, the model %s'
                       % (case['text'], case['opt']['type'], k, impl[k], model[k]))
    ty = case['opt']['type']
    if impl['cfg'] != impl['env']:
        viol.append(('exact', 'text %r for a %s option: config file gives %s, the environment %s'
                     % (case['text'], ty, impl['cfg'], impl['env'])))
    if ty in ('int', 'str') and impl['cfg'] != impl['cmd']:
        viol.append(('exact', 'text %r for a %s option: config file gives %s, the command line %s'
                     % (case['text'], ty, impl['cfg'], impl['cmd'])))
    if ty == 'list' and 'ok' in impl['cfg']:
        parts = [p.strip() for p in case['text'].split(',') if p.strip()]
        if impl['cfg']['ok'] != parts or impl['cmd'].get('ok') != case['opt']['default'] + [case['text']]:
            viol.append(('exact', 'list text %r: config gives %s (comma split expected), command line %s (appended as written expected)'
                         % (case['text'], impl['cfg'], impl['cmd'])))
    return viol, div


# ------------------------------------------------------------------------------------------------ (b) COMMAND plugins

def core_commands():
    from doit.doit_cmd import DoitMain
    return {c.get_name(): c.__name__ for c in DoitMain.DOIT_CMDS}


def _cmd_classes():
    import doit
    if _ready.get('cmdkey') == id(doit):
        return
    from doit.cmd_base import Command
    g = globals()
    for l in LAYER3:
        def execute(self, opt_values, pos_args):
            return 0
        g['C_' + l] = type('C_' + l, (Command,), {'doc_purpose': 'probe', 'doc_usage': '', 'execute': execute})
    _ready['cmdkey'] = id(doit)


def gen_cmd_case(rng, core_cmds):
    pool = ['pa', 'list', 'run']            # two of them named like core commands
    layers = {}
    for l in LAYER3:
        layers[l] = ([[n, 'optcfglib:C_%s' % l] for n in pool if rng.random() < 0.4] if rng.random() < 0.75 else None)
    case = dict(BLANK, path='plugcmd', layers=layers, core=sorted(core_cmds))
    present = [l for l in LAYER3 if layers[l] is not None]
    if present and rng.random() < 0.3:
        l = rng.choice(present)
        n = rng.choice(pool + ['px', 'px'])
        bad = rng.choice(['nomod_xyz:X', 'optcfglib:NoSuchAttr', 'optcfglib', 'optcfglib:C_api:x'])
        layers[l] = [e for e in layers[l] if e[0] != n] + [[n, bad]]
        case['broken'] = [l, n, bad]
    first = rng.choice(['pa', 'pa', 'list', 'run', 'px', 't', 't', None, 'info'])
    case['argv'] = ([] if first is None else [first]) + (['t'] if rng.random() < 0.5 and first != 't' else [])
    return case


def cmd_request(case):
    return {'model': 'opt', 'op': 'plugcmd', 'core': case['core'], 'args': case['argv'],
            'layers': [case['layers'][l] or [] for l in LAYER3], 'mods': [['optcfglib', ['C_' + l for l in LAYER3]]]}


def impl_cmd(case, workdir):
    _cmd_classes()
    from doit.doit_cmd import DoitMain
    from doit.cmd_base import ModuleTaskLoader, Command
    lay = case['layers']
    extra = {}
    old = os.getcwd()
    os.chdir(workdir)
    err = io.StringIO()
    seen = []
    real_pe = Command.parse_execute

    def spy(self, in_args):
        seen.append([type(self).__name__, self.name, list(in_args)])
        return real_pe(self, in_args)
    try:
        for f in os.listdir(workdir):
            os.remove(os.path.join(workdir, f))
        if lay['api'] is not None:
            extra['COMMAND'] = {n: loc for n, loc in lay['api']}
        if lay['toml'] is not None:
            with open('pyproject.toml', 'w') as f:
                f.write('[tool.doit.plugins.command]\n' + ''.join('%s = "%s"\n' % (n, loc) for n, loc in lay['toml']))
        if lay['cfg'] is not None:
            with open('doit.cfg', 'w') as f:
                f.write('[COMMAND]\n' + ''.join('%s = %s\n' % (n, loc) for n, loc in lay['cfg']))
        Command.parse_execute = spy
        with optlib.environ([]), contextlib.redirect_stderr(err), contextlib.redirect_stdout(io.StringIO()):
            try:
                code = DoitMain(task_loader=ModuleTaskLoader({'task_t': _task_t, 'task_px': _task_t}),
                                extra_config=extra or None).run(list(case['argv']))
            except BaseException as ex:  # noqa
                return {'pick': 'escapes', 'exc': type(ex).__name__, 'res': {'err': 'crash'}}
    finally:
        Command.parse_execute = real_pe
        os.chdir(old)
    text = err.getvalue()
    if seen:
        return {'pick': 'cls', 'cls': seen[0][0], 'cmd': seen[0][1], 'rest': seen[0][2], 'exit': code,
                'res': {'ok': {'vals': [], 'nd': None, 'pos': []}}}
    if code == 3 and 'Traceback' in text:
        return {'pick': 'traceback3', 'exit': 3, 'exc': text.strip().split('\n')[-1][:80], 'res': {'err': 'crash'}}
    return {'pick': 'other', 'exit': code, 'text': text[-200:], 'res': {'err': 'crash'}}


def judge_cmd(case, impl, model):
    viol, div = [], []
    want_cls = _cls_name(case, model, core_commands())
    if impl.get('pick') != model.get('pick') or (model.get('pick') == 'cls' and (
            impl.get('cls') != want_cls or impl.get('rest') != model.get('rest') or
            ((model.get('cls') or ['-'])[0] == 'core' and impl.get('cmd') != model.get('cmd')))):     # a plugin class has a name of its own
        div.append('M4/plugcmd: `doit %s` with COMMAND plugin layers %s: doit %s, the model %s %s %s %s'
                   % (' '.join(case['argv']), case['layers'], {k: impl.get(k) for k in ('pick', 'cls', 'cmd', 'rest', 'exc')},
                      model.get('pick'), want_cls, model.get('cmd'), model.get('rest')))
    if not case.get('broken') and case['argv']:
        # (P) the command named first is the one executed, the plugin of the last layer that defines the name
        a = case['argv'][0]
        defined = [l for l in reversed(LAYER3) if case['layers'][l] and a in [n for n, _ in case['layers'][l]]]
        if defined and (impl.get('pick') != 'cls' or impl.get('cls') != 'C_' + defined[0]):
            viol.append(('precedence', 'command %r is defined as a plugin in %s (doit.cfg > pyproject.toml > extra_config): '
                         'class C_%s expected, doit: %s' % (a, defined, defined[0], {k: impl.get(k) for k in ('pick', 'cls')})))
    return viol, div


# ------------------------------------------------------------------------------------------------ (a) task options

TLAYERS = ['cmdline', 'environ', 'secCfg', 'secToml', 'secApi']


def gen_tlayers_case(rng):
    """option `probe` of task `t`: command line after the task name, environment, [task:t] in doit.cfg /
    tool.doit.tasks.t in pyproject.toml / extra_config['task:t']; [GLOBAL] and DOIT_CONFIG name the key too (noise:
    task options do not read them)"""
    ty = rng.choice(['str', 'int'])
    o = {'name': 'probe', 'type': ty, 'default': {'str': 'declared', 'int': 0}[ty], 'short': 'p', 'long': 'probe',
         'inverse': '', 'choices': [], 'env_var': 'DOITV_A'}
    cut = rng.choice([0, 0, 1, 2, 2, 3, 4])
    present = [l for i, l in enumerate(TLAYERS) if i >= cut and rng.random() < 0.55]
    typed = {l: (l != 'secCfg' and rng.random() < 0.5) for l in ('secToml', 'secApi')}
    return dict(BLANK, path='tlayers', opt=o, present=present, typed=typed,
                noise=[n for n in ('glob', 'dodo') if rng.random() < 0.6],
                argv=(['--probe', _layer_text(ty, 0, 'cmdline')] if 'cmdline' in present else []))


def _tval(case, l):
    ty = case['opt']['type']
    i = LAYERS.index(l)
    return {'val': _layer_typed(ty, i, l)} if case['typed'].get(l) else {'raw': _layer_text(ty, i, l)}


def tlayers_request(case):
    sec = lambda l: [['probe', _tval(case, l)]] if l in case['present'] else []      # noqa: E731
    return {'model': 'opt', 'op': 'winner', 'opt': case['opt'],
            'occ': [[False, case['argv'][1]]] if case['argv'] else [],
            'envv': _layer_text(case['opt']['type'], 1, 'environ') if 'environ' in case['present'] else None,
            'dodo': [], 'gApi': [], 'gToml': [], 'gCfg': [],
            'sApi': sec('secApi'), 'sToml': sec('secToml'), 'sCfg': sec('secCfg')}


def impl_tlayers(case, workdir):
    from doit.doit_cmd import DoitMain
    from doit.cmd_base import ModuleTaskLoader
    o = case['opt']
    seen = {}

    def act(probe):
        seen['v'] = probe

    def task_t():
        return {'actions': [(act,)], 'params': [optlib.to_cmdoption_dict(o)], 'verbosity': 0}
    ns = {'task_t': task_t}
    if 'dodo' in case['noise']:
        ns['DOIT_CONFIG'] = {'probe': 'dodonoise'}
    extra = {}
    if 'glob' in case['noise']:
        extra['GLOBAL'] = {'probe': 'globnoise'}
    if 'secApi' in case['present']:
        extra['task:t'] = optlib.cfg_py([['probe', _tval(case, 'secApi')]])
    old = os.getcwd()
    os.chdir(workdir)
    err = io.StringIO()
    try:
        for f in os.listdir(workdir):
            os.remove(os.path.join(workdir, f))
        if 'secToml' in case['present']:
            with open('pyproject.toml', 'w') as f:
                f.write('[tool.doit.tasks.t]\nprobe = %s\n' % optlib._toml_value(_tval(case, 'secToml')))
        if 'secCfg' in case['present']:
            with open('doit.cfg', 'w') as f:
                f.write('[task:t]\nprobe = %s\n' % _tval(case, 'secCfg')['raw'])
        env = [['DOITV_A', _layer_text(o['type'], 1, 'environ')]] if 'environ' in case['present'] else []
        with optlib.environ(env), contextlib.redirect_stderr(err), contextlib.redirect_stdout(io.StringIO()):
            try:
                code = DoitMain(task_loader=ModuleTaskLoader(ns), extra_config=extra or None).run(['run', '-r', 'zero', 't'] + list(case['argv']))
            except BaseException as ex:  # noqa
                return {'value': {'err': 'crash'}, 'exc': type(ex).__name__, 'res': {'err': 'crash'}}
    finally:
        os.chdir(old)
    if code == 0 and 'v' in seen:
        return {'value': {'ok': optlib.canon_val(seen['v'])}, 'exit': 0, 'res': {'ok': {'vals': [], 'nd': None, 'pos': []}}}
    return {'value': {'err': 'exit %s' % code}, 'text': err.getvalue()[-200:], 'exit': code, 'res': {'err': 'crash'}}


def judge_tlayers(case, impl, model):
    viol, div = [], []
    if impl['value'] != model.get('value'):
        div.append('M4/tlayers: task option probe with layers %s (noise %s): doit %s, the model (winner %s) %s'
                   % (case['present'], case['noise'], impl['value'], model.get('winner'), model.get('value')))
    want = next((l for l in TLAYERS if l in case['present']), 'declared')
    ty = case['opt']['type']
    exp = case['opt']['default'] if want == 'declared' else _layer_typed(ty, LAYERS.index(want), want)
    if model.get('winner') != want or impl['value'] != {'ok': exp}:
        viol.append(('precedence', 'task option probe, layers %s (+ noise %s in [GLOBAL] / DOIT_CONFIG): %s must win and give %r; '
                     'doit %s, model winner %s' % (case['present'], case['noise'], want, exp, impl['value'], model.get('winner'))))
    return viol, div
