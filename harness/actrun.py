"""Runner-level cases of the action family (C17): a whole `doit run` in this process (serial runner, process runner,
thread runner) over generated python-action tasks; observables are what a custom reporter is told (the captured
`out`/`err` of every action of every reported task, in the parent process), the exit code, and whether
sys.stdout/sys.stderr are the installed objects again after the run.

case = {'kind': 'runner', 'par': 'serial'|'process'|'thread', 'n': N, 'mode': 'independent'|'chain'|'forced',
        'v': 0|1|2, 'tasks': [{'actions': [{'writes': k, 'end': 'true'|'false'|'raise'|'str'}...]}...]}

mode 'forced' (thread runner, 2 tasks): the executions are made to overlap in a fixed order with events --
  a0 = (t0, action 0) starts; then b0 = (t1, action 0) runs completely; then b1 = (t1, action 1) starts;
  a0 writes and ends; the reporter is told t0 succeeded; b1 writes and ends.
"""
import os
import sys
import threading

import common
import actlib

T = 40   # seconds a forced step may wait for its predecessor


class Recorder(object):
    """reporter class handed to doit; records in class attributes (parent process, main thread)"""
    log = []
    events = {}
    values = {}

    def __init__(self, outstream, options):
        pass

    def initialize(self, tasks, selected_tasks):
        pass

    def get_status(self, task):
        pass

    def execute_task(self, task):
        Recorder.log.append(['execute', task.name])

    def _outs(self, task):
        Recorder.values[task.name] = actlib.canon_vals(dict(task.values))
        return [[a.out for a in task.actions], [a.err for a in task.actions]]

    def add_failure(self, task, fail):
        Recorder.log.append(['failure', task.name, type(fail).__name__] + self._outs(task))
        ev = Recorder.events.get('done:' + task.name)
        if ev is not None:
            ev.set()

    def add_success(self, task):
        Recorder.log.append(['success', task.name] + self._outs(task))
        ev = Recorder.events.get('done:' + task.name)
        if ev is not None:
            ev.set()

    def skip_uptodate(self, task):
        Recorder.log.append(['uptodate', task.name])

    def skip_ignore(self, task):
        Recorder.log.append(['ignore', task.name])

    def cleanup_error(self, exception):
        Recorder.log.append(['cleanup_error'])

    def runtime_error(self, msg):
        Recorder.log.append(['runtime_error', str(msg)[:200]])

    def teardown_task(self, task):
        pass

    def complete_run(self):
        Recorder.log.append(['complete'])


def action_ids(case):
    """global action id of (task index, action index)"""
    ids, n = {}, 0
    for ti, t in enumerate(case['tasks']):
        for ai, _ in enumerate(t['actions']):
            ids[(ti, ai)] = n
            n += 1
    return ids


def tok_text(a, n, chan):
    return ''.join(('[%d.%d]' if chan == 'o' else '{%d.%d}') % (a, k) for k in range(n))


def cmd_script_of(a, spec):
    """shell command of a cmd-action of a runner case: its tokens on stdout and stderr, then its exit status"""
    n = spec.get('writes', 0)
    return "printf %%s '%s'; printf %%s '%s' >&2; exit %d" % (tok_text(a, n, 'o'), tok_text(a, n, 'e'),
                                                              0 if spec.get('end', 'true') == 'true' else 3)


def make_action(case, ids, ti, ai, spec, hooks):
    a = ids[(ti, ai)]
    before, after_write = hooks.get((ti, ai), (None, None))
    if spec.get('cmd'):
        from doit.action import CmdAction
        # (`%` is doubled: the command string goes through the old-style expansion)
        so = actlib.KEYS[spec['save_out']] if spec.get('save_out') is not None else None
        return CmdAction(cmd_script_of(a, spec).replace('%', '%%'), save_out=so)

    def fn():
        if before is not None:
            before()
        for n in range(spec.get('writes', 0)):
            actlib.write_tok(a, n)
        if after_write is not None:
            after_write()
        e = spec.get('end', 'true')
        if e == 'false':
            return False
        if e == 'raise':
            raise ValueError('action %d raises' % a)
        if e == 'str':
            return 'res%d' % a
        if e == 'dict':
            return {actlib.KEYS[spec.get('key', 0)]: a}
        return True
    fn.__name__ = 'act_%d_%d' % (ti, ai)
    return fn


def run_runner(case):
    common.use_repo()
    from doit.doit_cmd import DoitMain
    from doit.cmd_base import ModuleTaskLoader
    ids = action_ids(case)
    Recorder.log = []
    Recorder.events = {}
    Recorder.values = {}
    hooks = {}
    problems = []
    if case['mode'] == 'forced':
        e_a0, e_b1 = threading.Event(), threading.Event()
        done0 = threading.Event()
        Recorder.events['done:t0'] = done0

        def wait(ev, what):
            if not ev.wait(T):
                problems.append('timeout waiting for ' + what)
        hooks[(0, 0)] = (lambda: (e_a0.set(), wait(e_b1, 'b1 to start')), None)
        hooks[(1, 0)] = (lambda: wait(e_a0, 'a0 to start'), None)
        hooks[(1, 1)] = (lambda: (e_b1.set(), wait(done0, 't0 to be reported')), None)
    work = common.scratch_dir('c17run')
    ns = {}
    for ti, t in enumerate(case['tasks']):
        acts = [make_action(case, ids, ti, ai, spec, hooks) for ai, spec in enumerate(t['actions'])]
        d = {'actions': acts}
        if 'tv' in t:
            d['verbosity'] = t['tv']          # task-level verbosity (wins over the configured one)
        if 'capture' in t:
            d['io'] = {'capture': t['capture']}
        if t.get('title') == 'custom':
            d['title'] = lambda task: 'T<%s>' % task.name
        elif t.get('title') == 'with_actions':
            from doit import tools
            d['title'] = tools.title_with_actions
        if case['mode'] == 'chain' and ti > 0:
            d['task_dep'] = ['t%d' % (ti - 1)]

        def creator(d=d):
            return d
        ns['task_t%d' % ti] = creator
    ns['DOIT_CONFIG'] = {'dep_file': os.path.join(work, 'db.json'), 'backend': 'json', 'reporter': Recorder,
                         'verbosity': case.get('v', 0), 'continue': True}
    argv = ['run']
    json_path = None
    report_path = None
    if case.get('reporter') == 'console':
        # the built-in console reporter writing into a file: titles, and the captured out/err of failed tasks
        del ns['DOIT_CONFIG']['reporter']
        report_path = os.path.join(work, 'report.txt')
        argv += ['-o', report_path]
        ns['DOIT_CONFIG']['failure_verbosity'] = case.get('fv', 0)
    if case.get('reporter') == 'json':
        # doit's own JSON reporter: it swaps sys.stdout/sys.stderr for the whole run and must give them back,
        # also when the run is aborted mid-task or the report cannot be written
        ns['DOIT_CONFIG']['reporter'] = 'json'
        abort = case.get('abort')
        if abort == 'devfull' and not os.path.exists('/dev/full'):
            abort = 'kwargs'
        json_path = '/dev/full' if abort == 'devfull' else os.path.join(work, 'report.json')
        argv += ['-o', json_path]
        if abort == 'kwargs':
            def rejected(targets=None):
                return True
            ns['task_zabort'] = lambda: {'actions': [rejected]}
        elif abort == 'interrupt':
            def interrupted():
                raise KeyboardInterrupt()
            ns['task_zabort'] = lambda: {'actions': [interrupted]}
        elif abort == 'devfull':
            ns['task_zabort'] = lambda: {'actions': [lambda: print('x' * 200000)]}
    if case['par'] != 'serial':
        argv += ['-n', str(case.get('n', 2)), '-P', case['par']]
    code = None
    raised = None
    with actlib.Swapped() as sw:
        try:
            code = actlib.guarded(lambda: DoitMain(ModuleTaskLoader(ns)).run(argv), timeout=4 * T)
        except SystemExit as ex:
            code = ex.code
        except BaseException as ex:  # noqa
            raised = '%s: %s' % (type(ex).__name__, str(ex)[:200])
        ident = sw.identity()
    report = None
    if report_path and os.path.exists(report_path):
        with open(report_path, encoding='utf-8', errors='replace') as f:
            report = f.read()
    doc = None
    if json_path and json_path != '/dev/full' and os.path.exists(json_path):
        import json as _json
        try:
            with open(json_path) as f:
                doc = _json.load(f)
        except ValueError:
            doc = None
    import shutil
    shutil.rmtree(work, ignore_errors=True)
    outs, errs, order, reported = {}, {}, [], {}
    if doc is not None:
        # per task the reporter concatenates the captured text of its actions; tokens carry the action id
        for tr in doc.get('tasks', []):
            if not tr['name'].startswith('t') or not tr['name'][1:].isdigit():
                continue
            ti = int(tr['name'][1:])
            if tr.get('result') in ('success', 'fail'):
                order.append(ti)
                reported[str(ti)] = 'success' if tr['result'] == 'success' else 'failure'
                to, te = actlib.toks(tr.get('out') or '', 'o'), actlib.toks(tr.get('err') or '', 'e')
                for ai in ran_actions(case, ti):
                    a = ids[(ti, ai)]
                    outs[str(a)] = [t for t in to if t[0] == a]
                    errs[str(a)] = [t for t in te if t[0] == a]
                foreign = [t for t in to + te if t[0] not in [ids[(ti, ai)] for ai in range(len(case['tasks'][ti]['actions']))]]
                if foreign:
                    outs['foreign:%d' % ti] = foreign
        order.sort()
    for rec in Recorder.log:
        if rec[0] == 'execute':
            order.append(int(rec[1][1:]))
        elif rec[0] in ('success', 'failure'):
            ti = int(rec[1][1:])
            reported[str(ti)] = rec[0]
            o, e = rec[-2], rec[-1]
            for ai in range(len(case['tasks'][ti]['actions'])):
                a = ids[(ti, ai)]
                outs[str(a)] = actlib.toks(o[ai] if ai < len(o) else None, 'o')
                errs[str(a)] = actlib.toks(e[ai] if ai < len(e) else None, 'e')
    if case.get('reporter') == 'console':
        return {'code': code, 'raised': raised, 'restored': ident, 'report': report, 'problems': problems,
                'order': [], 'reported': {}, 'out': {}, 'err': {}, 'O': actlib.toks(sw.O.getvalue(), 'o'),
                'E': actlib.toks(sw.E.getvalue(), 'e'), 'runtime_errors': []}
    if case.get('reporter') == 'json':
        return {'code': code, 'raised': raised, 'restored': ident, 'order': order, 'reported': reported,
                'out': outs, 'err': errs, 'O': actlib.toks(sw.O.getvalue(), 'o'), 'E': actlib.toks(sw.E.getvalue(), 'e'),
                'problems': problems, 'runtime_errors': [], 'json_document': doc is not None}
    return {'code': code, 'raised': raised, 'restored': ident, 'order': order, 'reported': reported,
            'out': outs, 'err': errs, 'O': actlib.toks(sw.O.getvalue(), 'o'), 'E': actlib.toks(sw.E.getvalue(), 'e'),
            'problems': problems, 'values': dict(Recorder.values),
            'runtime_errors': [r for r in Recorder.log if r[0] in ('runtime_error', 'cleanup_error')]}


def ran_actions(case, ti):
    """indices of the actions of task ti that execute: up to and including the first unsuccessful one"""
    out = []
    for ai, spec in enumerate(case['tasks'][ti]['actions']):
        out.append(ai)
        if spec.get('end', 'true') in ('false', 'raise'):
            break
    return out


def runner_evs(case, order):
    """step list of the stream machine for the run: executions in the observed task order (disjoint), or the
    forced overlapping order"""
    ids = action_ids(case)

    def block(ti, ai, part='all'):
        a = ids[(ti, ai)]
        n = case['tasks'][ti]['actions'][ai].get('writes', 0)
        start = [['save', a], ['set', a]]
        writes = [['write', a, k] for k in range(n)]
        end = [['restore', a], ['read', a]]
        return {'all': start + writes + end, 'start': start, 'rest': writes + end}[part]
    if case['mode'] == 'forced':
        evs = block(0, 0, 'start') + block(1, 0) + block(1, 1, 'start') + block(0, 0, 'rest') + block(1, 1, 'rest')
        return evs
    evs = []
    for ti in order:
        for ai in ran_actions(case, ti):
            # only python-actions with capture on swap the streams
            if captured(case, ti) and not case['tasks'][ti]['actions'][ai].get('cmd'):
                evs += block(ti, ai)
    return evs


def captured(case, ti):
    return bool(case['tasks'][ti].get('capture', True))


def task_verbosity(case, ti):
    t = case['tasks'][ti]
    return t['tv'] if t.get('tv') is not None else case.get('v', 0)


def expected_action(case, ti, ai):
    """(captured out tokens | None, captured err tokens | None, shown-live out tokens, shown-live err tokens)"""
    ids = action_ids(case)
    a = ids[(ti, ai)]
    spec = case['tasks'][ti]['actions'][ai]
    toks = [[a, k] for k in range(spec.get('writes', 0))]
    cap = captured(case, ti)
    tv = task_verbosity(case, ti)
    if spec.get('cmd'):
        # capture None: /dev/null (capture False is not generated for cmd-actions: Popen needs real descriptors)
        return (toks, toks, toks if tv == 2 else [], toks if tv >= 1 else []) if cap else (None, None, [], [])
    if cap:
        return toks, toks, toks if tv == 2 else [], toks if tv >= 1 else []
    return None, None, toks, toks
