"""Regenerate /verif/MANIFEST.json from the META of every property module (harness/props/cXX.py).
Properties without a module are listed under not_applicable with the reason given in NOT_CLAIMED."""
import importlib
import json
import os
import sys

HERE = os.path.dirname(os.path.abspath(__file__))
sys.path.insert(0, HERE)
VERIF = os.path.dirname(HERE)

NOT_CLAIMED = {}  # property id -> reason (filled only for properties that are genuinely out of reach)
DEFAULT_REASON = ('not claimed yet: the model, correspondence harness and monitor for this property are not built '
                  '(the technique applies, see DESIGN.md §5); no check is registered so nothing is asserted about it')


def main():
    props = [json.loads(l)['id'] for l in open(os.path.join(VERIF, 'properties.jsonl'))]
    checks, na = [], []
    engines = {}
    for pid in props:
        path = os.path.join(HERE, 'props', pid.lower() + '.py')
        if not os.path.exists(path):
            na.append({'property_id': pid, 'reason': NOT_CLAIMED.get(pid, DEFAULT_REASON)})
            continue
        meta = importlib.import_module('props.' + pid.lower()).META
        if meta.get('unclaimed'):
            na.append({'property_id': pid, 'reason': meta['unclaimed']})
            continue
        checks.append({
            'property_id': pid,
            'quick_cmd': './check quick %s' % pid,
            'thorough_cmd': './check thorough %s' % pid,
            'evidence_file': 'evidence/%s.json' % pid,
            'replay_cmd_template': './check replay %s {path}' % pid,
            'engine': 'lean4-model+correspondence',
            'level_claimed': {'category': meta.get('level', 'proof'), 'text': meta['level_text'],
                              'design_ref': meta.get('design_ref', '')},
            'level_note': meta['level_note'],
            'technique': meta['technique'],
        })
        for m in meta.get('models', []):
            engines.setdefault(m, []).append(pid)
    manifest = {
        'version': 1,
        'setup_cmd': 'cd lean && lake build',
        'hooks': {'guard': 'DOIT_VERIF', 'enable': 'no source hooks: the harness drives doit through seams it already '
                  'exposes (ModuleTaskLoader, reporter classes, MRunner.Queue/Child class attributes, backend classes)',
                  'baseline_off_cmd': 'cd /repo && /venv/bin/python -m pytest -ra -q -p no:cacheprovider --timeout=900 '
                                      '--continue-on-collection-errors',
                  'source_commits': [], 'add_only': True},
        'engines': [{'name': 'lean4-model+correspondence', 'path': 'lean/ + harness/',
                     'serves_properties': [c['property_id'] for c in checks],
                     'kind_free_text': 'hand-written executable Lean 4 models with machine-checked property theorems '
                                       '(lake project lean/, no Mathlib needed), tied to /repo on every run by a '
                                       'differential correspondence harness (harness/, doitdrv line protocol) and a '
                                       'property monitor evaluated on the implementation\'s traces'}],
        'checks': checks,
        'not_applicable': na,
        'notes': 'Single entry point ./check <quick|thorough|replay> <Cxx>.  Defects of the pinned tree repaired by '
                 'fix: commits in /repo are recorded in findings/known-findings.txt (fixed: lines); open findings are '
                 'listed there too.  See DESIGN.md.',
    }
    with open(os.path.join(VERIF, 'MANIFEST.json'), 'w') as f:
        json.dump(manifest, f, indent=1)
    print('checks: %s; not claimed: %s' % ([c['property_id'] for c in checks], [n['property_id'] for n in na]))


if __name__ == '__main__':
    main()
