"""Helpers of the action family (model M5; property C17): build real doit actions/tasks from JSON case
descriptions, run them, and return *observables* only (what `execute` returned, the public attributes
`out/err/result/values`, what reached the stream objects installed as sys.stdout/sys.stderr, and whether
sys.stdout/sys.stderr are those objects again afterwards).

Case kinds (all JSON, replayable):
  py      one python-action in a task          (return category/representative, writes, verbosity, io.capture,
                                                 kwargs preparation raising, callable swapping sys.stdout itself)
  cmd     one cmd-action in a task             (exit status / signal, byte chunks on stdout/stderr, verbosity,
                                                 io.capture True/False/None, save_out, expansion errors)
  task    a task with several actions          (py and cmd mixed)
  nested  a forest of python-action executions (an action's callable executes other tasks), one thread
  overlap python-actions in several threads of this process, interleaving forced with queues
"""
import collections
import io
import os
import queue
import re
import signal
import sys
import threading

import common

KEYS = ['k0', 'k1', 'k2', 'k3', 'k4', 'k5']


class Rec(io.TextIOWrapper):
    """the object installed as sys.stdout / sys.stderr while the implementation runs: an ordinary text stream
    (same class as the real sys.stdout, so `.buffer`, `.encoding`, `writelines`, `reconfigure` exist) over a
    BytesIO (no file descriptor: `fileno()` raises UnsupportedOperation)"""
    def __init__(self):
        super().__init__(io.BytesIO(), encoding='utf-8', errors='surrogatepass', newline='', write_through=True)

    def getvalue(self):
        self.flush()
        return self.buffer.getvalue().decode('utf-8', 'surrogatepass')

    def isatty(self):
        return False


OP_KINDS = ['write', 'print', 'flush', 'isatty', 'fileno', 'writelines', 'buffer', 'encoding', 'errors', 'reconfigure']


def op_kind(w):
    return w[2] if len(w) > 2 else 'write'


def do_op(stream, text, kind):
    """one stream operation of a generated callable"""
    if kind == 'write':
        stream.write(text)
    elif kind == 'print':
        print(text, end='', file=stream)
    elif kind == 'flush':
        stream.flush()
    elif kind == 'isatty':
        stream.isatty()
    elif kind == 'fileno':
        stream.fileno()
    elif kind == 'writelines':
        stream.writelines([text])
    elif kind == 'buffer':
        stream.buffer.write(text.encode('utf-8', 'surrogatepass'))
        stream.buffer.flush()
    elif kind == 'encoding':
        stream.encoding
    elif kind == 'errors':
        stream.errors
    elif kind == 'reconfigure':
        stream.reconfigure(line_buffering=True)
    else:
        raise ValueError(kind)


# ----------------------------------------------------------------------------------------------
# return-value representatives

def _mods():
    common.use_repo()
    from doit import action, task, exceptions
    return action, task, exceptions


class StrSub(str):
    pass


class DictSub(dict):
    pass


class IntSub(int):
    pass


class EqTrue(object):
    def __eq__(self, other):
        return True

    def __hash__(self):
        return 1


class FalsyObj(object):
    def __bool__(self):
        return False


class MyExc(Exception):
    pass


class MyBase(BaseException):
    pass


OTHER_REPS = ['0', '1', '2', '-1', '0.0', '1.0', '2.5', '[]', '[1]', '()', '(1,)', "b''", "b'x'", 'set()',
              'object', 'BaseFail', 'CatchedException', 'ExcInstance', 'lambda', 'Ellipsis', 'NotImplemented',
              'EqTrue', 'FalsyObj', 'IntSub0', 'IntSub1', 'frozenset', 'range', 'TaskFailedClass', 'complex']
RAISE_REPS = ['Exception', 'ValueError', 'KeyError', 'OSError', 'MyExc', 'InvalidTask', 'AssertionError',
              'StopIteration', 'RuntimeError', 'UnicodeDecodeError', 'RecursionError', 'TypeError']
BASE_REPS = ['KeyboardInterrupt', 'SystemExit', 'GeneratorExit', 'MyBase']
FAILED_REPS = ['TaskFailed', 'TaskFailedSub', 'TaskFailedExc']
ERROR_REPS = ['TaskError', 'UnmetDependency', 'SetupError', 'DependencyError', 'TaskErrorSub']
KW_REPS = ['default_targets', 'default_task', 'default_changed', 'default_dependencies', 'too_many_args']


def make_value(ret):
    """the python object (or the exception to raise) described by ret = {'cat':…, 'rep':…, …}"""
    action, task, exc = _mods()
    cat, rep = ret['cat'], ret.get('rep')
    if cat == 'true':
        return True
    if cat == 'false':
        return False
    if cat == 'none':
        return None
    if cat == 'str':
        return StrSub(ret['s']) if ret.get('cls') == 'sub' else str(ret['s'])
    if cat == 'dict':
        d = [(KEYS[k], v) for k, v in ret['d']]
        cls = ret.get('cls', 'dict')
        if cls == 'sub':
            return DictSub(d)
        if cls == 'OrderedDict':
            return collections.OrderedDict(d)
        if cls == 'defaultdict':
            dd = collections.defaultdict(list)
            dd.update(d)
            return dd
        return dict(d)
    if cat == 'taskfailed':
        if rep == 'TaskFailedSub':
            return type('TaskFailedSub', (exc.TaskFailed,), {})('sub')
        if rep == 'TaskFailedExc':
            return exc.TaskFailed('with exception', ValueError('x'))
        return exc.TaskFailed('returned instance')
    if cat == 'taskerror':
        if rep == 'TaskErrorSub':
            return type('TaskErrorSub', (exc.TaskError,), {})('sub')
        return getattr(exc, rep or 'TaskError')('returned instance')
    if cat == 'other':
        table = {'0': 0, '1': 1, '2': 2, '-1': -1, '0.0': 0.0, '1.0': 1.0, '2.5': 2.5, '[]': [], '[1]': [1],
                 '()': (), '(1,)': (1,), "b''": b'', "b'x'": b'x', 'set()': set(), 'object': object(),
                 'lambda': (lambda: None), 'Ellipsis': Ellipsis, 'NotImplemented': NotImplemented,
                 'EqTrue': EqTrue(), 'FalsyObj': FalsyObj(), 'IntSub0': IntSub(0), 'IntSub1': IntSub(1),
                 'frozenset': frozenset(), 'range': range(0), 'complex': 1j}
        if rep in table:
            return table[rep]
        if rep == 'BaseFail':
            return exc.BaseFail('plain basefail')
        if rep == 'CatchedException':
            return exc.CatchedException('plain catched')
        if rep == 'ExcInstance':
            return ValueError('returned, not raised')
        if rep == 'TaskFailedClass':
            return exc.TaskFailed      # the class, not an instance
        raise ValueError('unknown representative %r' % rep)
    raise ValueError('not a returned value: %r' % ret)


def make_exception(ret):
    action, task, exc = _mods()
    rep = ret.get('rep')
    if ret['cat'] == 'raises':
        if rep == 'MyExc':
            return MyExc('boom')
        if rep == 'InvalidTask':
            return exc.InvalidTask('raised by the callable')
        if rep == 'UnicodeDecodeError':
            return UnicodeDecodeError('utf-8', b'\xff', 0, 1, 'x')
        if rep == 'StopIteration':
            return StopIteration()
        return getattr(__import__('builtins'), rep or 'Exception')('boom')
    if rep == 'MyBase':
        return MyBase('base')
    if rep == 'SystemExit':
        return SystemExit(3)
    return getattr(__import__('builtins'), rep or 'KeyboardInterrupt')()


def make_callable(spec, log=None, idx=None):
    """python callable for a 'py' action spec: performs the writes, optionally swaps sys.stdout/sys.stderr,
    then returns / raises.  kwargs_raise variants make `_prepare_kwargs` raise instead."""
    ret = spec['ret']
    writes = spec.get('writes', [])
    swap = spec.get('swap', 'none')

    def body():
        if log is not None:
            log.append(idx)
        for w in writes:
            do_op(sys.stdout if w[0] == 'o' else sys.stderr, w[1], op_kind(w))
        if swap in ('stdout', 'both'):
            sys.stdout = io.StringIO()
        if swap in ('stderr', 'both'):
            sys.stderr = io.StringIO()
        if ret['cat'] in ('raises', 'raisesbase'):
            raise make_exception(ret)
        return make_value(ret)

    kw = spec.get('kwargs_raise') or None
    if kw == 'default_targets':
        def f(targets=None):
            return body()
    elif kw == 'default_task':
        def f(task=1):
            return body()
    elif kw == 'default_changed':
        def f(changed=()):
            return body()
    elif kw == 'default_dependencies':
        def f(dependencies='x'):
            return body()
    elif kw == 'too_many_args':
        def g():
            return body()
        return (g, [1, 2, 3])
    elif kw == 'tuple_form' or spec.get('tuple_form'):
        def h(a, b=None, c=3):
            return body() if (a, b, c) == (1, 'two', 3) else 'wrong arguments %r' % ((a, b, c),)
        return (h, [1], {'b': 'two'})
    else:
        def f():
            return body()
    return f


# ----------------------------------------------------------------------------------------------
# canonical forms of observables

def canon_val(v):
    if v is None or isinstance(v, bool):
        return None if v is None else int(v)
    if isinstance(v, int):
        return int(v)
    if isinstance(v, str):
        return str(v)
    return ['?', type(v).__name__]


def canon_vals(d):
    if not isinstance(d, dict):
        return ['?', type(d).__name__]
    out = []
    for k, v in d.items():
        out.append([KEYS.index(k) if k in KEYS else ['?', str(k)], canon_val(v)])
    return sorted(out, key=lambda p: str(p[0]))


def canon_res(r):
    if r is None:
        return None
    if isinstance(r, str):
        return str(r)
    if isinstance(r, dict):
        return {'dict': canon_vals(r)}
    return ['?', type(r).__name__]


def outcome_of(ret, raised):
    action, task, exc = _mods()
    if raised is not None:
        return 'raised', type(raised).__name__
    if ret is None:
        return 'ok', None
    if isinstance(ret, exc.TaskFailed):
        return 'failed', type(ret).__name__
    if isinstance(ret, exc.TaskError):
        return 'error', type(ret).__name__
    return 'odd', type(ret).__name__


class Swapped(object):
    """install recorder objects as sys.stdout/sys.stderr around an implementation call"""

    def __init__(self, o=None, e=None):
        self.O = o if o is not None else Rec()
        self.E = e if e is not None else Rec()

    def __enter__(self):
        self.real = (sys.stdout, sys.stderr)
        sys.stdout, sys.stderr = self.O, self.E
        return self

    def identity(self):
        return [sys.stdout is self.O, sys.stderr is self.E]

    def __exit__(self, *a):
        sys.stdout, sys.stderr = self.real
        return False


HANG_TIMEOUT = 30


def kill_descendants():
    """SIGKILL every descendant process of this worker except the Lean driver"""
    children = {}
    for name in os.listdir('/proc'):
        if not name.isdigit():
            continue
        try:
            with open('/proc/%s/stat' % name) as f:
                st = f.read()
            comm = st[st.index('(') + 1:st.rindex(')')]
            ppid = int(st[st.rindex(')') + 2:].split()[1])
        except (OSError, ValueError):
            continue
        children.setdefault(ppid, []).append((int(name), comm))
    todo, victims = [os.getpid()], []
    while todo:
        for pid, comm in children.get(todo.pop(), []):
            if comm.startswith('doitdrv'):
                continue
            victims.append(pid)
            todo.append(pid)
    for pid in victims:
        try:
            os.kill(pid, signal.SIGKILL)
        except OSError:
            pass


class Hang(Exception):
    """the implementation did not come back (e.g. it stopped reading a pipe the child still writes to)"""


def guarded(fn, timeout=None):
    """run fn() in a helper thread; when it does not finish in time, kill this process's children (the spawned
    command) so that blocked readers see EOF, and report the hang instead of hanging the check"""
    box = {}

    def body():
        try:
            box['v'] = fn()
        except BaseException as ex:  # noqa
            box['e'] = ex
    real = (sys.stdout, sys.stderr)
    th = threading.Thread(target=body, daemon=True)
    th.start()
    th.join(timeout or HANG_TIMEOUT)
    if th.is_alive():
        kill_descendants()
        th.join(5)
        sys.stdout, sys.stderr = real
        raise Hang('implementation did not return within %ss' % (timeout or HANG_TIMEOUT))
    if 'e' in box:
        raise box['e']
    return box['v']


def call(fn):
    """(returned, raised)"""
    try:
        return fn(), None
    except BaseException as ex:  # noqa -- KeyboardInterrupt/SystemExit raised by a generated action are data
        return None, ex


# ----------------------------------------------------------------------------------------------
# kind 'py'

def io_arg(capture):
    return {'capture': capture}


def run_py(case):
    obs = _run_py(case)
    if any(op_kind(w) != 'write' for w in case.get('writes', [])) and not case.get('kwargs_raise'):
        # the same action at every verbosity: outcome and capture must not depend on it
        obs['by_v'] = {}
        for v in (0, 1, 2):
            c = dict(case, v=v)
            c.pop('stream_v', None)
            c.pop('repeat', None)
            o = _run_py(c)
            obs['by_v'][str(v)] = {'outcome': o['outcome'], 'out': o['out'], 'err': o['err'], 'O': o['O'], 'E': o['E']}
    return obs


def _run_py(case):
    action, task, exc = _mods()
    fn = make_callable(case)
    if case.get('cls') == 'interactive':
        # doit.tools.PythonInteractiveAction: no capture, no stream swap, only exceptions make it unsuccessful
        from doit import tools
        a0 = tools.PythonInteractiveAction(fn[0], fn[1]) if isinstance(fn, tuple) else tools.PythonInteractiveAction(fn)
        t = task.Task('t', [a0], verbosity=case.get('v'), io=io_arg(case.get('capture', True)))
        act = t.actions[0]
    elif case.get('notask'):
        act = action.PythonAction(fn[0], fn[1]) if isinstance(fn, tuple) else action.PythonAction(fn)
        t = None
    else:
        t = task.Task('t', [fn], verbosity=case.get('v'), io=io_arg(case.get('capture', True)))
        act = t.actions[0]
    # `repeat`: the same action object is executed again; every execution starts from fresh recorders and
    # must show only its own text
    for _ in range(max(1, case.get('repeat', 1))):
        lo, le = Rec(), Rec()
        if case.get('direct'):
            # PythonAction.execute called directly with live stream objects that are *not* sys.stdout/sys.stderr
            if t is not None:
                t.init_options()
            with Swapped() as sw:
                v = case.get('v')
                live = (None, None) if v == 0 else (None, le) if v == 1 else (lo, le)
                ret, raised = call(lambda: act.execute(*live))
                ident = sw.identity()
        else:
            with Swapped() as sw:
                ret, raised = call(lambda: t.execute(task.Stream(case.get('stream_v', case.get('v')))))
                ident = sw.identity()
    oc, tname = outcome_of(ret, raised)
    return {'outcome': oc, 'type': tname, 'out': act.out, 'err': act.err, 'result': canon_res(act.result),
            'values': canon_vals(act.values), 'O': lo.getvalue() + sw.O.getvalue(),
            'E': le.getvalue() + sw.E.getvalue(), 'restored': ident}


# ----------------------------------------------------------------------------------------------
# kind 'cmd'

# what the task of a cmd case looks like when the command uses task data (`world`)
# (the parameter value has braces: in mode `both` a value inserted by `%` must not be seen by `.format` again)
WORLD = {'targets': ['tg a', 'tgb'], 'dependencies': ['d1'], 'changed': ['d1'], 'opt1': 'd{0}f{}lt'}
ENV_VALUE = {'C17VAR': 'from env', 'C17EMPTY': ''}


def chunk_bytes(spec):
    if 'hex' in spec:
        return bytes.fromhex(spec['hex'])
    if 'rep' in spec:
        return bytes.fromhex(spec['rep']) * spec['n']
    if 'text' in spec:
        return spec['text'].encode('utf-8')
    if 'enc_text' in spec:          # text in the action's own encoding
        enc = spec.get('enc', 'utf-8')
        return spec['enc_text'].encode('utf-16-le' if enc == 'utf-16' else enc, 'replace')
    if 'env' in spec:               # printed from the environment handed to CmdAction(env=…)
        return ENV_VALUE[spec['env']].encode('utf-8')
    if 'subst' in spec or 'magic' in spec:   # task data through the string format / the callable's kwargs
        v = WORLD[spec.get('subst') or spec['magic']]
        return (v if isinstance(v, str) else ' '.join(v)).encode('utf-8')
    if 'lit' in spec:               # literal text with % and braces that must survive the string format
        return spec['lit'].encode('utf-8')
    raise ValueError(spec)


def fmt_escape(text, fmt):
    if fmt in ('old', 'both'):
        text = text.replace('%', '%%')
    if fmt in ('new', 'both'):
        text = text.replace('{', '{{').replace('}', '}}')
    return text


def expands(case):
    """is the command a string that goes through the `%` / `.format` expansion?"""
    return case.get('form', 'str') in ('str', 'rawstr', 'callable', 'callable_magic')


def cmd_script(case, workdir, received=None):
    """shell text for the chunks + exit; the chunk files are written into workdir (or referenced relative to
    the `cwd` of the action).  `received`: kwargs a `callable_magic` command builder got from doit."""
    fmt = case.get('fmt', 'old') if expands(case) else None
    esc = (lambda t: fmt_escape(t, fmt)) if fmt else (lambda t: t)
    filedir = os.path.join(workdir, 'cwd dir') if case.get('cwd') else workdir
    os.makedirs(filedir, exist_ok=True)
    parts = []
    for i, (chan, spec) in enumerate(case.get('chunks', [])):
        redir = ' >&2' if chan == 'e' else ''
        if 'env' in spec:
            parts.append(esc('printf %%s "$%s"%s' % (spec['env'], redir)))
            continue
        if 'subst' in spec and fmt:
            name = spec['subst']
            ph = '{%s}' % name if (fmt == 'new' or (fmt == 'both' and i % 2)) else '%%(%s)s' % name
            parts.append(esc("printf %s '") + ph + esc("'" + redir))
            continue
        if 'lit' in spec:
            parts.append(esc("printf %%s '%s'%s" % (spec['lit'], redir)))
            continue
        path = os.path.join(filedir, 'c%d' % i)
        data = chunk_bytes(spec)
        if 'magic' in spec and received is not None:
            v = received.get(spec['magic'])
            data = (v if isinstance(v, str) else ' '.join(v)).encode('utf-8') if v is not None else b'<missing>'
        with open(path, 'wb') as f:
            f.write(data)
        parts.append(esc('cat %s%s' % ("'c%d'" % i if case.get('cwd') else path, redir)))
    ex = case.get('exit', ['status', 0])
    if ex[0] == 'status':
        parts.append('exit %d' % ex[1])
    elif ex[0] == 'signal':
        parts.append('kill -%d $$' % ex[1])
    elif ex[0] == 'childsignal':
        parts.append("exec 2>/dev/null; sh -c 'kill -%d $$'; exit $?" % ex[1])
    return '; '.join(parts)


def expected_rc(case):
    ex = case.get('exit', ['status', 0])
    if ex[0] == 'status':
        return ex[1]
    if ex[0] == 'signal':
        return -ex[1]
    return 128 + ex[1]


def stream_bytes(case):
    out = b''.join(chunk_bytes(s) for c, s in case.get('chunks', []) if c == 'o')
    err = b''.join(chunk_bytes(s) for c, s in case.get('chunks', []) if c == 'e')
    return out, err


def py_codec(case):
    return case.get('encoding', 'utf-8'), case.get('decode_error', 'replace')


def simulate_decode(case, data):
    """(text, raised): what an incremental decoder fed with the reader's reads (lines, or `buffering`-byte
    blocks) produces; `raised`: the codec raises (decode_error='strict' on undecodable bytes, 'utf-16' without BOM)
    -- the reader thread then terminates the process and dies, the text decoded so far stays captured"""
    import codecs
    enc, err = py_codec(case)
    n = case.get('buffering') or 0
    if n:
        reads = [data[i:i + n] for i in range(0, len(data), n)]
    else:
        reads = [ln + b'\n' for ln in data.split(b'\n')]          # readline(): lines end at 0x0a only
        reads[-1] = reads[-1][:-1]
    dec = codecs.getincrementaldecoder(enc)(err)
    text = ''
    try:
        for r in reads:
            text += dec.decode(r)
        text += dec.decode(b'', final=True)
    except UnicodeError:
        return text, True
    return text, False


def strict_error(case):
    """[decoder raises on stdout?, on stderr?]"""
    return [simulate_decode(case, d)[1] for d in stream_bytes(case)]


def expected_streams(case):
    out, er = stream_bytes(case)
    return simulate_decode(case, out)[0], simulate_decode(case, er)[0]


def make_cmd_action(case, workdir):
    action, task, exc = _mods()
    script = cmd_script(case, workdir)
    kw = {'save_out': KEYS[case['save_out']] if case.get('save_out') is not None else None}
    if case.get('buffering'):
        kw['buffering'] = case['buffering']
    if case.get('encoding'):
        kw['encoding'] = case['encoding']
    if case.get('decode_error'):
        kw['decode_error'] = case['decode_error']
    if case.get('env'):
        kw['env'] = dict(ENV_VALUE, PATH=os.environ.get('PATH', '/usr/bin:/bin'))
    if case.get('cwd'):
        kw['cwd'] = os.path.join(workdir, 'cwd dir')
    cls = action.CmdAction
    if case.get('cls', 'CmdAction') != 'CmdAction':
        from doit import tools
        cls = getattr(tools, case['cls'])
    expand = case.get('expand', 'ok')
    form = case.get('form', 'str')
    if expand == 'badkey':
        return cls(script + ' # %(nokey)s', **kw)
    if expand == 'badelem':
        return cls(['sh', '-c', script, 7], shell=False, **kw)
    if expand == 'callable_raises':
        def mk():
            raise ValueError('cannot build the command')
        return cls(mk, **kw)
    if form in ('rawstr', 'rawlist') and kw == {'save_out': None} and cls is action.CmdAction:
        # left to `create_action`: a str becomes CmdAction(shell=True), a list CmdAction(shell=False)
        return script if form == 'rawstr' else ['sh', '-c', script]
    if form in ('list', 'rawlist'):
        return cls(['sh', '-c', script], shell=False, **kw)
    if form == 'callable':
        return cls(lambda: script, **kw)
    if form == 'callable_list':
        return cls(lambda: ['sh', '-c', script], shell=False, **kw)
    if form == 'callable_magic':
        # the command builder takes doit's magic kwargs and a task parameter; what it received ends up in the output
        def build(targets, dependencies, changed, opt1, task):
            return cmd_script(case, workdir, {'targets': targets, 'dependencies': dependencies,
                                              'changed': changed, 'opt1': opt1})
        return cls(build, **kw)
    return cls(script, **kw)


def cmd_task(case, act, cap):
    action, task, exc = _mods()
    kw = {}
    if case.get('world'):
        kw = {'targets': list(WORLD['targets']), 'file_dep': list(WORLD['dependencies']),
              'params': [{'name': 'opt1', 'default': WORLD['opt1'], 'long': 'opt1'}]}
    t = task.Task('t', [act], verbosity=case.get('v'), io=io_arg(cap), **kw)
    if case.get('world'):
        t.dep_changed = list(WORLD['changed'])
    return t


def chunkwise_decode(data, n):
    """what decoding every n-byte read on its own gives (the known defect F-C17c)"""
    return ''.join(data[i:i + n].decode('utf-8', 'replace') for i in range(0, len(data), n))


def run_cmd(case):
    return guarded(lambda: _run_cmd(case))


def _run_cmd(case):
    action, task, exc = _mods()
    work = common.scratch_dir('c17cmd')
    try:
        act = make_cmd_action(case, work)
        cap = case.get('capture', True)
        t = cmd_task(case, act, cap)
        act = t.actions[0]
        fdo, fde = os.path.join(work, 'fd1'), os.path.join(work, 'fd2')
        # doit.tools classes never capture: they hand the live streams to Popen
        cap = cap and case.get('cls', 'CmdAction') == 'CmdAction'
        old_fmt = action.CmdAction.STRING_FORMAT
        action.CmdAction.STRING_FORMAT = case.get('fmt', 'old')
        import subprocess
        old_wait = subprocess.Popen.wait
        if case.get('interrupt'):
            fired = []

            def wait(self, timeout=None):
                r = old_wait(self, timeout)
                if not fired:
                    fired.append(1)
                    raise KeyboardInterrupt()      # Ctrl-C while waiting for the process
                return r
            subprocess.Popen.wait = wait
        if cap:
            o, e = Rec(), Rec()
        else:
            # the live streams are handed to Popen: they must be real files
            o = open(os.path.join(work, 'O'), 'w', encoding='utf-8', newline='')
            e = open(os.path.join(work, 'E'), 'w', encoding='utf-8', newline='')
        saved = (os.dup(1), os.dup(2))
        f1 = os.open(fdo, os.O_WRONLY | os.O_CREAT | os.O_TRUNC)
        f2 = os.open(fde, os.O_WRONLY | os.O_CREAT | os.O_TRUNC)
        try:
            os.dup2(f1, 1)
            os.dup2(f2, 2)
            if case.get('repeat', 1) > 1:
                with Swapped():
                    call(lambda: t.execute(task.Stream(case.get('stream_v', case.get('v')))))
                os.ftruncate(f1, 0)
                os.lseek(f1, 0, os.SEEK_SET)
                os.ftruncate(f2, 0)
                os.lseek(f2, 0, os.SEEK_SET)
            with Swapped(o, e) as sw:
                ret, raised = call(lambda: t.execute(task.Stream(case.get('stream_v', case.get('v')))))
                ident = sw.identity()
        finally:
            action.CmdAction.STRING_FORMAT = old_fmt
            subprocess.Popen.wait = old_wait
            os.dup2(saved[0], 1)
            os.dup2(saved[1], 2)
            for fd in saved + (f1, f2):
                os.close(fd)
        if cap:
            otext, etext = o.getvalue(), e.getvalue()
        else:
            o.close()
            e.close()
            with open(os.path.join(work, 'O'), 'rb') as f:
                otext = f.read().decode('utf-8', 'replace')
            with open(os.path.join(work, 'E'), 'rb') as f:
                etext = f.read().decode('utf-8', 'replace')
        with open(fdo, 'rb') as f:
            fd1 = f.read().decode('utf-8', 'replace')
        with open(fde, 'rb') as f:
            fd2 = f.read().decode('utf-8', 'replace')
        oc, tname = outcome_of(ret, raised)
        return {'outcome': oc, 'type': tname, 'out': act.out, 'err': act.err, 'result': canon_res(act.result),
                'values': canon_vals(act.values), 'O': otext, 'E': etext, 'fd1': fd1, 'fd2': fd2,
                'restored': ident}
    finally:
        import shutil
        shutil.rmtree(work, ignore_errors=True)


# ----------------------------------------------------------------------------------------------
# kind 'task'

def run_task(case):
    return guarded(lambda: _run_task(case))


def _run_task(case):
    action, task, exc = _mods()
    work = common.scratch_dir('c17task')
    try:
        log = []
        specs = []
        for i, a in enumerate(case['actions']):
            if a['t'] == 'py':
                specs.append(make_callable(a))
            else:
                # chunk files of different actions must not collide
                os.makedirs(os.path.join(work, 'a%d' % i), exist_ok=True)
                specs.append(make_cmd_action(a, os.path.join(work, 'a%d' % i)))
        if case.get('teardown'):
            t = task.Task('t', [], teardown=specs, verbosity=case.get('v', 0), io=io_arg(case.get('capture', True)))
            acts = list(t.teardown)
            t.init_options()          # done by Task.execute, which always precedes the teardown in a run
            run_it = t.execute_teardown
        else:
            t = task.Task('t', specs, verbosity=case.get('v', 0), io=io_arg(case.get('capture', True)))
            acts = list(t.actions)
            run_it = t.execute
        for i, act in enumerate(acts):
            def wrap(orig, i):
                def execute(*a, **k):
                    log.append(i)
                    return orig(*a, **k)
                return execute
            act.execute = wrap(act.execute, i)
        with Swapped() as sw:
            ret, raised = call(lambda: run_it(task.Stream(case.get('stream_v', case.get('v', 0)))))
            ident = sw.identity()
        oc, tname = outcome_of(ret, raised)
        return {'outcome': oc, 'type': tname, 'result': canon_res(t.result), 'values': canon_vals(t.values),
                'ran': log, 'restored': ident,
                'ares': [{'result': canon_res(a.result), 'values': canon_vals(a.values)} for a in acts]}
    finally:
        import shutil
        shutil.rmtree(work, ignore_errors=True)


# ----------------------------------------------------------------------------------------------
# kinds 'nested' and 'overlap': tokens

TOK_O = re.compile(r'\[(\d+)\.(\d+)\]')
TOK_E = re.compile(r'\{(\d+)\.(\d+)\}')


def toks(text, chan):
    if text is None:
        return None
    return [[int(a), int(n)] for a, n in (TOK_O if chan == 'o' else TOK_E).findall(text)]


def write_tok(a, n):
    sys.stdout.write('[%d.%d]' % (a, n))
    sys.stderr.write('{%d.%d}' % (a, n))


ENDINGS = ['true', 'false', 'raise', 'base', 'str']


def forest_actions(items, parent=None, acc=None):
    """{action id: {'parent': id|None, 'kw': bool}} in the order of first occurrence"""
    acc = collections.OrderedDict() if acc is None else acc
    for it in items:
        if it[0] == 'x':
            acc[it[1]] = {'parent': parent, 'kw': False}
            forest_actions(it[2], it[1], acc)
        elif it[0] == 'k':
            acc[it[1]] = {'parent': parent, 'kw': True}
    return acc


def run_nested(case):
    """execute the forest in this thread; every action is its own single-action task"""
    action, task, exc = _mods()
    verb = {int(k): v for k, v in case.get('verb', {}).items()}
    ending = {int(k): v for k, v in case.get('ending', {}).items()}
    capm = {int(k): v for k, v in case.get('cap', {}).items()}     # opt-in (kind 'ncnest'): io.capture per action
    escaped = {}                                                   # what left Task.execute, per action
    tasks = {}
    ident_after = []

    def execute_items(items, owner):
        for it in items:
            if it[0] == 'w':
                if owner is not None:
                    write_tok(owner, it[1])
            elif it[0] == 'x':
                execute_action(it[1], it[2], owner)
            elif it[0] == 'k':
                execute_action(it[1], None, owner)

    def execute_action(a, body, owner):
        if body is None:
            def fn(targets=None):
                return True
        else:
            def fn():
                execute_items(body, a)
                e = ending.get(a, 'true')
                if e == 'false':
                    return False
                if e == 'raise':
                    raise ValueError('action %d raises' % a)
                if e == 'base':
                    raise KeyboardInterrupt()
                if e == 'str':
                    return 'res%d' % a
                return True
        v = verb.get(a, 0)
        if a in capm:
            t = task.Task('t%d' % a, [fn], verbosity=v, io={'capture': capm[a]})
        else:
            t = task.Task('t%d' % a, [fn], verbosity=v)
        tasks[a] = t
        _, esc = call(lambda: t.execute(task.Stream(v)))
        escaped[str(a)] = type(esc).__name__ if esc is not None else None
        if owner is None:
            ident_after.append([a] + sw.identity())

    with Swapped() as sw:
        _, raised = call(lambda: execute_items(case['forest'], None))
        ident = sw.identity()
    obs = {'restored': ident, 'after_each_top': ident_after, 'O': toks(sw.O.getvalue(), 'o'),
           'E': toks(sw.E.getvalue(), 'e'), 'out': {}, 'err': {},
           'harness_exc': type(raised).__name__ if raised is not None else None, 'escaped': escaped}
    for a, t in tasks.items():
        act = t.actions[0]
        obs['out'][str(a)] = toks(act.out, 'o')
        obs['err'][str(a)] = toks(act.err, 'e')
    return obs


def predicted_forwarding(case):
    """which tokens every buffer / the original stream holds when Writers copy to their live stream:
    a token of x reaches the buffer of ancestor y iff every action from x up to the child of y is live on
    that channel; it reaches the original stream iff the whole chain up to the top is."""
    verb = {int(k): v for k, v in case.get('verb', {}).items()}
    acts = forest_actions(case['forest'])
    res = {'o': {str(a): [] for a in acts if not acts[a]['kw']}, 'e': {str(a): [] for a in acts if not acts[a]['kw']}}
    orig = {'o': [], 'e': []}

    def live(a, chan):
        v = verb.get(a, 0)
        return (v not in (0, 1)) if chan == 'o' else (v != 0)

    def walk(items, owner):
        for it in items:
            if it[0] == 'w' and owner is not None:
                for chan in 'oe':
                    x = owner
                    while True:
                        res[chan][str(x)].append([owner, it[1]])
                        if not live(x, chan):
                            break
                        p = acts[x]['parent']
                        if p is None:
                            orig[chan].append([owner, it[1]])
                            break
                        x = p
            elif it[0] == 'x':
                walk(it[2], it[1])
    walk(case['forest'], None)
    return res, orig


def run_overlap(case):
    """threads of this process execute single-action tasks; the order of start / write / end steps is forced"""
    action, task, exc = _mods()
    threads_spec = case['threads']
    all_acts = [a for th in threads_spec for a in th]
    ctl = {a: queue.Queue() for a in all_acts}
    go = {a: threading.Event() for a in all_acts}
    ack = queue.Queue()
    tasks = {}
    T = 30

    def mk(a):
        def fn():
            ack.put(('started', a))
            while True:
                msg = ctl[a].get(timeout=T)
                if msg[0] == 'w':
                    write_tok(a, msg[1])
                    ack.put(('wrote', a))
                else:
                    return True
        return fn

    ov = case.get('v', 0)              # opt-in knobs of kind 'ncoverlap': verbosity and io.capture of every task
    for a in all_acts:
        if 'cap' in case:
            tasks[a] = task.Task('t%d' % a, [mk(a)], verbosity=ov, io={'capture': case['cap']})
        else:
            tasks[a] = task.Task('t%d' % a, [mk(a)], verbosity=0)

    def thread_body(acts):
        for a in acts:
            if not go[a].wait(T):
                return
            call(lambda: tasks[a].execute(task.Stream(ov)))
            ack.put(('ended', a))

    problem = None
    with Swapped() as sw:
        ths = [threading.Thread(target=thread_body, args=(th,), daemon=True) for th in threads_spec]
        for th in ths:
            th.start()
        try:
            for st in case['schedule']:
                if st[0] == 'start':
                    go[st[1]].set()
                    want = ('started', st[1])
                elif st[0] == 'w':
                    ctl[st[1]].put(('w', st[2]))
                    want = ('wrote', st[1])
                else:
                    ctl[st[1]].put(('end',))
                    want = ('ended', st[1])
                got = ack.get(timeout=T)
                if got != want:
                    problem = 'expected %r got %r' % (want, got)
                    break
        except queue.Empty:
            problem = 'timeout'
        for a in all_acts:   # let any blocked thread finish
            go[a].set()
            ctl[a].put(('end',))
        for th in ths:
            th.join(T)
        ident = sw.identity()
    obs = {'restored': ident, 'O': toks(sw.O.getvalue(), 'o'), 'E': toks(sw.E.getvalue(), 'e'),
           'out': {}, 'err': {}, 'problem': problem}
    for a, t in tasks.items():
        act = t.actions[0]
        obs['out'][str(a)] = toks(act.out, 'o')
        obs['err'][str(a)] = toks(act.err, 'e')
    return obs


def overlap_evs(case):
    evs = []
    for st in case['schedule']:
        if st[0] == 'start':
            evs += [['save', st[1]], ['set', st[1]]]
        elif st[0] == 'w':
            evs.append(['write', st[1], st[2]])
        else:
            evs += [['restore', st[1]], ['read', st[1]]]
    return evs


def overlap_mode_evs(case, chan):
    """the steps of the schedule when every execution has io.capture off"""
    v = case.get('v', 0)
    on = (v not in (0, 1)) if chan == 'o' else (v != 0)
    evs = []
    for st in case['schedule']:
        if st[0] == 'start':
            evs += [['getlive', st[1], on], ['swapNC', st[1]]]
        elif st[0] == 'w':
            evs.append(['write', st[1], st[2]])
        else:
            evs.append(['restoreNC', st[1]])
    return evs


def overlapping_pairs(case):
    """pairs of actions of *different threads* whose executions overlap in time in the schedule"""
    thread_of = {}
    for i, th in enumerate(case['threads']):
        for a in th:
            thread_of[a] = i
    span = {}
    for pos, st in enumerate(case['schedule']):
        if st[0] == 'start':
            span[st[1]] = [pos, None]
        elif st[0] == 'end' and st[1] in span:
            span[st[1]][1] = pos
    pairs = []
    acts = sorted(span)
    for i, a in enumerate(acts):
        for b in acts[i + 1:]:
            if thread_of.get(a) == thread_of.get(b):
                continue
            (s1, e1), (s2, e2) = span[a], span[b]
            if e1 is None or e2 is None:
                continue
            if s1 < e2 and s2 < e1:
                pairs.append([a, b])
    return pairs
