"""runlib -- shared machinery of the *run family* of properties (model M1: control.py / runner.py).

Used by C01, C02 (and later C05, C08, C09, C11, C15, C19).  Nothing here knows a particular property except
the two reference monitors at the end.

Contents
  1. case format + generator          gen_case(rng, **knobs) -> case,  expand(case) -> model-level input
  2. driving the real doit            run_impl(case) -> obs   (in-process DoitMain + recording reporter + instrumented actions)
  3. deterministic thread scheduler   Sched / GatedQueue / GatedThread + schedule policies (DESIGN 6.4)
  4. process-mode token controller    completion order of a real multiprocessing run forced by token files
  5. helpers                          canonical trace, shrink(case, still_fails), render(case), count_case(st, case, obs)
  6. python reference monitors        py_monitor_c01(case, trace), py_monitor_c02(case, trace, exit, err)
  7. Lean side                        model_request(case, obs), ask_model(pairs)

CASE (plain JSON-able dict)
  {'tasks': [TASK...],               # DEFINITION order; the index in this list is the task id used everywhere
   'sel':   None | [str...],         # None = no task argument (doit runs everything); else names and/or target files
   'cont': bool, 'always': bool,     # --continue / --always-execute
   'runner': 'serial'|'thread'|'process', 'nproc': k (0 for serial),
   'policy': {'kind': 'seeded'|'fifo'|'lifo'|'starve'|'main_last'|'main_first'|'script'|'first', 'seed': int, 'i': int},
   'schedule': [...] (optional: recorded decisions of a previous run -> exact replay; thread: thread ids
                      ('M' | worker index), process: task ids in token release order),
   'share': {'attrs': [...], 'empty': bool} (optional, gen_case(p_share_lists=...)): in the dodo namespace all tasks whose
             value of a listed attribute (setup / task_dep / calc_dep / file_dep / targets) is equal get ONE list object
             ('empty': also the empty value is passed explicitly and shared) -- doit must copy, not alias,
   'meta_names': True (optional, gen_case(p_meta_names=...)): task names contain [ ] ? { } % (literal names, never patterns),
   'history': {'prerun_sel': [names]} (optional, round 6, gen_case(p_history=...) / apply_history): the measured run is
             NOT the first one on its DB -- run_impl first executes `doit run <prerun_sel>` (serial, same dodo, silent
             recorder; _history_prerun).  Tasks with 'status': 'utd' + 'utd_how': 'run_once' get uptodate=[run_once]: the
             pre-run must execute them successfully (else HistoryMismatch), in the measured run they are up-to-date with
             SAVED VALUES -- expand() lets them deliver their calc_res / getargs values (model: calcRes of a `good` task),
   'model': {...}}                   # model-level input computed by expand() (own expansion, never read back from doit)
  TASK = {'name': str, 'kind': 'task'|'group'|'sub', 'group': basename (sub only),
          'task_dep': [names], 'setup': [names], 'calc_dep': [names], 'result_dep': [names],
          'file_dep': [file names], 'targets': [file names],
          'getargs': [[argname, taskname, key], ...],
          'status': 'run'|'utd'|'error', 'ignored': bool, 'outcome': 'ok'|'failed'|'error',
          'how': 'return'|'raise'|'object' (how the action fails), 'teardown': bool,
          'calc_res': None | {'task_dep': [names], 'file_dep': [files], 'calc_dep': [names]},
          'calc_first': True (optional, gen_case(p_calc_then_fail=...)): the task has TWO python-actions -- the first
                        returns the calc_res values, the second produces the oracle's outcome.  With outcome failed /
                        error the task fails AFTER task.values was filled: doit still delivers the values to the tasks that
                        have it as calc_dep (model: calcResFail / Run.deliverF); the receivers are reported unmet}
  optional TASK fields (wave 4; absent = as before):
          'task_dep_wild': [fnmatch patterns containing `*`]   written into the task's `task_dep` list next to the literal names;
                        Task.__init__ moves them to `wild_dep`, TaskControl.__init__ appends the matching task names in
                        DEFINITION order (duplicates kept) after the literal / result_dep entries and before the implicit
                        target->file_dep ones -- expand() does the same, the model sees the expansion
          'n_actions': 2|3, 'fail_at': k     the task has several python-actions; action 0 records the start, the action that
                        produces the oracle's outcome (index fail_at when the outcome is failed / error, else the last one)
                        creates the targets and records the end; an action AFTER the failing one records a second start
                        (it must never run).  One start / end per task: nothing changes for the model
          'n_teardown': 2|3                  that many teardown callables (reporter.teardown_task is still called once)
          'group_late': j (group only)       the dict with the group's own attributes is yielded after j of its sub-tasks
                        instead of before the first (the group keeps its place in the definition order)
          calc_res may carry 'uptodate': [False]|[None] (Task.update_deps -> _extend_uptodate of the RECEIVER: a False makes
                        its get_status answer `run` whatever its own status -- expand() computes that effective status, the
                        dispatcher itself ignores the key), 'junk' / 'setup' (unknown to update_deps: ignored), and
                        'as_str': True (the action returns a str instead of a dict: task.values stays {} -- nothing is
                        delivered, and a getargs from it fails)
  A 'group' entry stands for the group task doit creates implicitly when the first sub-task `g:a` is yielded; it sits
  immediately before its first sub-task in the list (that is where doit puts it); it has no actions.

OBS (what run_impl returns)
  {'trace': [canonical events], 'raw': [all recorded events], 'exit': int|None, 'err': None|'cyclic'|'crash:<T>'|'deadlock',
   'stderr': str (tail), 'schedule': [...], 'sched': {...scheduler statistics...}, 'ms': float}
  canonical events:  ["get_status",n] ["skip_ignore",n] ["skip_uptodate",n] ["execute",n] ["success",n]
                     ["failure",n,kind] kind in unmet|deperr|failed|error   ["teardown",n] ["runtime_error"] ["complete"]
                     ["start",n,w] ["end",n,w]     (w = worker index; 0 for the serial runner)
  process mode: "execute" and "teardown" are dropped (they travel through a queue and race with start events).
"""
import fnmatch
import io
import itertools
import json
import os
import random
import signal
import sys
import threading
import time
import traceback
from collections import deque

import common

TERMINAL = ('success', 'failure', 'skip_uptodate', 'skip_ignore')
MAIN = 'M'


# ======================================================================================================
# 1. case generator and model-level expansion
# ======================================================================================================

def _new_task(name, kind='task', group=None):
    return {'name': name, 'kind': kind, 'group': group, 'task_dep': [], 'setup': [], 'calc_dep': [],
            'result_dep': [], 'file_dep': [], 'targets': [], 'getargs': [], 'status': 'run', 'ignored': False,
            'outcome': 'ok', 'how': 'return', 'teardown': False, 'calc_res': None}


def task_index(case):
    return {t['name']: i for i, t in enumerate(case['tasks'])}


def target_owner(case):
    own = {}
    for i, t in enumerate(case['tasks']):
        for f in t['targets']:
            own.setdefault(f, i)
    return own


def _res_task_ids(case, cr):
    """task ids of the `task_dep` entries of a calc result: literal names, and for an entry with `*` every task whose
    name matches, in definition order -- what a wildcard task_dep means everywhere else in doit (TaskControl expands the
    static ones at start-up; TaskDispatcher._process_calc_dep_results the delivered ones since bf53535, finding
    calc-wild-dep-dropped)."""
    idx = task_index(case)
    out = [idx[x] for x in cr.get('task_dep', []) if '*' not in x]
    for x in cr.get('task_dep', []):           # matches after the literal names, as for a static task_dep list
        if '*' in x:
            out += [j for j, s in enumerate(case['tasks']) if fnmatch.fnmatch(s['name'], x)]
    return out


def _set_order(items):
    """iteration order of the python `set` doit builds by adding `items` one by one (Task._expand_file_dep,
    Task._init_getargs): depends on the string hashes of *this* process, exactly as in doit"""
    s = set()
    for x in items:
        s.add(x)
    return list(s)


def expand(case):
    """Model-level input of a case, by our own reading of Task.__init__ / loader / TaskControl.__init__:

    taskDep[i] = explicit task_dep (group: explicit ones, then its sub-tasks in creation order), then result_dep
                 sources in `uptodate` order (Task._init_uptodate -> result_dep.configure_task), then the implicit
                 target->file_dep producers in the iteration order of the task's file_dep *set*, skipping producers already
                 present (TaskControl.add_implicit_task_dep);
    setup[i]   = explicit setup, then getargs sources not already in setup, in the iteration order of the *set*
                 Task._init_getargs collects them in;
    calcDep[i] = sorted (it is a set in doit; its iteration order is a choice of the model).
    """
    idx = task_index(case)
    own = target_owner(case)
    tasks = case['tasks']
    n = len(tasks)
    task_dep, setup, calc_dep = [], [], []
    for i, t in enumerate(tasks):
        td = [idx[x] for x in t['task_dep']]
        if t['kind'] == 'group':
            td += [j for j, s in enumerate(tasks) if s['kind'] == 'sub' and s['group'] == t['name']]
        td += [idx[x] for x in t['result_dep']]
        for pat in t.get('task_dep_wild') or ():
            td += [j for j, s in enumerate(tasks) if fnmatch.fnmatch(s['name'], pat)]
        su = [idx[x] for x in t['setup']]
        extra = []
        for _arg, src, _key in t['getargs']:
            if src not in t['setup']:
                extra.append(src)
        su += [idx[x] for x in _set_order(extra)]
        for f in _set_order(t['file_dep']):
            if f in own and own[f] not in td:
                td.append(own[f])
        task_dep.append(td)
        setup.append(su)
        calc_dep.append(sorted(set(idx[x] for x in t['calc_dep'])))
    always = bool(case.get('always'))
    status = _effective_status(case, idx, always)
    saved = saved_values_tasks(case)      # case['history']: up-to-date tasks whose values an EARLIER run left in the DB
    calc_res = []
    for i, t in enumerate(tasks):
        cr = t.get('calc_res')
        delivers = (cr is not None and not cr.get('as_str') and t['outcome'] == 'ok' and not t['ignored']
                    and (status[i] == 'run' or (always and status[i] == 'utd')
                         or (status[i] == 'utd' and t['name'] in saved)))
        if not delivers:
            calc_res.append(None)
        else:
            calc_res.append({'task': _res_task_ids(case, cr),
                             'file': [own[f] for f in cr.get('file_dep', []) if f in own],
                             'calc': [idx[x] for x in cr.get('calc_dep', [])]})
    # what a calc task delivers although its execution FAILED (_process_calc_dep_results reads task.values whatever the
    # run_status): everything when only save_success raised, what the first action returned for a 'calc_first' task
    calc_res_fail = []
    for i, t in enumerate(tasks):
        cr = t.get('calc_res')
        late_fail = t['outcome'] == 'saveerr' or (t.get('calc_first') and t['outcome'] in ('failed', 'error'))
        if cr is None or cr.get('as_str') or not late_fail or t['kind'] == 'group':
            calc_res_fail.append(None)
        else:
            calc_res_fail.append({'task': _res_task_ids(case, cr),
                                  'file': [own[f] for f in cr.get('file_dep', []) if f in own],
                                  'calc': [idx[x] for x in cr.get('calc_dep', [])]})
    if case.get('sel') is None:
        sel = list(range(n))
    else:
        sel = []
        for s in case['sel']:
            if s in idx:
                sel.append(idx[s])
            elif s in own:
                sel.append(own[s])
            else:
                sel.append(-1)      # not found: doit answers InvalidCommand (exit 3) before anything runs
    args_ok = []
    for i, t in enumerate(tasks):
        ok = True
        for _arg, src, key in t['getargs']:
            s = tasks[idx[src]]
            srcs = [tasks[j] for j in task_dep[idx[src]]] if s['kind'] == 'group' else [s]
            for q in srcs:
                qs = status[idx[q['name']]]
                runs = qs == 'run' or (always and qs == 'utd') or (qs == 'utd' and q['name'] in saved)
                if not (runs and q['outcome'] == 'ok' and not q['ignored'] and key == 'v' and q['kind'] != 'group'
                        and not (q.get('calc_res') or {}).get('as_str')):
                    ok = False
        args_ok.append(ok)
    model = {'n': n, 'taskDep': task_dep, 'setup': setup, 'calcDep': calc_dep, 'sel': sel,
             'cont': bool(case.get('cont')), 'always': always,
             'runner': case.get('runner', 'serial'), 'nproc': int(case.get('nproc', 0)),
             'ignored': [bool(t['ignored']) for t in tasks],
             'status': status,
             'outcome': [t['outcome'] for t in tasks],
             'argsOk': args_ok,
             'teardown': [bool(t['teardown']) for t in tasks],
             'noAct': [t['kind'] == 'group' for t in tasks],
             'calcRes': calc_res}
    if any(x is not None for x in calc_res_fail):
        model['calcResFail'] = calc_res_fail        # absent = nothing of the kind (the model's default)
    return model


def saved_values_tasks(case):
    """names of the tasks that are up-to-date in the measured run BECAUSE an earlier run executed them successfully
    (uptodate=[run_once]) -- their saved values are in the DB: select_task loads them into task.values, so the task
    delivers its calc result / getargs values although it is not executed.  Only with case['history'] (see
    apply_history / _history_prerun); without it an up-to-date task has nothing saved (fresh DB)."""
    if not case.get('history'):
        return frozenset()
    return frozenset(t['name'] for t in case['tasks']
                     if t['status'] == 'utd' and t.get('utd_how') == 'run_once' and t['kind'] != 'group')


def _effective_status(case, idx, always):
    """what get_status answers for each task when select_task asks: the task's own oracle status, or `run` when a calc
    task that DELIVERS to it (directly or through a delivered calc_dep) returned 'uptodate': [False] -- Task.update_deps
    extends the receiver's uptodate list, and one False makes Dependency.get_status return `run` before it looks at
    anything else.  (A task is only asked after all its calc_deps were processed; one that was not executed successfully
    makes the receiver unmet / ignored, or -- up-to-date on a fresh DB -- has no values to deliver.)"""
    tasks = case['tasks']
    if not any((t.get('calc_res') or {}).get('uptodate') for t in tasks):
        return [t['status'] for t in tasks]
    memo, busy = {}, set()

    def eff(i):
        if i in memo:
            return memo[i]
        t = tasks[i]
        if i in busy:
            return t['status']
        busy.add(i)
        flip = False
        seen, todo = set(), [idx[x] for x in t['calc_dep']]
        while todo:
            c = todo.pop()
            if c in seen:
                continue
            seen.add(c)
            q = tasks[c]
            cr = q.get('calc_res')
            if cr is None or cr.get('as_str') or q['outcome'] != 'ok' or q['ignored'] or q['kind'] == 'group':
                continue
            qs = eff(c)
            if not (qs == 'run' or (always and qs == 'utd')):
                continue
            if any(u is False for u in cr.get('uptodate') or ()):
                flip = True
            todo += [idx[x] for x in cr.get('calc_dep', [])]
        busy.discard(i)
        memo[i] = 'run' if flip else t['status']
        return memo[i]
    return [eff(i) for i in range(len(tasks))]


def dynamic_edges(model):
    """all dependency edges that can ever exist in a run: static ones plus everything calc results may deliver
    (fixpoint over delivered calc_deps).  Returns list of sets (per task)."""
    n = model['n']
    deps = [set(model['taskDep'][i]) | set(model['setup'][i]) | set(model['calcDep'][i]) for i in range(n)]
    calc = [set(model['calcDep'][i]) for i in range(n)]
    changed = True
    while changed:
        changed = False
        for i in range(n):
            for c in list(calc[i]):
                for cr in (model['calcRes'][c], (model.get('calcResFail') or [None] * n)[c]):
                    if not cr:
                        continue
                    new = set(cr['task']) | set(cr['file']) | set(cr['calc'])
                    if not new <= deps[i] or not set(cr['calc']) <= calc[i]:
                        deps[i] |= new
                        calc[i] |= set(cr['calc'])
                        changed = True
    return deps


def is_acyclic(edges):
    n = len(edges)
    state = [0] * n
    for root in range(n):
        if state[root]:
            continue
        stack = [(root, iter(sorted(edges[root])))]
        state[root] = 1
        while stack:
            node, it = stack[-1]
            for d in it:
                if d < 0 or d >= n:
                    continue
                if state[d] == 1:
                    return False
                if state[d] == 0:
                    state[d] = 1
                    stack.append((d, iter(sorted(edges[d]))))
                    break
            else:
                state[node] = 2
                stack.pop()
    return True


DEFAULT_WEIGHTS = {'task_dep': 30, 'setup': 14, 'calc_dep': 14, 'file': 16, 'getargs': 10, 'result_dep': 10,
                   'getargs_setup': 4}


def _pick_weighted(rng, weights, allowed):
    items = [(k, weights.get(k, 0)) for k in allowed if weights.get(k, 0) > 0]
    if not items:
        return 'task_dep'
    tot = sum(w for _, w in items)
    r = rng.random() * tot
    for k, w in items:
        r -= w
        if r <= 0:
            return k
    return items[-1][0]


def gen_case(rng, n_min=3, n_max=9, runner=None, nproc=None, weights=None, p_group=0.3, p_shared=0.5,
             p_dual=0.08, p_dup_sel=0.15, p_ignored=0.07, p_utd=0.18, p_error=0.07, p_failed=0.14, p_exc=0.08,
             p_teardown=0.25, p_cont=0.4, p_always=0.06, p_calc_deliver=0.85, sel_mode=None, policy=None,
             allow_cycle=False, all_ok=False, p_meta_names=0.0, p_share_lists=0.0, p_combo=0.0,
             p_calc_then_fail=0.0, p_wild=0.0, p_multi_action=0.0, p_multi_teardown=0.0, p_group_late=0.0,
             p_calc_extra=0.0, p_history=0.0):
    """One random run case.  Graph: 3..9 tasks in a hidden topological order (all edges, static and delivered by calc
    results, go from later to earlier rank, so the graph is acyclic unless allow_cycle), then the definition order is
    shuffled.  Edge kinds: task_dep / setup / calc_dep / file (target->file_dep) / getargs (setup edge) / result_dep
    (task_dep edge) / getargs_setup (getargs whose source is also in `setup`).  Knobs: see signature; `weights`
    overrides DEFAULT_WEIGHTS; runner in serial|thread|process (None: serial); all_ok: no failures/ignores/utd.
    Opt-in knobs (default 0.0 = case stream unchanged, no extra draw from `rng`): p_meta_names = probability that task
    names get glob / format metacharacters (`t[3]`, `t?3`, `t{3}`, `g[0]:a?`; see apply_meta_names); p_share_lists =
    probability that tasks with equal `setup` / `task_dep` / `calc_dep` / `file_dep` / `targets` values are given ONE
    shared list object in the dodo namespace (case['share'], see build_namespace); p_combo = probability that one
    not-up-to-date task gets a calc_dep AND a task_dep AND a setup-task at once (three distinct lower-ranked tasks) and is
    likely to be selected by name first, so that its calc_dep finishes (node woken) and then its task_dep finishes before
    the node is stepped (case['combo'] = its name); p_calc_then_fail = probability that one calc task that delivers
    something becomes a 'calc_first' task (see the case format) which mostly fails in its second action, mostly under
    --continue (case['ctf'] = its name): doit delivers the values of the FAILED task (model: calcResFail).
    Wave-4 opt-in knobs (each a per-case probability; see the optional TASK fields in the module docstring): p_wild =
    one or two tasks (groups included) get a wildcard task_dep pattern whose matches all have a lower rank (sometimes
    none, sometimes tasks that are literal task_deps too); with wild deps the names are not given metacharacters;
    p_multi_action = about half of the tasks get 2-3 python-actions, a failing one fails in a random action (first /
    middle / last); p_multi_teardown = tasks with a teardown get 2-3 callables; p_group_late = groups with own task_dep
    yield their attributes after some of their sub-tasks; p_calc_extra = calc results get keys the dispatcher does not
    consume ('junk', 'setup'), 'uptodate': [None] / [False] (the latter changes the receivers' status, see
    _effective_status; never towards a receiver whose status is `error`), or are returned as a str.
    Round-6 opt-in knob: p_history = probability that the case gets a HISTORY (apply_history): an earlier serial run on
    the same DB executes one or two calc tasks (uptodate=[run_once]) which are therefore UP-TO-DATE in the measured run
    and deliver their calc result from the values saved in the DB; the measured selection mostly names such a task
    BEFORE the task that has it as calc_dep (the calc task is processed when nobody waits for it yet)."""
    w = dict(DEFAULT_WEIGHTS)
    w.update(weights or {})
    n = rng.randint(n_min, n_max)
    # ---- units in rank order (rank 0 = deepest dependency)
    ranked = []
    gcount = 0
    while len(ranked) < n:
        room = n - len(ranked)
        if room >= 2 and rng.random() < p_group:
            g = 'g%d' % gcount
            gcount += 1
            nsub = rng.randint(1, min(3, room - 1))
            for k in range(nsub):
                ranked.append(_new_task('%s:%s' % (g, 'abc'[k]), 'sub', g))
                # other tasks may sit between the sub-tasks in rank
                if rng.random() < 0.3 and n - len(ranked) > (nsub - k):
                    ranked.append(_new_task('p%d' % len(ranked)))
            ranked.append(_new_task(g, 'group'))
        else:
            ranked.append(_new_task('p%d' % len(ranked)))
    # plain names by rank so that a rendered case reads naturally: t<rank>
    for r, t in enumerate(ranked):
        if t['kind'] == 'task':
            t['name'] = 't%d' % r
    rank = {t['name']: r for r, t in enumerate(ranked)}
    # ---- oracle
    for t in ranked:
        if t['kind'] == 'group':
            t['ignored'] = (not all_ok) and rng.random() < p_ignored * 0.5
            continue
        if all_ok:
            continue
        r = rng.random()
        t['status'] = 'utd' if r < p_utd else 'error' if r < p_utd + p_error else 'run'
        t['ignored'] = rng.random() < p_ignored
        r = rng.random()
        t['outcome'] = 'failed' if r < p_failed else 'error' if r < p_failed + p_exc else 'ok'
        t['how'] = rng.choice(['return', 'raise', 'object'])
        t['teardown'] = rng.random() < p_teardown
    # ---- edges
    popular = []
    for r, t in enumerate(ranked):
        if r == 0 or t['kind'] == 'group' and rng.random() < 0.6:
            continue
        cands = [x for x in ranked[:r] if not (t['kind'] == 'group' and x['group'] == t['name'])]
        if not cands:
            continue
        for _ in range(rng.choice([0, 1, 1, 1, 2, 2, 3])):
            if popular and rng.random() < p_shared:
                v = rng.choice(popular)
                if rank[v['name']] >= r:
                    continue
            else:
                v = rng.choice(cands)
            allowed = ['task_dep']
            if t['kind'] != 'group':
                allowed += ['setup', 'getargs_setup']
                if v['kind'] != 'group':
                    allowed.append('calc_dep')
                    if t['status'] != 'utd':
                        allowed.append('file')
                if t['status'] == 'run':
                    allowed += ['getargs', 'result_dep']
            kind = _pick_weighted(rng, w, allowed)
            vn = v['name']
            if kind == 'task_dep':
                if vn not in t['task_dep']:
                    t['task_dep'].append(vn)
            elif kind == 'setup':
                if vn not in t['setup']:
                    t['setup'].append(vn)
            elif kind == 'calc_dep':
                if vn not in t['calc_dep']:
                    t['calc_dep'].append(vn)
                if rng.random() < p_dual and vn not in t['task_dep']:
                    t['task_dep'].append(vn)           # F-C09b: same task is calc_dep and task_dep
            elif kind == 'file':
                f = 'f_%s.out' % vn.replace(':', '_')
                if f not in v['targets']:
                    v['targets'].append(f)
                if f not in t['file_dep']:
                    t['file_dep'].append(f)
            elif kind in ('getargs', 'getargs_setup'):
                if kind == 'getargs_setup' and vn not in t['setup']:
                    t['setup'].append(vn)
                if not any(g[1] == vn for g in t['getargs']):
                    key = 'v' if rng.random() < 0.93 else 'nokey'
                    t['getargs'].append(['a%d' % len(t['getargs']), vn, key])
            elif kind == 'result_dep':
                if vn not in t['result_dep']:
                    t['result_dep'].append(vn)
            popular.append(v)
    combo = None
    if p_combo and rng.random() < p_combo:
        cand_w = [r for r, t in enumerate(ranked) if r >= 3 and t['kind'] != 'group']
        if cand_w:
            r = rng.choice(cand_w)
            t = ranked[r]
            low = [x for x in ranked[:r] if x['kind'] == 'task']
            if len(low) >= 3:
                c_, d_, s_ = sorted(rng.sample(low, 3), key=lambda x: rank[x['name']])
                if rng.random() < 0.5:
                    d_, s_ = s_, d_
                # the calc_dep is the lowest-ranked of the three (it tends to finish first); mostly a clean success path
                t['status'], t['ignored'] = 'run', False
                if not all_ok and rng.random() < 0.8:
                    for v in (c_, d_, s_):
                        v['outcome'], v['ignored'] = 'ok', False
                        if v['status'] == 'error':
                            v['status'] = 'run'
                for key, v in (('calc_dep', c_), ('task_dep', d_), ('setup', s_)):
                    if v['name'] not in t[key]:
                        t[key].append(v['name'])
                combo = t['name']
    has_wild = False
    wild_pats = None
    if p_wild and rng.random() < p_wild:
        pats = ['zz*']
        for x in ranked:
            nm = x['name']
            if x['kind'] == 'sub':
                base, sub = nm.split(':', 1)
                pats += [base + ':*', '*:' + sub, base[:-1] + '*:' + sub, base + '*']
            elif x['kind'] == 'task':
                pats += [nm + '*', '*' + nm[1:], 't[0-%s]*' % nm[1:2], nm[0] + '*' + nm[-1]]
        pats = sorted(set(pats))
        wild_pats = pats
        for _ in range(rng.choice([1, 1, 2])):
            r = rng.randrange(1, len(ranked))
            t = ranked[r]
            ok = []
            for pat in pats:
                m = [x for x in ranked if fnmatch.fnmatch(x['name'], pat)]
                if all(rank[x['name']] < r for x in m) and (m or rng.random() < 0.1):
                    ok.append(pat)
            if ok:
                # prefer patterns that match several tasks
                ok.sort(key=lambda q: -len([x for x in ranked if fnmatch.fnmatch(x['name'], q)]))
                pat = ok[min(len(ok) - 1, int(abs(rng.gauss(0, len(ok) / 2.5))))]
                if pat not in t.setdefault('task_dep_wild', []):
                    t['task_dep_wild'].append(pat)
                has_wild = True
    if p_multi_action and rng.random() < p_multi_action:
        for t in ranked:
            if t['kind'] != 'group' and rng.random() < 0.5:
                t['n_actions'] = rng.choice([2, 3, 3])
                if t['outcome'] != 'ok':
                    t['fail_at'] = rng.randrange(t['n_actions'])
    if p_multi_teardown and rng.random() < p_multi_teardown:
        for t in ranked:
            if t['teardown'] and rng.random() < 0.7:
                t['n_teardown'] = rng.choice([2, 2, 3])
    if p_group_late and rng.random() < p_group_late:
        for t in ranked:
            if t['kind'] == 'group':
                nsub_ = len([x for x in ranked if x['group'] == t['name']])
                if not t['task_dep'] and not t.get('task_dep_wild'):
                    low = [x for x in ranked[:rank[t['name']]] if x['group'] != t['name']]
                    if low and rng.random() < 0.7:
                        t['task_dep'].append(rng.choice(low)['name'])
                if (t['task_dep'] or t.get('task_dep_wild')) and nsub_:
                    t['group_late'] = rng.randint(1, nsub_)
    for t in ranked:
        if t['status'] == 'error':
            t['file_dep'].append('missing_%s' % t['name'].replace(':', '_'))
    # ---- calc results (delivered deps point below every receiver's rank)
    case = {'tasks': ranked, 'sel': None, 'cont': False, 'always': False, 'runner': 'serial', 'nproc': 0}
    if combo is not None:
        case['combo'] = combo
    receivers = {}
    for t in ranked:
        for c in t['calc_dep']:
            receivers.setdefault(c, set()).add(t['name'])
    byname = {t['name']: t for t in ranked}
    for t in sorted(ranked, key=lambda x: -rank[x['name']]):
        rec = receivers.get(t['name'])
        if not rec or t['kind'] != 'task' or rng.random() > p_calc_deliver:
            continue
        low = min(rank[x] for x in rec)
        cands = [x for x in ranked[:low] if x['name'] != t['name']]
        res = {'task_dep': [], 'file_dep': [], 'calc_dep': []}
        if rng.random() < 0.6:
            # most delivering calc tasks really run and succeed (otherwise hardly any run would see a delivery)
            t['status'], t['outcome'], t['ignored'] = 'run', 'ok', False
            t['file_dep'] = [f for f in t['file_dep'] if not f.startswith('missing_')]
        for _ in range(rng.choice([0, 1, 1, 1, 2])):
            if not cands:
                break
            v = rng.choice(cands)
            kinds = ['task_dep', 'task_dep']
            if v['kind'] == 'task':
                kinds.append('calc_dep')
                if all(byname[x]['status'] != 'utd' for x in rec):
                    kinds.append('file_dep')
            k = rng.choice(kinds)
            if k == 'file_dep':
                f = 'f_%s.out' % v['name'].replace(':', '_')
                if f not in v['targets']:
                    v['targets'].append(f)
                if f not in res['file_dep']:
                    res['file_dep'].append(f)
            elif v['name'] not in res[k]:
                res[k].append(v['name'])
                if k == 'calc_dep':
                    receivers.setdefault(v['name'], set()).update(rec)
        t['calc_res'] = res
    # ---- opt-in (p_wild): a wildcard inside the task_dep a calc task delivers
    if wild_pats is not None and rng.random() < 0.3:
        cands = [t for t in ranked if t['calc_res'] is not None and receivers.get(t['name'])]
        if cands:
            t = rng.choice(cands)
            low = min(rank[x] for x in receivers[t['name']])
            ok = [q for q in wild_pats
                  if [x for x in ranked if fnmatch.fnmatch(x['name'], q)]
                  and all(rank[x['name']] < low and x['name'] != t['name'] for x in ranked
                          if fnmatch.fnmatch(x['name'], q))]
            if ok:
                t['calc_res']['task_dep'].append(rng.choice(ok))
                case['wild_calc'] = t['name']
                has_wild = True
    # ---- opt-in: keys of a calc result that the dispatcher does not consume
    if p_calc_extra and rng.random() < p_calc_extra:
        for t in ranked:
            cr = t['calc_res']
            if cr is None or rng.random() < 0.25:
                continue
            kind = rng.choice(['junk', 'junk', 'setup', 'utd_none', 'utd_false', 'utd_false', 'str'])
            if kind == 'junk':
                cr['junk'] = rng.choice([1, 'x', ['t0'], {'task_dep': ['t0']}])
            elif kind == 'setup':
                lowr = [x['name'] for x in ranked[:rank[t['name']]]]
                if lowr:
                    cr['setup'] = [rng.choice(lowr)]        # `setup` is not in Task._expand_map: ignored
            elif kind == 'utd_none':
                cr['uptodate'] = [None]
            elif kind == 'utd_false':
                if all(byname[x]['status'] != 'error' for x in receivers.get(t['name'], ())):
                    cr['uptodate'] = rng.choice([[False], [False], [None, False]])
                    # make it matter: a receiver that would be up-to-date on its own
                    plain = [x for x in sorted(receivers.get(t['name'], ()), key=lambda q: rank[q])
                             if byname[x]['kind'] != 'group' and byname[x]['status'] == 'run'
                             and not (byname[x]['file_dep'] or byname[x]['getargs'] or byname[x]['result_dep'])]
                    if plain and rng.random() < 0.6:
                        byname[rng.choice(plain)]['status'] = 'utd'
            else:
                cr['as_str'] = True
    # ---- opt-in: a delivering calc task that fails AFTER its first action returned the values
    ctf = None
    if p_calc_then_fail and rng.random() < p_calc_then_fail:
        cands = [t for t in ranked if t['calc_res'] is not None and any(t['calc_res'].values())]
        if cands:
            t = rng.choice(cands)
            t['calc_first'] = True
            t['status'], t['ignored'] = 'run', False
            t['file_dep'] = [f for f in t['file_dep'] if not f.startswith('missing_')]
            if rng.random() < 0.85:
                t['outcome'] = rng.choice(['failed', 'failed', 'error'])
                t['how'] = rng.choice(['return', 'raise', 'object'])
            ctf = t['name']
            case['ctf'] = ctf
    # ---- definition order: shuffle, group entry right before its first sub-task
    rest = [t for t in ranked if t['kind'] != 'group']
    rng.shuffle(rest)
    order = []
    seen_groups = set()
    for t in rest:
        if t['kind'] == 'sub' and t['group'] not in seen_groups:
            seen_groups.add(t['group'])
            order.append(byname[t['group']])
        order.append(t)
    case['tasks'] = order
    # ---- optional cycle (C09's business)
    if allow_cycle and rng.random() < 0.5 and len(order) >= 2:
        a, b = rng.sample([t for t in order if t['kind'] == 'task'] or order, 2) if len(
            [t for t in order if t['kind'] == 'task']) >= 2 else (order[0], order[-1])
        if rank[a['name']] > rank[b['name']]:
            a, b = b, a
        if a['kind'] != 'group' and b['name'] not in a['task_dep']:
            a['task_dep'].append(b['name'])      # low rank depends on high rank: may close a cycle
    # ---- selection
    mode = sel_mode or rng.choice(['all', 'all', 'all', 'names', 'names', 'names', 'target', 'target'])
    if combo is not None and sel_mode is None and rng.random() < 0.5:
        mode = 'names'
    names = [t['name'] for t in order]
    files = sorted(f for t in order for f in t['targets'])
    if mode == 'names' or (mode == 'target' and not files):
        k = rng.randint(1, min(3, len(names)))
        # prefer late ranks (they pull in a closure) but allow anything
        pool = sorted(names, key=lambda x: -rank[x])
        sel = [pool[min(len(pool) - 1, int(abs(rng.gauss(0, len(pool) / 3.0))))] for _ in range(k)]
        if rng.random() < 0.15 and seen_groups:
            g = rng.choice(sorted(seen_groups))
            sub = rng.choice([t['name'] for t in order if t['group'] == g])
            sel += rng.choice([[g, sub], [sub, g]])
        sel = list(dict.fromkeys(sel))
        if rng.random() < p_dup_sel:
            # a repeated name: at the end or in the middle (finding dup-selection-truncates, fixed upstream: doit used
            # to drop the entries after the repetition)
            dup = rng.choice(sel)
            if rng.random() < 0.5:
                sel.insert(rng.randint(1, len(sel)), dup)
            else:
                first = sel.index(dup)
                rest_ = [x for i_, x in enumerate(sel) if x != dup or i_ == first]
                sel = rest_ + [dup]
        if combo is not None and rng.random() < 0.7:
            sel = [combo] + [x for x in sel if x != combo]
        case['sel'] = sel
    elif mode == 'target':
        sel = [rng.choice(files)]
        if rng.random() < 0.5:
            sel.append(rng.choice(names + files))
        rng.shuffle(sel)
        case['sel'] = sel
    # ---- flags, runner
    case['cont'] = rng.random() < p_cont
    if ctf is not None and rng.random() < 0.75:
        case['cont'] = True             # without --continue the failure stops the run before anything is delivered
    case['always'] = (not all_ok) and rng.random() < p_always
    runner = runner or 'serial'
    case['runner'] = runner
    if runner == 'serial':
        case['nproc'] = 0
    elif runner == 'thread':
        case['nproc'] = nproc or rng.randint(1, 4)
    else:
        case['nproc'] = nproc or rng.choice([2, 3])
    case['policy'] = policy or {'kind': 'seeded', 'seed': rng.randrange(1 << 30)}
    # ---- opt-in: legal but unusual task names; shared list objects in the task dicts
    if p_meta_names and rng.random() < p_meta_names and not has_wild:
        apply_meta_names(case, rng)
    if p_share_lists and rng.random() < p_share_lists:
        case['share'] = {'attrs': sorted(rng.sample(SHARE_ATTRS, rng.randint(1, len(SHARE_ATTRS)))),
                         'empty': rng.random() < 0.7}
    # ---- a task that is up-to-date by constant must not receive a file_dep (its status would flip to run)
    _mute_file_delivery_to_utd(case)
    # ---- keep the dynamic graph acyclic: drop calc results until it is
    case['model'] = expand(case)
    if not allow_cycle:
        guard = 0
        while not is_acyclic(dynamic_edges(_all_deliver(case['model'], case))) and guard < 20:
            guard += 1
            for t in case['tasks']:
                if t['calc_res'] is not None:
                    t['calc_res'] = None
                    break
            case['model'] = expand(case)
    # ---- opt-in (last, so that no other draw moves): a history -- calc tasks made up-to-date by an earlier run
    if p_history and rng.random() < p_history and not allow_cycle:
        if apply_history(case, rng):
            _mute_file_delivery_to_utd(case)
        case['model'] = expand(case)
    return case


def apply_history(case, rng):
    """Give the case a history (multi-run dimension): choose 1-2 calc tasks c (somebody has c as calc_dep, c returns a
    non-empty dict result) whose whole dependency closure -- static and delivered -- is 'harmless' in a first run
    (every member succeeds: outcome ok, not ignored, get_status not error, no getargs; and leaves no DB state that
    would change a status of the measured run: no file_dep, no result_dep).  c becomes status 'utd' with
    'utd_how': 'run_once'; case['history'] = {'prerun_sel': [the chosen tasks]} makes run_impl execute
    `doit run <chosen>` first (see _history_prerun), after which c is up-to-date with SAVED VALUES: in the measured run
    it delivers its calc result without being executed (Runner.select_task: task.values = dep_manager.get_values).
    The measured selection is, mostly, changed so that c is named BEFORE a task that uses it (c is processed while
    nobody waits for it: the result is picked up later by _node_add_wait_run(calc=True)), sometimes after it, sometimes
    left alone.  Returns True when a history was applied."""
    tasks = case['tasks']
    if any('uptodate' in (t.get('calc_res') or {}) for t in tasks):
        return False
    idx = task_index(case)
    m = case.get('model') or expand(case)
    edges = dynamic_edges(_all_deliver(m, case))

    def closure(i):
        seen, todo = set(), [i]
        while todo:
            x = todo.pop()
            if x in seen or x < 0 or x >= len(tasks):
                continue
            seen.add(x)
            todo += list(edges[x])
        return seen

    def harmless(t):
        return (t['outcome'] == 'ok' and not t['ignored'] and t['status'] != 'error' and not t['getargs']
                and not t['file_dep'] and not t['result_dep'] and not t.get('calc_first'))

    def repairable(t):
        # what cannot be repaired by changing the oracle: DB state / value flow that would change the measured run
        return not t['getargs'] and not t['result_dep'] and not [f for f in t['file_dep'] if not f.startswith('missing_')]
    users = {}
    for t in tasks:
        for c in t['calc_dep']:
            users.setdefault(c, []).append(t['name'])
        for c in (t.get('calc_res') or {}).get('calc_dep', []):
            users.setdefault(c, [])
    cands = []
    injected = {}          # calc task -> its original calc_res (restored unless the task is chosen)
    for c in sorted(users):
        t = tasks[idx[c]]
        cr = t.get('calc_res')
        if t['kind'] != 'task' or (cr and cr.get('as_str')):
            continue
        if not cr or not (cr.get('task_dep') or cr.get('calc_dep') or cr.get('file_dep')):
            # a calc task that delivers nothing: let it deliver one task_dep (any task that keeps the graph acyclic)
            others = [x['name'] for x in tasks if x['name'] != c and x['name'] not in users[c]]
            rng.shuffle(others)
            keep = t.get('calc_res')
            for x in others[:4]:
                t['calc_res'] = dict(cr or {'file_dep': [], 'calc_dep': []}, task_dep=[x])
                if is_acyclic(dynamic_edges(_all_deliver(expand(case), case))):
                    break
                t['calc_res'] = keep
            else:
                continue
            if t['calc_res'] is keep:
                continue
            injected[c] = keep
            edges = dynamic_edges(_all_deliver(expand(case), case))
        if all(repairable(tasks[x]) for x in closure(idx[c])):
            cands.append(c)
        elif c in injected:
            t['calc_res'] = injected.pop(c)
            edges = dynamic_edges(_all_deliver(expand(case), case))
    if not cands:
        return False
    chosen = rng.sample(cands, min(len(cands), rng.choice([1, 1, 2])))
    for c in sorted(injected):             # an injected result stays only on a chosen task
        if c not in chosen:
            tasks[idx[c]]['calc_res'] = injected[c]
    edges = dynamic_edges(_all_deliver(expand(case), case))
    if not all(repairable(tasks[x]) for c in chosen for x in closure(idx[c])):
        for c in chosen:                   # (a result injected later widened an earlier candidate's closure)
            if c in injected:
                tasks[idx[c]]['calc_res'] = injected[c]
        return False
    for c in chosen:
        for x in closure(idx[c]):          # the oracle of the pre-run closure: everything succeeds
            q = tasks[x]
            q['outcome'], q['ignored'] = 'ok', False
            q.pop('calc_first', None)
            if q['status'] == 'error':
                q['status'] = 'run'
                q['file_dep'] = [f for f in q['file_dep'] if not f.startswith('missing_')]
    for c in chosen:
        tasks[idx[c]]['status'] = 'utd'
        tasks[idx[c]]['utd_how'] = 'run_once'
    case['history'] = {'prerun_sel': list(chosen)}
    r = rng.random()
    use = [u for c in chosen for u in users[c]]
    if use and r < 0.85:
        c = chosen[0]
        u = rng.choice(users[c] or use)
        old = [x for x in (case.get('sel') or []) if x not in (c, u)]
        front = [c, u] if r < 0.65 else [u, c]
        case['sel'] = front + old[:rng.randint(0, 2)]
        if len(chosen) > 1 and rng.random() < 0.5:
            case['sel'].insert(rng.randint(0, len(case['sel'])), chosen[1])
    return True


def gen_scale_case(rng, n=None, shape=None, runner='thread', nproc=None, n_min=50, n_max=300, p_fail=0.02, p_utd=0.05):
    """One LARGE structured case (coverage audit #20): 50..300 tasks, runner serial / thread / process with -n 2..8.
    shapes: 'chain' (one task_dep chain through all tasks: the dispatcher nests as deep as the graph), 'fan_out' (one
    root with every other task as task_dep / setup-task), 'fan_in' (everything depends on one base task: its waiting_me
    set has n-1 members), 'layers' (layers of 4..12 tasks, each depending on 1..3 tasks of the layer below through
    task_dep / setup / calc_dep), 'ladder' (diamonds stacked on each other), 'groups' (groups of up to 12 sub-tasks with a
    wildcard dependency on the previous group).  A few tasks fail / are up-to-date; mostly --continue.  The selection
    is the sink(s) or everything.  case['bigcase'] = {'shape', 'n'}."""
    n = n or rng.randint(n_min, n_max)
    shape = shape or rng.choice(['chain', 'fan_out', 'fan_in', 'layers', 'layers', 'ladder', 'groups'])
    tasks = []

    def add(name, kind='task', group=None):
        t = _new_task(name, kind, group)
        tasks.append(t)
        return t
    sel = None
    if shape == 'chain':
        for i in range(n):
            t = add('t%d' % i)
            if i:
                kind = 'setup' if rng.random() < 0.15 else 'task_dep'
                t[kind].append('t%d' % (i - 1))
        sel = ['t%d' % (n - 1)]
    elif shape == 'fan_out':
        for i in range(n - 1):
            add('t%d' % i)
        root = add('root')
        for i in range(n - 1):
            root['setup' if rng.random() < 0.2 else 'task_dep'].append('t%d' % i)
        sel = ['root']
    elif shape == 'fan_in':
        add('base')
        for i in range(n - 1):
            t = add('t%d' % i)
            t[rng.choice(['task_dep', 'task_dep', 'setup', 'calc_dep'])].append('base')
        sel = None
    elif shape == 'layers':
        prev, i = [], 0
        while i < n:
            width = min(n - i, rng.randint(4, 12))
            cur = []
            for _ in range(width):
                t = add('t%d' % i)
                i += 1
                for d in rng.sample(prev, min(len(prev), rng.randint(1, 3))) if prev else []:
                    t[rng.choice(['task_dep', 'task_dep', 'task_dep', 'setup', 'calc_dep'])].append(d)
                cur.append(t['name'])
            prev = cur
        sel = list(prev) if rng.random() < 0.7 else None
    elif shape == 'ladder':
        prev = None
        i = 0
        while i < n:
            a = add('t%d' % i)
            i += 1
            if prev:
                a['task_dep'].append(prev)
            mids = []
            for _ in range(min(n - i, rng.randint(2, 4))):
                m = add('t%d' % i)
                i += 1
                m['task_dep'].append(a['name'])
                mids.append(m['name'])
            if i < n and mids:
                j = add('t%d' % i)
                i += 1
                j['task_dep'] += mids
                prev = j['name']
            else:
                prev = mids[-1] if mids else a['name']
        sel = [prev]
    else:   # groups
        g, i, prevg = 0, 0, None
        while i < n:
            k = min(n - i - 1, rng.randint(2, 12))
            if k < 1:
                add('t%d' % i)
                i += 1
                continue
            grp = add('g%d' % g, 'group')
            i += 1
            for j in range(k):
                sub = add('g%d:s%d' % (g, j), 'sub', 'g%d' % g)
                i += 1
                if prevg is not None and rng.random() < 0.4:
                    sub['task_dep'].append(prevg)
            if prevg is not None:
                grp['task_dep_wild'] = ['%s:*' % prevg] if rng.random() < 0.5 else []
                if not grp['task_dep_wild']:
                    del grp['task_dep_wild']
                    grp['task_dep'].append(prevg)
            prevg = 'g%d' % g
            g += 1
        sel = [prevg] if prevg else None
    # group entries must sit right before their first sub-task: they do by construction
    for t in tasks:
        if t['kind'] == 'group':
            continue
        r = rng.random()
        if r < (p_fail if shape not in ('chain', 'ladder') else p_fail / 8.0):
            t['outcome'] = rng.choice(['failed', 'error'])
            t['how'] = rng.choice(['return', 'raise', 'object'])
        elif r < p_fail + p_utd and not t['calc_dep']:
            t['status'] = 'utd'
        if rng.random() < 0.05:
            t['teardown'] = True
    if shape not in ('chain', 'ladder'):
        order = [t for t in tasks if t['kind'] != 'group']
        if shape != 'groups':
            rng.shuffle(order)
            tasks = order
    case = {'tasks': tasks, 'sel': sel, 'cont': rng.random() < 0.8, 'always': False, 'runner': runner,
            'nproc': 0 if runner == 'serial' else (nproc or rng.randint(2, 8)),
            'policy': {'kind': 'seeded', 'seed': rng.randrange(1 << 30)}, 'bigcase': {'shape': shape, 'n': len(tasks)}}
    case['model'] = expand(case)
    return case


SHARE_ATTRS = ['setup', 'task_dep', 'calc_dep', 'file_dep', 'targets']

META_STYLES = ['%s[%s]', '%s?%s', '%s{%s}', '%s[%s]?', '%s{%s}[x]', '[%s]%s', '%s%%%s']


def rename_tasks(case, mapping):
    """rename tasks in place: `mapping` maps old names of plain tasks / sub-tasks / group basenames to new names; every
    reference (deps, getargs sources, calc results, group membership, selection) follows.  The model works on indices, so
    it is unaffected except through the set-iteration orders that `expand` takes from the real string hashes."""
    def m(x):
        return mapping.get(x, x)
    for t in case['tasks']:
        t['name'] = m(t['name'])
        if t.get('group') is not None:
            t['group'] = m(t['group'])
        for k in ('task_dep', 'setup', 'calc_dep', 'result_dep'):
            t[k] = [m(x) for x in t[k]]
        t['getargs'] = [[a, m(src), key] for a, src, key in t['getargs']]
        if t.get('calc_res') is not None:
            for k in ('task_dep', 'calc_dep'):
                if k in t['calc_res']:
                    t['calc_res'][k] = [m(x) for x in t['calc_res'][k]]
    if case.get('sel') is not None:
        case['sel'] = [m(x) for x in case['sel']]
    if case.get('combo') is not None:
        case['combo'] = m(case['combo'])
    if case.get('ctf') is not None:
        case['ctf'] = m(case['ctf'])
    if case.get('wild_calc') is not None:
        case['wild_calc'] = m(case['wild_calc'])


def apply_meta_names(case, rng, p_each=0.6):
    """give some tasks names containing characters that are special to fnmatch / str.format / %-formatting but legal in
    a doit task name (`*`, `=` and a leading `-` are not used: they mean something on the command line).  A sub-task keeps
    the form `<group basename>:<sub name>`; both parts may change."""
    mapping = {}
    def meta(name):
        head, tail = (name[:-1], name[-1]) if len(name) > 1 else (name, 'x')
        return rng.choice(META_STYLES) % (head, tail)
    for t in case['tasks']:
        if t['kind'] in ('task', 'group') and rng.random() < p_each:
            mapping[t['name']] = meta(t['name'])
    for t in case['tasks']:
        if t['kind'] == 'sub':
            base, sub = t['name'].split(':', 1)
            new_sub = meta(sub + sub) if rng.random() < p_each else sub
            new = mapping.get(base, base) + ':' + new_sub
            if new != t['name']:
                mapping[t['name']] = new
    # keep names unique
    if len(set(mapping.get(t['name'], t['name']) for t in case['tasks'])) == len(case['tasks']):
        rename_tasks(case, mapping)
        case['meta_names'] = True


def _mute_file_delivery_to_utd(case):
    byname = {t['name']: t for t in case['tasks']}
    for r in case['tasks']:
        if r['status'] != 'utd':
            continue
        seen, todo = set(), list(r['calc_dep'])
        while todo:
            c = todo.pop()
            if c in seen:
                continue
            seen.add(c)
            cr = byname[c].get('calc_res')
            if cr:
                cr['file_dep'] = []
                todo += cr.get('calc_dep', [])


def _all_deliver(model, case):
    """model variant in which every calc task delivers (whatever its oracle): used for the acyclicity guarantee"""
    idx = task_index(case)
    own = target_owner(case)
    m = dict(model)
    res = []
    for t in case['tasks']:
        cr = t.get('calc_res')
        res.append(None if cr is None else {'task': _res_task_ids(case, cr),
                                            'file': [own[f] for f in cr.get('file_dep', []) if f in own],
                                            'calc': [idx[x] for x in cr.get('calc_dep', [])]})
    m['calcRes'] = res
    return m


def _failed_runs(trace):
    """tasks that were executed (an action start is recorded) and reported failed"""
    started = set(e[1] for e in trace if e[0] == 'start')
    return set(e[1] for e in trace if e[0] == 'failure' and e[1] in started)


def case_key(case):
    """canonical text of a case without the derived parts (used for distinctness)"""
    return common.canon({k: v for k, v in case.items() if k not in ('model',)})


def nontrivial(case, obs=None):
    """a case is non-trivial when its closure has a dependency edge and (if observed) something was reported"""
    m = case.get('model') or expand(case)
    has_edge = any(m['taskDep'][i] or m['setup'][i] or m['calcDep'][i] for i in range(m['n']))
    if obs is None:
        return has_edge
    return has_edge and any(e[0] in TERMINAL for e in obs['trace'])


def count_case(st, case, obs=None):
    """histogram of the input distribution (and of the branches the implementation took) into st.count"""
    if case.get('meta_names'):
        st.count('names:metachars')
    if case.get('combo') is not None:
        st.count('combo:calc+task+setup')
    if any('*' in _x for _t in case['tasks'] for _x in (_t.get('calc_res') or {}).get('task_dep', [])):
        st.count('wild_dep:delivered_by_calc_result')
    if case.get('bigcase'):
        _n = case['bigcase']['n']
        st.count('scale:%s' % case['bigcase']['shape'])
        st.count('scale:tasks_%s' % ('50-99' if _n < 100 else '100-199' if _n < 200 else '200+'))
        if case['runner'] != 'serial':
            st.count('scale:workers_%d' % case['nproc'])
    for _t in case['tasks']:
        if _t.get('calc_first'):
            st.count('calc_first:%s' % _t['outcome'])
        for _p in _t.get('task_dep_wild') or ():
            _k = len([1 for _x in case['tasks'] if fnmatch.fnmatch(_x['name'], _p)])
            st.count('wild_dep:matches=%s' % (_k if _k < 3 else '3+'))
            if _t['kind'] == 'group':
                st.count('wild_dep:on_group')
        if _t.get('n_actions'):
            st.count('actions:%d' % _t['n_actions'])
            if _t['outcome'] != 'ok':
                _f = _t.get('fail_at', _t['n_actions'] - 1)
                st.count('actions:fail_in_%s' % ('first' if _f == 0 else 'last' if _f >= _t['n_actions'] - 1 else 'middle'))
        if _t.get('n_teardown'):
            st.count('teardown_callables:%d' % _t['n_teardown'])
        if _t.get('group_late'):
            st.count('group:attributes_after_subtasks')
        _cr = _t.get('calc_res') or {}
        for _k in ('junk', 'setup', 'as_str'):
            if _k in _cr:
                st.count('calc_res:key_%s' % _k)
        if 'uptodate' in _cr:
            st.count('calc_res:uptodate_%s' % ('False' if False in _cr['uptodate'] else 'None'))
    if case.get('history'):
        st.count('history:prerun')
        _sv = saved_values_tasks(case)
        _pos = {}
        for _i, _s in enumerate(case['sel'] if case.get('sel') is not None else [_t['name'] for _t in case['tasks']]):
            _pos.setdefault(_s, _i)
        for _t in case['tasks']:
            for _c in _t['calc_dep']:
                if _c in _sv:
                    st.count('history:utd_calc_task_with_saved_values')
                    if _c in _pos and _t['name'] in _pos:
                        st.count('history:calc_task_selected_%s_its_user' %
                                 ('BEFORE' if _pos[_c] < _pos[_t['name']] else 'after'))
    if case.get('share'):
        st.count('share:lists')
        for _a in case['share'].get('attrs', ()):
            st.count('share:' + _a)
    m = case.get('model') or expand(case)
    st.count('n=%d' % m['n'])
    st.count('runner:%s' % case['runner'] + (':%d' % case['nproc'] if case['runner'] != 'serial' else ''))
    if case['runner'] == 'thread':
        st.count('policy:%s' % (case.get('policy') or {}).get('kind', 'seeded'))
    st.count('sel:%s' % ('all' if case.get('sel') is None else
                         'target' if any(s not in task_index(case) for s in case['sel']) else 'names'))
    if case.get('sel') is not None and len(set(case['sel'])) < len(case['sel']):
        st.count('sel:duplicate')
    if case.get('cont'):
        st.count('flag:continue')
    if case.get('always'):
        st.count('flag:always')
    indeg = [0] * m['n']
    for t, i in zip(case['tasks'], range(m['n'])):
        for k in ('task_dep', 'setup', 'calc_dep', 'result_dep', 'file_dep'):
            if t[k]:
                st.count('edge:%s' % k, len(t[k]))
        if t['getargs']:
            st.count('edge:getargs', len(t['getargs']))
        if t['kind'] == 'group':
            st.count('group')
        if set(t['calc_dep']) & set(t['task_dep']):
            st.count('edge:dual_calc_task')
        st.count('status:%s' % t['status'])
        st.count('outcome:%s' % t['outcome'])
        if t['ignored']:
            st.count('ignored')
        if t['teardown']:
            st.count('teardown')
        if t['calc_res'] is not None:
            st.count('calc_res:%s' % ('delivers' if m['calcRes'][i] else 'muted'))
        for d in set(m['taskDep'][i]) | set(m['setup'][i]) | set(m['calcDep'][i]):
            indeg[d] += 1
    if any(x >= 2 for x in indeg):
        st.count('shared_dep')
    shared_setup = [0] * m['n']
    for i in range(m['n']):
        for d in set(m['setup'][i]):
            shared_setup[d] += 1
    if any(x >= 2 for x in shared_setup):
        st.count('shared_setup')
    if obs is not None:
        st.count('exit:%s' % obs['exit'])
        st.count('err:%s' % obs['err'])
        for e in obs['trace']:
            if e[0] == 'failure':
                st.count('ev:failure:%s' % e[2])
            elif e[0] in ('skip_ignore', 'skip_uptodate', 'success', 'start', 'teardown', 'runtime_error'):
                st.count('ev:%s' % e[0])
        if any(e[0] == 'failure' for e in obs['trace']):
            st.count('run:failure_under_continue' if case.get('cont') else 'run:cut_short_by_failure')
        succ = set(e[1] for e in obs['trace'] if e[0] == 'success')
        if any(m['calcRes'][c] and (m['calcRes'][c]['task'] or m['calcRes'][c]['file'] or m['calcRes'][c]['calc'])
               for c in succ):
            st.count('run:calc_result_delivered')
        frun = _failed_runs(obs['trace'])
        if any((m.get('calcResFail') or [None] * m['n'])[c] for c in frun) and case.get('cont'):
            st.count('run:failed_calc_result_delivered')
        ws = set(e[2] for e in obs['trace'] if e[0] == 'start')
        if case['runner'] != 'serial':
            st.count('workers_used:%d' % len(ws))
        if obs.get('sched'):
            st.count('sched:decisions', obs['sched'].get('decisions', 0))
            if obs['sched'].get('overlap'):
                st.count('sched:actions_overlapped')


# ======================================================================================================
# 2. recording + running the real doit
# ======================================================================================================

class Recorder(object):
    """the ONE total order of observable events of a run.  mode 'mem': list under a lock (serial, thread);
    mode 'file': one JSON line per event appended with O_APPEND (process mode: children and the main process share it)."""

    def __init__(self, mode, names, path=None):
        self.mode = mode
        self.ids = {n: i for i, n in enumerate(names)}
        self.events = []
        self.lock = threading.Lock()
        self.path = path
        self.fd = None
        self.worker = 0            # process mode: set in the child (creation index of the Process)
        self.sched = None          # thread mode: the Sched
        self.token_timeout = 6.0
        self.td_events = False
        if mode == 'file':
            self.fd = os.open(path, os.O_WRONLY | os.O_CREAT | os.O_APPEND, 0o644)

    def tid(self, task):
        name = getattr(task, 'name', task)
        return self.ids.get(name, name)

    def ev(self, e):
        if self.mode == 'mem':
            with self.lock:
                self.events.append(e)
        else:
            os.write(self.fd, (json.dumps(e) + '\n').encode())

    def who(self):
        """worker index of the caller"""
        if self.mode == 'file':
            return self.worker
        w = getattr(threading.current_thread(), '_sched_id', None)
        return w if isinstance(w, int) else 0

    def checkpoint(self, n):
        """between the start and the end event of an action: thread mode = switch point of the scheduler,
        process mode = wait for the token file go.<n>"""
        if self.sched is not None:
            self.sched.checkpoint()
        elif self.mode == 'file':
            tok = 'go.%d' % n
            end = time.time() + self.token_timeout
            while not os.path.exists(tok) and time.time() < end:
                time.sleep(0.001)

    def all(self):
        if self.mode == 'mem':
            return list(self.events)
        out = []
        with open(self.path) as f:
            for line in f:
                line = line.strip()
                if line:
                    try:
                        out.append(json.loads(line))
                    except ValueError:
                        pass
        return out

    def close(self):
        if self.fd is not None:
            os.close(self.fd)
            self.fd = None


_REC = None     # recorder of the run in progress (one run at a time per process)


def _fail_kind(fail):
    from doit import exceptions as ex
    if isinstance(fail, ex.UnmetDependency):
        return 'unmet'
    if isinstance(fail, ex.DependencyError):
        return 'deperr'
    if isinstance(fail, ex.TaskFailed):
        return 'failed'
    return 'error'


class RecReporter(object):
    """reporter class handed to doit through DOIT_CONFIG['reporter']; writes every callback to the recorder"""
    desc = 'recording reporter (verification harness)'

    def __init__(self, outstream, options):
        self.outstream = outstream

    def initialize(self, tasks, selected_tasks):
        _REC.ev(['initialize', [_REC.tid(t) for t in selected_tasks]])

    def get_status(self, task):
        _REC.ev(['get_status', _REC.tid(task)])

    def execute_task(self, task):
        _REC.ev(['execute', _REC.tid(task)])

    def add_failure(self, task, fail):
        _REC.ev(['failure', _REC.tid(task), _fail_kind(fail), type(fail).__name__])

    def add_success(self, task):
        _REC.ev(['success', _REC.tid(task)])

    def skip_uptodate(self, task):
        _REC.ev(['skip_uptodate', _REC.tid(task)])

    def skip_ignore(self, task):
        _REC.ev(['skip_ignore', _REC.tid(task)])

    def cleanup_error(self, exception):
        _REC.ev(['cleanup_error'])

    def runtime_error(self, msg):
        _REC.ev(['runtime_error', str(msg)[:200]])

    def teardown_task(self, task):
        _REC.ev(['teardown', _REC.tid(task)])

    def complete_run(self):
        _REC.ev(['complete'])


def _make_action(rec, n, t):
    """python-action of task n: start event, checkpoint, create targets, end event, then the oracle's outcome"""
    outcome, how = t['outcome'], t.get('how', 'return')
    targets = list(t['targets'])
    res = dict(t['calc_res']) if t.get('calc_res') is not None else {}
    as_str = bool(res.pop('as_str', False))

    def action():
        w = rec.who()
        rec.ev(['start', n, w])
        rec.checkpoint(n)
        for f in targets:
            with open(f, 'w') as fh:
                fh.write('made by %d\n' % n)
        rec.ev(['end', n, w])
        if outcome == 'ok':
            if as_str:
                return 'task %d says: %r' % (n, sorted(res))      # a str result: task.values stays empty
            val = {'v': n}
            val.update(res)
            return val
        from doit.exceptions import TaskFailed, TaskError
        if outcome == 'failed':
            if how == 'object':
                return TaskFailed('oracle says failed')
            return False
        if how == 'object':
            return TaskError('oracle says error')
        raise RuntimeError('oracle says error')
    action.__name__ = 'act_%d' % n
    return action


def _make_actions(rec, n, t):
    """the action list of task n.  Normally ONE python-action (_make_action).
    'calc_first': two -- the first records the start, passes the checkpoint and RETURNS the calc_res values (task.values is
    filled), the second creates the targets, records the end and produces the oracle's outcome; when that is failed /
    error the task fails with non-empty task.values, which doit still hands to the tasks that have it as calc_dep.
    'n_actions': k (2..3) -- action 0 records the start and passes the checkpoint; the DECIDING action (index 'fail_at'
    when the outcome is failed / error, else the last) creates the targets, records the end and produces the outcome
    (values incl. calc_res when ok); the actions between return partial values; an action after a failing deciding one
    must never run: it records a second start / end pair, which every monitor and the model reject."""
    if not t.get('calc_first') and not t.get('n_actions'):
        return [_make_action(rec, n, t)]
    outcome, how = t['outcome'], t.get('how', 'return')
    targets = list(t['targets'])
    res = dict(t['calc_res']) if t.get('calc_res') is not None else {}
    as_str = bool(res.pop('as_str', False))
    if t.get('calc_first'):
        k, calc_at, decide = 2, 0, 1
    else:
        k = int(t['n_actions'])
        decide = min(int(t.get('fail_at', k - 1)), k - 1) if outcome != 'ok' else k - 1
        calc_at = k - 1

    def produce():
        from doit.exceptions import TaskFailed, TaskError
        if outcome == 'failed':
            if how == 'object':
                return TaskFailed('oracle says failed')
            return False
        if how == 'object':
            return TaskError('oracle says error')
        raise RuntimeError('oracle says error')

    def make(i):
        def act():
            w = rec.who()
            if i == 0:
                rec.ev(['start', n, w])
                rec.checkpoint(n)
            if i > decide:
                rec.ev(['start', n, w])          # an action after the failing one: must never happen
                rec.ev(['end', n, w])
                return None
            val = {}
            if i == calc_at and not as_str:
                val.update(res)
            if i < decide:
                if as_str:
                    return None
                if i != calc_at:
                    val['v'] = -1 - i            # overwritten by the deciding action's value
                return val
            for f in targets:
                with open(f, 'w') as fh:
                    fh.write('made by %d\n' % n)
            rec.ev(['end', n, w])
            if outcome != 'ok':
                return produce()
            if as_str:
                return 'task %d says nothing' % n          # a str result: task.values stays empty
            val['v'] = n
            return val
        act.__name__ = ('calc_%d' if (t.get('calc_first') and i == 0) else 'act_%d') % n + ('_%d' % i if i else '')
        return act
    return [make(i) for i in range(k)]


def _make_teardown(rec, n, k=0):
    def teardown():
        if rec.td_events:
            rec.ev(['td_run', n, rec.who()] + ([k] if k else []))
    return teardown


def build_namespace(case, rec):
    """the dodo namespace of a case: ONE task-creator (a generator yielding dicts; plain tasks by 'basename',
    sub-tasks by 'basename' + 'name', which makes doit create the group task) + DOIT_CONFIG"""
    from doit.task import result_dep
    tasks = case['tasks']
    share = case.get('share') or {}
    share_attrs = set(share.get('attrs', ()))
    pool = {}

    def lst(k, values):
        """the list object given to doit for attribute k: a fresh copy, or (case['share']) ONE object for all tasks whose
        value is equal -- doit must not let one task's implicit additions leak into the others"""
        if k in share_attrs:
            return pool.setdefault((k, tuple(values)), list(values))
        return list(values)

    def dep_list(t):
        # patterns first: doit appends what they match AFTER the literal names
        return lst('task_dep', list(t.get('task_dep_wild') or ()) + list(t['task_dep']))

    def task_gen():
        late = {}      # group name -> [sub-tasks still to yield before the group's own dict, the dict]
        for n, t in enumerate(tasks):
            if t['kind'] == 'group':
                if t['task_dep'] or t.get('task_dep_wild'):
                    gd = {'basename': t['name'], 'name': None, 'task_dep': dep_list(t)}
                    if t.get('group_late'):
                        late[t['name']] = [int(t['group_late']), gd]
                    else:
                        yield gd
                continue
            for d in one_task(n, t):
                yield d
            if t['kind'] == 'sub' and t['group'] in late:
                late[t['group']][0] -= 1
                if late[t['group']][0] <= 0:
                    yield late.pop(t['group'])[1]
        for g in sorted(late):             # fewer sub-tasks than announced: at the end
            yield late[g][1]

    def one_task(n, t):
        if True:
            d = {'actions': _make_actions(rec, n, t)}
            if t['kind'] == 'sub':
                d['basename'] = t['group']
                d['name'] = t['name'].split(':', 1)[1]
            else:
                d['basename'] = t['name']
            for k in ('task_dep', 'setup', 'calc_dep', 'file_dep', 'targets'):
                if k == 'task_dep' and t.get('task_dep_wild'):
                    d[k] = dep_list(t)
                elif t[k] or (k in share_attrs and share.get('empty')):
                    d[k] = lst(k, t[k])
            upt = []
            if t['status'] == 'utd':
                if t.get('utd_how') == 'run_once' and case.get('history'):
                    from doit.tools import run_once
                    upt.append(run_once)      # executed by the pre-run of case['history'], up-to-date ever after
                else:
                    upt.append(True)
            for r in t['result_dep']:
                upt.append(result_dep(r))
            if upt:
                d['uptodate'] = upt
            if t['getargs']:
                d['getargs'] = {a: (src, key) for a, src, key in t['getargs']}
            if t['teardown']:
                d['teardown'] = [_make_teardown(rec, n, k) for k in range(int(t.get('n_teardown') or 1))]
            yield d
    return {'task_gen': task_gen,
            'DOIT_CONFIG': {'dep_file': 'db.json', 'backend': 'json', 'verbosity': 0, 'reporter': RecReporter}}


def argv_of(case):
    argv = ['run']
    if case.get('cont'):
        argv.append('--continue')
    if case.get('always'):
        argv.append('--always-execute')
    if case['runner'] != 'serial':
        argv += ['-n', str(case['nproc']), '-P', case['runner']]
    if case.get('sel') is not None:
        argv += list(case['sel'])
    return argv


class _Watchdog(BaseException):
    pass


_EP_CACHE = {}


def _cache_entry_points():
    """doit scans the installed distributions for plugin entry points three times per command (~10 ms each, 80% of an
    in-process run).  The answer cannot change during a check: memoise importlib.metadata.entry_points (stdlib, not
    doit) per process."""
    import importlib.metadata as md
    if getattr(md.entry_points, '_verif_cached', False):
        return
    orig = md.entry_points

    def entry_points(**kw):
        key = tuple(sorted(kw.items()))
        if key not in _EP_CACHE:
            _EP_CACHE[key] = orig(**kw)
        return _EP_CACHE[key]
    entry_points._verif_cached = True
    md.entry_points = entry_points


def _alarm(_sig, _frm):
    raise _Watchdog()


def canonical_trace(raw, runner):
    """raw recorder events -> canonical trace (see module docstring)"""
    out = []
    for e in raw:
        k = e[0]
        if k in ('get_status', 'skip_ignore', 'skip_uptodate', 'success'):
            out.append([k, e[1]])
        elif k in ('execute', 'teardown'):
            if runner != 'process':
                out.append([k, e[1]])
        elif k == 'failure':
            out.append([k, e[1], e[2]])
        elif k in ('start', 'end'):
            out.append([k, e[1], e[2]])
        elif k == 'runtime_error':
            out.append(['runtime_error'])
        elif k == 'complete':
            out.append(['complete'])
        elif k == 'cleanup_error':
            out.append(['cleanup_error'])
    return out


def classify_err(exc, stderr_text):
    """None | 'cyclic' | 'crash:<Type>' | 'deadlock' | 'not-found' | 'invalid'   from an escaped exception / stderr"""
    if exc is not None:
        if isinstance(exc, (SchedDeadlock, _Watchdog)):
            return 'deadlock'
        return 'crash:%s' % type(exc).__name__
    if 'Traceback (most recent call last)' in stderr_text:
        last = [l for l in stderr_text.strip().split('\n') if l and not l.startswith(' ')]
        name = last[-1].split(':')[0].strip() if last else 'Exception'
        name = name.split('.')[-1]
        if name in ('SchedDeadlock', '_Watchdog'):
            return 'deadlock'
        return 'crash:%s' % name
    if 'Cyclic/recursive dependencies' in stderr_text:
        return 'cyclic'
    if 'ERROR:' in stderr_text:
        if 'not_found' in stderr_text or 'Invalid parameter' in stderr_text or 'is not a task/target' in stderr_text \
                or 'must be a sub-command' in stderr_text or 'No task' in stderr_text:
            return 'not-found'
        return 'invalid'
    return None


def _prepare_fs(case):
    """scratch dir content before the measured run: every target file exists (a consumer's get_status then sees a
    changed file_dep -> run, not an error), tasks marked ignored through the dep-manager API"""
    for t in case['tasks']:
        for f in t['targets']:
            with open(f, 'w') as fh:
                fh.write('initial\n')
    ign = [t['name'] for t in case['tasks'] if t['ignored']]
    if ign:
        from doit.dependency import Dependency, JsonDB

        class _Stub(object):
            def __init__(self, name):
                self.name = name
        dm = Dependency(JsonDB, 'db.json')
        for name in ign:
            dm.ignore(_Stub(name))
        dm.close()


def _reap_children():
    """after an aborted process-mode run doit's worker processes may still sit in job_q.get(): kill them (they would
    also make the interpreter hang at exit, multiprocessing joins its children there)"""
    import multiprocessing
    for p in multiprocessing.active_children():
        try:
            p.terminate()
            p.join(1)
            if p.is_alive():
                p.kill()
                p.join(1)
        except Exception:  # noqa
            pass


class HistoryMismatch(Exception):
    """the pre-run of case['history'] did not leave the DB state the case declares (a case the generator must not
    produce; shrink candidates that break the declaration are rejected through this exception)"""


def _history_prerun(case):
    """case['history'] = {'prerun_sel': [names]}: an EARLIER `doit run <prerun_sel>` of the same dodo on the same DB
    (serial, own silent recorder, output discarded) before the measured run.  Every task with status 'utd' and
    'utd_how': 'run_once' must be executed successfully by it: its values (incl. its calc result) are then in the DB
    and run_once answers up-to-date in the measured run."""
    from doit.doit_cmd import DoitMain
    from doit.cmd_base import ModuleTaskLoader
    global _REC
    names = [t['name'] for t in case['tasks']]
    want = saved_values_tasks(case)
    sel = [x for x in (case['history'].get('prerun_sel') or []) if x in names]
    if not want or not sel:
        raise HistoryMismatch('history without a run_once task / pre-run selection')
    rec0 = Recorder('mem', names)
    _REC = rec0
    o, e = sys.stdout, sys.stderr
    sys.stdout, sys.stderr = io.StringIO(), io.StringIO()
    try:
        try:
            DoitMain(ModuleTaskLoader(build_namespace(case, rec0))).run(['run'] + sel)
        except BaseException:  # noqa
            pass
    finally:
        sys.stdout, sys.stderr = o, e
        _REC = None
    done = set(names[x[1]] for x in rec0.all() if x[0] == 'success' and isinstance(x[1], int))
    if not want <= done:
        raise HistoryMismatch('pre-run did not execute %s successfully' % sorted(want - done))


def run_impl(case, watchdog=None, keep_raw=True):
    """Run the real doit on the case (in-process, scratch dir, json backend) and return the observables (OBS)."""
    common.use_repo()
    from doit.doit_cmd import DoitMain
    from doit.cmd_base import ModuleTaskLoader
    global _REC
    _cache_entry_points()
    runner = case['runner']
    if watchdog is None:
        watchdog = 8.0 if runner == 'process' else 16.0
    names = [t['name'] for t in case['tasks']]
    t0 = time.time()
    old_out, old_err = sys.stdout, sys.stderr
    out, err = io.StringIO(), io.StringIO()
    exc = None
    code = None
    sched = None
    ctl = None
    restore = None
    old_handler = None
    use_alarm = threading.current_thread() is threading.main_thread()
    with common.in_scratch('run'):
        rec = Recorder('file' if runner == 'process' else 'mem', names, path=os.path.abspath('events.jsonl'))
        rec.td_events = bool(case.get('td_events'))
        _REC = rec
        try:
            _prepare_fs(case)
            if case.get('history'):
                _history_prerun(case)
                _REC = rec
            ns = build_namespace(case, rec)
            if runner == 'thread':
                sched = Sched(make_policy(case.get('policy')), script=case.get('schedule'), watchdog=watchdog / 2)
                rec.sched = sched
                restore = install_thread_scheduler(sched)
            elif runner == 'process':
                restore = install_process_counter(rec)
                ctl = TokenController(rec.path, case['nproc'], seed=(case.get('policy') or {}).get('seed', 0),
                                      script=case.get('schedule'))
                ctl.start()
            if use_alarm:
                old_handler = signal.signal(signal.SIGALRM, _alarm)
                signal.setitimer(signal.ITIMER_REAL, watchdog)
            sys.stdout, sys.stderr = out, err
            try:
                code = DoitMain(ModuleTaskLoader(ns)).run(argv_of(case))
            except SystemExit as e:
                code = e.code if isinstance(e.code, int) else 3
            except BaseException as e:  # noqa  -- a crash of doit is data
                exc = e
        finally:
            if use_alarm:
                signal.setitimer(signal.ITIMER_REAL, 0)
                if old_handler is not None:
                    signal.signal(signal.SIGALRM, old_handler)
            sys.stdout, sys.stderr = old_out, old_err
            if restore:
                restore()
            if sched is not None:
                sched.close()
            schedule = None
            if ctl is not None:
                schedule = ctl.stop()
            if runner == 'process':
                _reap_children()
            raw = rec.all()
            rec.close()
            _REC = None
    stderr_text = err.getvalue()
    obs = {'trace': canonical_trace(raw, runner), 'exit': code, 'err': classify_err(exc, stderr_text),
           'stderr': stderr_text[-600:], 'ms': round((time.time() - t0) * 1000, 2),
           'stdout_end': out.getvalue()[-600:]}       # (added, C19 r6) the process' stdout when the command returned
    if exc is not None and not isinstance(exc, (SchedDeadlock, _Watchdog)):
        obs['exc'] = ''.join(traceback.format_exception_only(type(exc), exc))[-300:]
    for e in raw:
        if e[0] == 'initialize':
            obs['selected'] = e[1]      # TaskControl.selected_tasks as handed to the reporter (effective selection)
            break
    if keep_raw:
        obs['raw'] = raw
    if sched is not None:
        obs['schedule'] = list(sched.decisions)
        obs['sched'] = {'decisions': len(sched.decisions), 'options': list(sched.options), 'alts': list(sched.alts),
                        'script_miss': sched.script_miss, 'switches': sched.switches,
                        'dead': sched.dead, 'overlap': sched.overlap_seen, 'workers': sched.nworkers}
    elif schedule is not None:
        obs['schedule'] = schedule
    return obs


# ======================================================================================================
# 3. deterministic scheduler for the real MThreadRunner
# ======================================================================================================

class SchedDeadlock(BaseException):
    """raised in the main thread when no thread is enabled (or the watchdog fired); BaseException so that doit's
    `except Exception` clauses do not swallow it"""


class _Abandon(BaseException):
    """raised inside a parked worker thread when the scheduler is closed"""


READY = ('ready',)
RUN = ('run',)
DONE = ('done',)


class Sched(object):
    """Exactly one of {main 'M', workers 0..k-1} runs at any time.  A thread gives up the baton only inside
    `switch()` (called from queue put/get, Child.start/join, the actions' checkpoint and at thread end); the next
    thread is chosen by `policy(enabled, sched)` among the enabled ones (a thread blocked in get() on an empty queue,
    or joining a live thread, is not enabled).  Only points with more than one enabled thread are decisions; they are
    recorded in `decisions` (replay: pass them as `script`)."""

    def __init__(self, policy, script=None, watchdog=10.0):
        self.policy = policy
        self.script = list(script) if script else []
        self.script_pos = 0
        self.script_miss = 0
        self.watchdog = watchdog
        self.sems = {MAIN: threading.Semaphore(0)}
        self.state = {MAIN: RUN}
        self.order = [MAIN]
        self.parked_at = {MAIN: 0}
        self.tick = 0
        self.decisions = []
        self.options = []        # number of enabled threads at each decision
        self.alts = []           # the enabled threads at each decision
        self.switches = 0
        self.dead = False
        self.closed = False
        self.nworkers = 0
        self.in_action = set()   # workers currently between start and end of an action (at a checkpoint)
        self.overlap_seen = False
        self.mutex = threading.Lock()

    # -- identity
    @staticmethod
    def me():
        return getattr(threading.current_thread(), '_sched_id', MAIN)

    def new_worker(self):
        idx = self.nworkers
        self.nworkers += 1
        self.sems[idx] = threading.Semaphore(0)
        self.state[idx] = ('new',)
        self.order.append(idx)
        self.parked_at[idx] = 0
        return idx

    # -- core
    def enabled(self):
        out = []
        for t in self.order:
            st = self.state[t]
            k = st[0]
            if k == 'ready':
                out.append(t)
            elif k == 'get':
                if st[1].items:
                    out.append(t)
            elif k == 'join':
                if self.state[st[1]][0] == 'done':
                    out.append(t)
        return out

    def pick(self, en):
        if len(en) == 1:
            return en[0]
        choice = None
        if self.script_pos < len(self.script):
            cand = self.script[self.script_pos]
            self.script_pos += 1
            if cand in en:
                choice = cand
            else:
                self.script_miss += 1
        if choice is None:
            choice = self.policy(en, self)
        self.decisions.append(choice)
        self.options.append(len(en))
        alts = getattr(self.policy, 'alts', None)
        self.alts.append(list(alts(en, self)) if alts else list(en))
        return choice

    def switch(self, newstate):
        """the calling thread parks in `newstate`; returns when it is chosen to run again"""
        me = self.me()
        if self.closed or self.dead:
            if me != MAIN:
                raise _Abandon()
            raise SchedDeadlock('scheduler closed')
        self.switches += 1
        self.tick += 1
        self.parked_at[me] = self.tick
        self.state[me] = newstate
        en = self.enabled()
        if not en:
            self.dead = True
            if me == MAIN:
                self.state[me] = RUN
                raise SchedDeadlock('no thread enabled')
            self.sems[MAIN].release()
            if newstate is DONE:
                return
            self._wait(me)
            return
        nxt = self.pick(en)
        self.state[nxt] = RUN
        if nxt == me:
            return
        self.sems[nxt].release()
        if newstate is DONE:
            return
        self._wait(me)

    def _wait(self, me):
        ok = self.sems[me].acquire(timeout=self.watchdog if me == MAIN else self.watchdog * 3)
        if me == MAIN:
            if self.dead or self.closed:
                self.state[me] = RUN
                raise SchedDeadlock('no thread enabled')
            if not ok:
                self.dead = True
                self.state[me] = RUN
                raise SchedDeadlock('watchdog')
        else:
            if self.closed or self.dead or not ok:
                raise _Abandon()

    def checkpoint(self):
        me = self.me()
        if me == MAIN:
            return
        if self.in_action:
            self.overlap_seen = True
        self.in_action.add(me)
        try:
            self.switch(READY)
        finally:
            self.in_action.discard(me)

    def close(self):
        """abandon every parked worker (daemon threads): they wake up, see `closed` and unwind"""
        self.closed = True
        for t, sem in self.sems.items():
            if t != MAIN:
                sem.release()


class GatedQueue(object):
    """queue.Queue replacement: put and get are switch points; get blocks (is not enabled) while empty"""

    def __init__(self, sched):
        self.sched = sched
        self.items = deque()

    def put(self, item):
        self.items.append(item)
        self.sched.switch(READY)

    def get(self):
        self.sched.switch(('get', self))
        return self.items.popleft()

    def empty(self):
        return not self.items


class GatedThread(object):
    """Thread replacement (MThreadRunner.Child): start() is a switch point with a handshake -- the parent continues
    only after the child has parked at its first gate"""

    def __init__(self, sched, target=None, args=(), kwargs=None):
        self.sched = sched
        self.target = target
        self.args = args
        self.kwargs = kwargs or {}
        self.idx = sched.new_worker()
        self.parked = threading.Event()
        self.thread = threading.Thread(target=self._run, name='W%d' % self.idx)
        self.thread.daemon = True
        self.thread._sched_id = self.idx

    def _run(self):
        s = self.sched
        try:
            s.state[self.idx] = READY
            self.parked.set()
            s._wait(self.idx)
            self.target(*self.args, **self.kwargs)
            s.switch(DONE)
        except _Abandon:
            pass
        except SchedDeadlock:
            pass

    def start(self):
        self.thread.start()
        if not self.parked.wait(self.sched.watchdog):
            raise SchedDeadlock('child did not park')
        self.sched.switch(READY)

    def join(self, timeout=None):
        if self.sched.state[self.idx][0] != 'done':
            self.sched.switch(('join', self.idx))

    def is_alive(self):
        return self.sched.state[self.idx][0] != 'done'


def install_thread_scheduler(sched):
    """replace MThreadRunner.Queue / .Child (class attributes of the real runner) by the gated versions;
    returns the function that restores them"""
    from doit import runner as R
    old_q = R.MThreadRunner.__dict__['Queue']
    old_c = R.MThreadRunner.__dict__['Child']
    R.MThreadRunner.Queue = staticmethod(lambda: GatedQueue(sched))
    R.MThreadRunner.Child = staticmethod(lambda target=None, args=(), kwargs=None: GatedThread(sched, target, args, kwargs))

    def restore():
        R.MThreadRunner.Queue = old_q
        R.MThreadRunner.Child = old_c
    return restore


# -- policies: (enabled list, sched) -> chosen thread id

def make_policy(desc):
    """desc: {'kind': ..., 'seed': int, 'i': int}.  Kinds: seeded, fifo (longest parked first), lifo (most recently
    parked first), starve (never worker i unless nothing else is enabled), main_last, main_first, first (lowest id;
    default fallback of scripts), script (pure replay of case['schedule'], then 'first')."""
    desc = desc or {'kind': 'seeded', 'seed': 0}
    kind = desc.get('kind', 'seeded')
    rng = random.Random(desc.get('seed', 0))
    if kind == 'seeded':
        return lambda en, s: rng.choice(en)
    if kind == 'fifo':
        return lambda en, s: min(en, key=lambda t: s.parked_at[t])
    if kind == 'lifo':
        return lambda en, s: max(en, key=lambda t: s.parked_at[t])
    if kind == 'starve':
        i = desc.get('i', 0)
        return lambda en, s: rng.choice([t for t in en if t != i] or en)
    if kind == 'main_last':
        return lambda en, s: rng.choice([t for t in en if t != MAIN] or en)
    if kind == 'main_first':
        return lambda en, s: MAIN if MAIN in en else rng.choice(en)
    if kind == 'eager':
        # completion-order exploration: everything that is not a worker parked inside an action runs first (main, then
        # idle workers by index), so every startable task has started before anything completes; the only real
        # choice -- and the only branching point for enumerate_schedules -- is WHICH running action completes next
        def alts(en, s):
            free = [t for t in en if t not in s.in_action]
            if free:
                return [MAIN] if MAIN in free else [min(free)]
            return list(en)

        def eager(en, s):
            return alts(en, s)[0]
        eager.alts = alts
        return eager
    return lambda en, s: en[0]     # 'first' / 'script'


POLICY_KINDS = ['seeded', 'seeded', 'seeded', 'fifo', 'lifo', 'starve', 'main_last', 'main_first']


def gen_policy(rng, nproc):
    kind = rng.choice(POLICY_KINDS)
    d = {'kind': kind, 'seed': rng.randrange(1 << 30)}
    if kind == 'starve':
        d['i'] = rng.randrange(max(1, nproc))
    return d


def enumerate_schedules(case, limit=500, on_obs=None, kind='eager'):
    """Exhaustive DFS over the scheduler's decision tree of a thread case (stateless model checking): every run replays
    a script prefix and then follows policy `kind` ('eager': branch only on which running action completes next =
    all completion orders under eager dispatch; 'first': branch on every switch = all interleavings, explodes beyond
    2 tasks); the alternatives recorded at each decision after the prefix are pushed for later runs.  Calls on_obs(case_with_schedule, obs) for each complete run.
    Returns (number of runs, exhausted?)."""
    stack = [[]]
    runs = 0
    while stack and runs < limit:
        prefix = stack.pop()
        c = dict(case)
        c['policy'] = {'kind': kind}
        c['schedule'] = prefix
        obs = run_impl(c, keep_raw=False)
        runs += 1
        dec = obs.get('schedule') or []
        alts = (obs.get('sched') or {}).get('alts') or []
        c['schedule'] = list(dec)
        if on_obs:
            on_obs(c, obs)
        for pos in range(len(dec) - 1, len(prefix) - 1, -1):
            for alt in alts[pos]:
                if alt != dec[pos]:
                    stack.append(dec[:pos] + [alt])
    return runs, not stack


# ======================================================================================================
# 4. process mode: worker identity and token controller
# ======================================================================================================

def install_process_counter(rec):
    """MRunner.Child replaced by a Process subclass that numbers the children in creation order (worker index seen by
    the actions).  The subclass compares equal to multiprocessing.Process so that MRunner's `self.Child == Process`
    tests keep choosing the process-mode code paths."""
    from doit import runner as R
    base = R.Process

    class _EqMeta(type):
        def __eq__(cls, other):
            return other is base or other is cls

        def __ne__(cls, other):
            return not (other is base or other is cls)

        __hash__ = type.__hash__

    class CountingProcess(base, metaclass=_EqMeta):
        created = 0

        def __init__(self, *a, **kw):
            base.__init__(self, *a, **kw)
            self._widx = CountingProcess.created
            CountingProcess.created += 1

        def run(self):
            rec.worker = self._widx
            base.run(self)

    old = R.MRunner.__dict__['Child']
    R.MRunner.Child = staticmethod(CountingProcess)

    def restore():
        R.MRunner.Child = old
    return restore


class TokenController(object):
    """Forces the completion order of a process-mode run.  Every action, after its start event, waits for a token file
    `go.<task id>`.  A controller (forked helper process: no thread in the main process, so doit's own fork()s stay
    safe) tails the event file and releases one token at a time: it picks -- by the case's rng, or the next entry of a
    replay script -- among the tasks that have started and are not released yet, then waits until the reporter (main
    process, same event file) has reported that task before releasing the next one.  The release order is the run's
    `schedule`."""

    def __init__(self, events_path, nproc, seed=0, script=None, settle=0.02, limit=15.0):
        self.events_path = events_path
        self.dir = os.path.dirname(events_path)
        self.nproc = nproc
        self.seed = seed
        self.script = list(script) if script else []
        self.settle = settle
        self.limit = limit
        self.pid = None

    def start(self):
        sys.stdout.flush()
        sys.stderr.flush()
        pid = os.fork()
        if pid:
            self.pid = pid
            return
        code = 0
        try:
            self._loop()
        except BaseException:  # noqa
            code = 1
        finally:
            os._exit(code)

    def _loop(self):
        rng = random.Random(self.seed)
        stop = os.path.join(self.dir, 'ctl.stop')
        relf = os.path.join(self.dir, 'ctl.released')
        pos = 0
        buf = b''
        started, released, reported = [], [], set()
        waiting_for, wait_since = None, 0
        last_change = time.time()
        deadline = time.time() + self.limit
        script = list(self.script)
        while time.time() < deadline and not os.path.exists(stop):
            try:
                with open(self.events_path, 'rb') as f:
                    f.seek(pos)
                    data = f.read()
            except OSError:
                data = b''
            if data:
                pos += len(data)
                buf += data
                lines = buf.split(b'\n')
                buf = lines.pop()
                for ln in lines:
                    try:
                        e = json.loads(ln)
                    except ValueError:
                        continue
                    if e[0] == 'start':
                        started.append(e[1])
                        last_change = time.time()
                    elif e[0] in ('success', 'failure'):
                        reported.add(e[1])
            now = time.time()
            if waiting_for is not None:
                if waiting_for in reported or now - wait_since > 3.0:
                    waiting_for = None
                    last_change = now
                else:
                    time.sleep(0.001)
                    continue
            pending = [t for t in started if t not in released]
            choice = None
            if pending:
                if script:
                    if script[0] in pending:
                        choice = script.pop(0)
                    elif now - last_change > 0.5:
                        script = []
                elif len(pending) >= self.nproc or now - last_change >= self.settle:
                    choice = rng.choice(sorted(pending))
            if choice is not None:
                with open(os.path.join(self.dir, 'go.%d' % choice), 'w'):
                    pass
                released.append(choice)
                with open(relf, 'a') as f:
                    f.write('%d\n' % choice)
                waiting_for, wait_since = choice, now
            else:
                time.sleep(0.001)

    def stop(self):
        """end the controller; returns the release order"""
        try:
            with open(os.path.join(self.dir, 'ctl.stop'), 'w'):
                pass
        except OSError:
            pass
        order = []
        if self.pid:
            end = time.time() + 2
            while time.time() < end:
                p, _ = os.waitpid(self.pid, os.WNOHANG)
                if p:
                    break
                time.sleep(0.001)
            else:
                try:
                    os.kill(self.pid, signal.SIGKILL)
                    os.waitpid(self.pid, 0)
                except OSError:
                    pass
        try:
            with open(os.path.join(self.dir, 'ctl.released')) as f:
                order = [int(x) for x in f.read().split()]
        except OSError:
            pass
        return order


# ======================================================================================================
# 5. shrinking and rendering
# ======================================================================================================

def _drop_task(case, name):
    """copy of the case without task `name` (and without its sub-tasks if it is a group); None if impossible"""
    c = json.loads(json.dumps({k: v for k, v in case.items() if k not in ('model', 'schedule')}))
    gone = {name}
    for t in c['tasks']:
        if t['kind'] == 'sub' and t['group'] == name:
            gone.add(t['name'])
    victim = [t for t in c['tasks'] if t['name'] == name]
    if not victim:
        return None
    if victim[0]['kind'] == 'sub':
        sibs = [t for t in c['tasks'] if t['kind'] == 'sub' and t['group'] == victim[0]['group'] and t['name'] != name]
        if not sibs:
            gone.add(victim[0]['group'])
    gone_files = set(f for t in c['tasks'] if t['name'] in gone for f in t['targets'])
    c['tasks'] = [t for t in c['tasks'] if t['name'] not in gone]
    if not c['tasks']:
        return None
    for t in c['tasks']:
        for k in ('task_dep', 'setup', 'calc_dep', 'result_dep'):
            t[k] = [x for x in t[k] if x not in gone]
        t['file_dep'] = [f for f in t['file_dep'] if f not in gone_files]
        t['getargs'] = [g for g in t['getargs'] if g[1] not in gone]
        if t['calc_res'] is not None:
            t['calc_res'] = dict(t['calc_res'],
                                 task_dep=[x for x in t['calc_res'].get('task_dep', []) if x not in gone],
                                 file_dep=[f for f in t['calc_res'].get('file_dep', []) if f not in gone_files],
                                 calc_dep=[x for x in t['calc_res'].get('calc_dep', []) if x not in gone])
            if 'setup' in t['calc_res']:
                t['calc_res']['setup'] = [x for x in t['calc_res']['setup'] if x not in gone]
    # a group entry must still sit right before its first sub-task
    fixed = []
    groups = {t['name']: t for t in c['tasks'] if t['kind'] == 'group'}
    seen = set()
    for t in c['tasks']:
        if t['kind'] == 'group':
            continue
        if t['kind'] == 'sub' and t['group'] not in seen:
            seen.add(t['group'])
            fixed.append(groups[t['group']])
        fixed.append(t)
    c['tasks'] = fixed
    if c.get('sel') is not None:
        c['sel'] = [s for s in c['sel'] if s not in gone and s not in gone_files]
        if not c['sel']:
            return None
    return c


def _variants(case):
    """smaller / simpler neighbours of a case, most aggressive first"""
    base = {k: v for k, v in case.items() if k not in ('model', 'schedule')}

    def clone():
        return json.loads(json.dumps(base))
    for t in case['tasks']:
        c = _drop_task(case, t['name'])
        if c is not None:
            yield c
    if case.get('sel') is not None:
        for i in range(len(case['sel'])):
            if len(case['sel']) > 1:
                c = clone()
                del c['sel'][i]
                yield c
    for i, t in enumerate(case['tasks']):
        for k in ('task_dep', 'setup', 'calc_dep', 'result_dep', 'file_dep', 'getargs'):
            for j in range(len(t[k])):
                c = clone()
                del c['tasks'][i][k][j]
                yield c
        if t.get('calc_first'):
            c = clone()
            del c['tasks'][i]['calc_first']
            yield c
        for k in ('n_actions', 'n_teardown', 'group_late'):
            if t.get(k):
                c = clone()
                del c['tasks'][i][k]
                c['tasks'][i].pop('fail_at', None) if k == 'n_actions' else None
                yield c
        for j in range(len(t.get('task_dep_wild') or ())):
            c = clone()
            del c['tasks'][i]['task_dep_wild'][j]
            yield c
        for k in ('uptodate', 'junk', 'setup', 'as_str'):
            if t['calc_res'] is not None and k in t['calc_res']:
                c = clone()
                del c['tasks'][i]['calc_res'][k]
                yield c
        if t['calc_res'] is not None:
            c = clone()
            c['tasks'][i]['calc_res'] = None
            yield c
            for k in ('task_dep', 'file_dep', 'calc_dep'):
                for j in range(len(t['calc_res'].get(k, []))):
                    c = clone()
                    del c['tasks'][i]['calc_res'][k][j]
                    yield c
        for k, v in (('ignored', False), ('teardown', False), ('outcome', 'ok'), ('status', 'run')):
            if t[k] != v:
                c = clone()
                c['tasks'][i][k] = v
                if k == 'status':
                    c['tasks'][i]['file_dep'] = [f for f in c['tasks'][i]['file_dep'] if not f.startswith('missing_')]
                yield c
        for f in list(t['targets']):
            if not any(f in x['file_dep'] for x in case['tasks']) and f not in (case.get('sel') or []):
                c = clone()
                c['tasks'][i]['targets'].remove(f)
                yield c
    for k in ('cont', 'always'):
        if case.get(k):
            c = clone()
            c[k] = False
            yield c
    if case['runner'] != 'serial' and case['nproc'] > 1:
        c = clone()
        c['nproc'] = case['nproc'] - 1
        yield c
    if case['runner'] != 'serial':
        c = clone()
        c['runner'], c['nproc'] = 'serial', 0
        yield c


def shrink(case, still_fails, max_tests=150, max_seconds=20.0):
    """delta debugging: greedily move to a smaller neighbour (drop a task / an edge / an oracle feature / a selection
    entry / a flag / a worker) while `still_fails(candidate)` holds.  Candidates carry a fresh 'model'."""
    cur = case
    tests = 0
    t0 = time.time()
    progress = True
    while progress and tests < max_tests and time.time() - t0 < max_seconds:
        progress = False
        for cand in _variants(cur):
            if tests >= max_tests or time.time() - t0 > max_seconds:
                break
            try:
                cand['model'] = expand(cand)
            except Exception:  # noqa
                continue
            tests += 1
            ok = False
            try:
                ok = bool(still_fails(cand))
            except Exception:  # noqa
                ok = False
            if ok:
                cur = cand
                progress = True
                break
    return cur


def render(case):
    """human readable dodo-like text of a case"""
    lines = []
    for n, t in enumerate(case['tasks']):
        if t['kind'] == 'group':
            extra = (' task_dep=%s' % (list(t.get('task_dep_wild') or ()) + t['task_dep'])) \
                if (t['task_dep'] or t.get('task_dep_wild')) else ''
            if t.get('group_late'):
                extra += ' (group attributes yielded after %d sub-tasks)' % t['group_late']
            lines.append('#%d %-8s (group task; no actions)%s%s' % (n, t['name'], extra,
                                                                     '  [IGNORED]' if t['ignored'] else ''))
            continue
        parts = []
        for k in ('task_dep', 'setup', 'calc_dep', 'result_dep', 'file_dep', 'targets'):
            if k == 'task_dep' and t.get('task_dep_wild'):
                parts.append('task_dep=%s' % (list(t['task_dep_wild']) + t[k]))
            elif t[k]:
                parts.append('%s=%s' % (k, t[k]))
        if t.get('n_actions'):
            parts.append('actions=%d%s' % (t['n_actions'], (' (fails in #%d)' % t['fail_at']) if 'fail_at' in t and
                                           t['outcome'] != 'ok' else ''))
        if t.get('n_teardown'):
            parts.append('teardown_callables=%d' % t['n_teardown'])
        if t['getargs']:
            parts.append('getargs={%s}' % ', '.join('%s: (%s, %s)' % tuple(g) for g in t['getargs']))
        if t['status'] == 'utd':
            parts.append('uptodate=[run_once]' if (t.get('utd_how') == 'run_once' and case.get('history'))
                         else 'uptodate=[True]')
        orc = []
        if t['status'] == 'error':
            orc.append('get_status=error')
        if t['ignored']:
            orc.append('IGNORED')
        if t['outcome'] != 'ok':
            orc.append('action %s(%s)' % (t['outcome'], t['how']))
        if t['calc_res'] is not None:
            orc.append('%s returns %s' % ('FIRST of two actions' if t.get('calc_first') else 'action',
                                          {k: v for k, v in t['calc_res'].items() if v or k == 'uptodate'}))
        if t['teardown']:
            orc.append('teardown')
        lines.append('#%d %-8s %s%s' % (n, t['name'], ' '.join(parts), ('   [' + '; '.join(orc) + ']') if orc else ''))
    if case.get('history'):
        lines.append('$ doit run %s      # EARLIER run on the same DB (serial, not measured): saves the values of %s'
                     % (' '.join(case['history'].get('prerun_sel') or []), sorted(saved_values_tasks(case))))
    lines.append('$ doit ' + ' '.join(argv_of(case)))
    if case['runner'] == 'thread':
        lines.append('schedule policy: %s%s' % (case.get('policy'),
                                                '  script=%s' % case['schedule'] if case.get('schedule') else ''))
    elif case['runner'] == 'process' and case.get('schedule'):
        lines.append('token release order: %s' % case['schedule'])
    return '\n'.join(lines)


def render_trace(case, trace):
    names = [t['name'] for t in case['tasks']]

    def nm(x):
        return names[x] if isinstance(x, int) and 0 <= x < len(names) else str(x)
    out = []
    for e in trace:
        if e[0] in ('start', 'end'):
            out.append('%s(%s)@w%s' % (e[0], nm(e[1]), e[2]))
        elif e[0] == 'failure':
            out.append('failure(%s,%s)' % (nm(e[1]), e[2]))
        elif len(e) > 1:
            out.append('%s(%s)' % (e[0], nm(e[1])))
        else:
            out.append(e[0])
    return ' '.join(out)


# ======================================================================================================
# 6. python reference monitors (statements of C01 / C02 on an observed trace)
# ======================================================================================================

def _deps_at(model, case, trace, t, upto):
    """every task `t` depends on, as known at trace position `upto`: task_dep, setup, calc_dep, plus what calc_dep
    tasks that SUCCEEDED before `upto` delivered (transitively through delivered calc_deps)"""
    succeeded = set(e[1] for e in trace[:upto] if e[0] == 'success')
    deps = set(model['taskDep'][t]) | set(model['setup'][t]) | set(model['calcDep'][t])
    calc = set(model['calcDep'][t])
    idx = task_index(case)
    own = target_owner(case)
    done = set()
    todo = list(calc)
    while todo:
        c = todo.pop()
        if c in done:
            continue
        done.add(c)
        cr = case['tasks'][c].get('calc_res')
        if cr is None or cr.get('as_str') or c not in succeeded:
            continue
        for x in _res_task_ids(case, cr):
            deps.add(x)
        for f in cr.get('file_dep', []):
            if f in own:
                deps.add(own[f])
        for x in cr.get('calc_dep', []):
            deps.add(idx[x])
            todo.append(idx[x])
    deps.discard(-1)
    return deps


def py_monitor_c01(case, trace):
    """C01 on the implementation's trace.  Returns {'C01_order': bool, 'C01_no_overlap': bool, 'witness': {...}}.
    order: at every ["start",t,w] each dependency of t (see _deps_at) has a "success" or "skip_uptodate" earlier;
    no_overlap: while t runs (start..end) no dependency of t runs, and t does not start while a dependency runs."""
    model = case.get('model') or expand(case)
    res = {'C01_order': True, 'C01_no_overlap': True, 'witness': {}}
    finished = set()
    running = {}
    for i, e in enumerate(trace):
        k = e[0]
        if k in ('success', 'skip_uptodate'):
            finished.add(e[1])
        elif k == 'start':
            t = e[1]
            if not isinstance(t, int):
                continue
            deps = _deps_at(model, case, trace, t, i)
            for d in sorted(deps):
                if d not in finished and res['C01_order']:
                    res['C01_order'] = False
                    res['witness']['order'] = {'task': t, 'dep': d, 'index': i}
                if d in running and res['C01_no_overlap']:
                    res['C01_no_overlap'] = False
                    res['witness']['overlap'] = {'task': t, 'dep': d, 'index': i}
            for r in running:
                if t in _deps_at(model, case, trace, r, i) and res['C01_no_overlap']:
                    res['C01_no_overlap'] = False
                    res['witness']['overlap'] = {'task': r, 'dep': t, 'index': i}
            running[t] = i
        elif k == 'end':
            running.pop(e[1], None)
    return res


def closure_of(case, trace):
    """C02's closure, judged on the trace: least set containing the selection, closed under task_dep, calc_dep,
    results delivered by calc tasks that succeeded -- or that were executed and FAILED after task.values was filled
    (model['calcResFail']; doit hands task.values to the waiting tasks whatever the run_status) --, and under setup of
    the tasks whose first select answered `run` (a get_status report NOT immediately followed -- among reporter events
    -- by that task's skip/failure report)."""
    model = case.get('model') or expand(case)
    idx = task_index(case)
    own = target_owner(case)
    rep = [e for e in trace if e[0] in ('get_status', 'skip_ignore', 'skip_uptodate', 'failure', 'success')]
    said_run = set()
    for i, e in enumerate(rep):
        if e[0] == 'get_status':
            nxt = rep[i + 1] if i + 1 < len(rep) else None
            if not (nxt is not None and nxt[0] in ('skip_ignore', 'skip_uptodate', 'failure') and nxt[1] == e[1]):
                said_run.add(e[1])
    succeeded = set(e[1] for e in trace if e[0] == 'success')
    failed_run = _failed_runs(trace)
    res_fail = model.get('calcResFail') or [None] * model['n']
    # case['history']: an up-to-date task whose values an earlier run saved delivers them (select_task loads them)
    saved = saved_values_tasks(case)
    utd_saved = set(e[1] for e in trace if e[0] == 'skip_uptodate' and isinstance(e[1], int)
                    and case['tasks'][e[1]]['name'] in saved) if saved else set()
    clo = set()
    todo = [s for s in model['sel'] if s >= 0]
    calc_of = {}
    while todo:
        t = todo.pop()
        if t in clo:
            continue
        clo.add(t)
        new = list(model['taskDep'][t]) + list(model['calcDep'][t])
        if t in said_run:
            new += list(model['setup'][t])
        calcs = list(model['calcDep'][t])
        seen_c = set()
        while calcs:
            c = calcs.pop()
            if c in seen_c:
                continue
            seen_c.add(c)
            if c in failed_run and c not in succeeded and res_fail[c]:
                new += res_fail[c]['task'] + res_fail[c]['file'] + res_fail[c]['calc']
                calcs += res_fail[c]['calc']
                continue
            cr = case['tasks'][c].get('calc_res')
            if cr is None or cr.get('as_str') or not (c in succeeded or (c in utd_saved and model['calcRes'][c])):
                continue
            new += _res_task_ids(case, cr)
            new += [own[f] for f in cr.get('file_dep', []) if f in own]
            for x in cr.get('calc_dep', []):
                new.append(idx[x])
                calcs.append(idx[x])
        todo += new
    return clo


def py_monitor_c02(case, trace, exit_code, err):
    """C02 on the implementation's trace.  Returns {'C02_at_most_once', 'C02_inside_closure', 'C02_all_processed',
    'witness', 'closure', 'cut_short'}."""
    res = {'C02_at_most_once': True, 'C02_inside_closure': True, 'C02_all_processed': True, 'witness': {}}
    starts, terms = {}, {}
    for i, e in enumerate(trace):
        if e[0] == 'start':
            starts.setdefault(e[1], []).append(i)
        elif e[0] in TERMINAL:
            terms.setdefault(e[1], []).append(i)
    for t, l in sorted(starts.items(), key=lambda x: str(x[0])):
        if len(l) > 1:
            res['C02_at_most_once'] = False
            res['witness']['twice'] = {'task': t, 'event': 'start', 'at': l}
    for t, l in sorted(terms.items(), key=lambda x: str(x[0])):
        if len(l) > 1:
            res['C02_at_most_once'] = False
            res['witness']['twice'] = {'task': t, 'event': 'report', 'at': l}
    clo = closure_of(case, trace)
    res['closure'] = sorted(clo)
    for t in sorted(set(starts) | set(terms), key=str):
        if t not in clo:
            res['C02_inside_closure'] = False
            res['witness']['outside'] = {'task': t}
    failed = any(e[0] == 'failure' for e in trace)
    cut = (failed and not case.get('cont')) or err is not None or exit_code == 3 or exit_code is None \
        or any(e[0] == 'runtime_error' for e in trace)
    res['cut_short'] = bool(cut)
    if not cut:
        for t in sorted(clo):
            if len(terms.get(t, [])) != 1:
                res['C02_all_processed'] = False
                res['witness']['unprocessed'] = {'task': t, 'reports': len(terms.get(t, []))}
                break
    return res


# ======================================================================================================
# 7. Lean side
# ======================================================================================================

def model_request(case, obs, op='accept'):
    m = case.get('model') or expand(case)
    req = {'model': 'run', 'op': op}
    req.update(m)
    if obs.get('selected') is not None and all(isinstance(x, int) for x in obs['selected']) \
            and obs['selected'] != m['sel']:
        # the implementation's own selection step (M8, not M1) produced something else (known: a repeated name makes
        # _process_filter drop the rest): M1 is compared on the selection the runner really got
        req['sel'] = list(obs['selected'])
        req['selFromImpl'] = True
    req['trace'] = obs['trace']
    req['exit'] = obs['exit'] if obs['exit'] is not None else -1
    req['err'] = obs['err']
    return req


def ask_model(pairs, op='accept'):
    """pairs: [(case, obs)] -> list of answers of the Lean driver (same order).  An answer {'error': ...} means the
    driver has no handler (yet) / rejected the request: callers count it as 'driver_unavailable', never as a
    divergence."""
    reqs = [model_request(c, o, op) for c, o in pairs]
    if not reqs:
        return []
    try:
        return common.drv_batch(reqs)
    except Exception as ex:  # noqa
        return [{'error': 'driver failed: %s' % str(ex)[:200]} for _ in reqs]


# ======================================================================================================
# 8. engine shared by the property modules of the run family
# ======================================================================================================

MONITOR_KEYS = {'C01': ['C01_order', 'C01_no_overlap'],
                'C02': ['C02_at_most_once', 'C02_inside_closure', 'C02_all_processed']}


def py_monitors(case, obs):
    m1 = py_monitor_c01(case, obs['trace'])
    m2 = py_monitor_c02(case, obs['trace'], obs['exit'], obs['err'])
    flags = {k: v for k, v in list(m1.items()) + list(m2.items()) if k.startswith('C0')}
    wit = {}
    wit.update(m1['witness'])
    wit.update(m2['witness'])
    return flags, wit, m2['closure']


def dup_selection_truncated(case):
    """index j such that sel[j] is the second occurrence of a task NAME and entries follow it (doit drops sel[j+1:]:
    open finding dup-selection-truncates); None otherwise"""
    sel = case.get('sel')
    if not sel:
        return None
    names = task_index(case)
    seen = set()
    for j, s in enumerate(sel):
        if s in names:
            if s in seen:
                return j if j + 1 < len(sel) else None
            seen.add(s)
    return None


def sig_dup_selection(witness):
    """SIGNATURE of the open finding `dup-selection-truncates`: the only failed monitor is C02_all_processed, the
    selection repeats a task name before further entries, and evaluated against the selection truncated after the
    repetition (what _process_filter really hands on) the same trace satisfies C02 completely"""
    case = witness.get('case') or {}
    if witness.get('failed_monitors') != ['C02_all_processed']:
        return False
    j = dup_selection_truncated(case)
    if j is None:
        return False
    c2 = dict(case)
    c2['sel'] = case['sel'][:j + 1]
    c2['model'] = expand(c2)
    m = py_monitor_c02(c2, witness.get('trace') or [], witness.get('exit'), witness.get('err'))
    return m['C02_at_most_once'] and m['C02_inside_closure'] and m['C02_all_processed']


def strip_calc_wildcards(case):
    """the case as doit really treats it: wildcard entries of delivered task_deps removed"""
    c = json.loads(json.dumps({k: v for k, v in case.items() if k != 'model'}))
    hit = False
    for t in c['tasks']:
        cr = t.get('calc_res')
        if cr and any('*' in x for x in cr.get('task_dep', [])):
            cr['task_dep'] = [x for x in cr['task_dep'] if '*' not in x]
            hit = True
    if not hit:
        return None
    c['model'] = expand(c)
    return c


def sig_calc_wild_dropped(witness):
    """SIGNATURE of the finding `calc-wild-dep-dropped` (fixed upstream, bf53535; kept to name it in replays): a calc result of the case delivers a task_dep with `*`,
    and judged against the case WITHOUT those entries (what doit does: the pattern lands in Task.wild_dep, which is
    only expanded at start-up) the same trace satisfies every C01 and C02 monitor"""
    c2 = strip_calc_wildcards(witness.get('case') or {})
    if c2 is None:
        return False
    tr = witness.get('trace') or []
    m1 = py_monitor_c01(c2, tr)
    m2 = py_monitor_c02(c2, tr, witness.get('exit'), witness.get('err'))
    return bool(m1['C01_order'] and m1['C01_no_overlap'] and m2['C02_at_most_once'] and m2['C02_inside_closure']
                and (m2['C02_all_processed'] or witness.get('err') is not None))


def known_sig(witness):
    return (bool(sig_dup_selection(witness)), bool(sig_calc_wild_dropped(witness)))


def make_witness(case, obs, failed, py, lean, detail):
    return {'case': {k: v for k, v in case.items() if k != 'model'} | {'schedule': obs.get('schedule')},
            'rendered': render(case).split('\n'), 'trace': obs['trace'], 'trace_text': render_trace(case, obs['trace']),
            'exit': obs['exit'], 'err': obs['err'], 'stderr': obs.get('stderr', '')[-300:],
            'failed_monitors': sorted(failed), 'python_monitors': py, 'lean_monitors': lean, 'detail': detail}


def judge(prop, case, obs, ans, st, shrink_left):
    """apply the decision rules to one (case, observation, driver answer); returns the number of shrink runs used"""
    keys = MONITOR_KEYS[prop]
    py, pywit, pyclo = py_monitors(case, obs)
    st.traces += 1
    lean = None
    sel_impl = obs.get('selected') is not None and obs.get('selected') != (case.get('model') or {}).get('sel')
    if sel_impl:
        st.count('sel_differs_from_impl')
    if ans is None or 'error' in ans:
        st.count('driver_unavailable')
    else:
        lean = ans.get('monitor') or {}
        if ans.get('skipped'):
            st.count('model_search_skipped')
        for k, v in (ans.get('hyp') or {}).items():
            st.count('hyp:%s=%s' % (k, v))
        st.count('model:accepted' if ans.get('accepted') else 'model:rejected')
    failed = [k for k in keys if not py.get(k, True) or (lean is not None and not lean.get(k, True))]
    # a crash / hang of the runner on an acyclic graph cuts the run short illegitimately
    if prop == 'C02' and obs['err'] is not None and obs['err'] != 'not-found' and not failed:
        m = case.get('model') or expand(case)
        if not (obs['err'] == 'cyclic' and not is_acyclic(dynamic_edges(_all_deliver(m, case)))):
            failed = ['C02_all_processed']
            pywit['aborted'] = obs['err']
    used = 0
    if failed:
        first = failed[0]
        wit0 = make_witness(case, obs, failed, py, lean, pywit)
        known0 = known_sig(wit0)

        def still(c):
            try:
                o = run_impl(c, keep_raw=False)
            except HistoryMismatch:
                return False          # the shrunk candidate no longer has its earlier run: not a candidate
            p, w, _ = py_monitors(c, o)
            bad = [k for k in keys if not p.get(k, True)]
            if prop == 'C02' and o['err'] is not None and o['err'] not in ('not-found',) and obs['err'] == o['err']:
                bad = bad or ['C02_all_processed']
            if first not in bad:
                return False
            return known_sig(make_witness(c, o, bad, p, None, w)) == known0
        small = case
        if shrink_left > 0 and (not py.get(first, True) or obs['err']):
            t0 = time.time()
            base = dict(case)
            base.pop('schedule', None)
            small = shrink(base, still, max_tests=120, max_seconds=min(15.0, shrink_left))
            used = time.time() - t0
        try:
            o2 = run_impl(small, keep_raw=False)
        except HistoryMismatch:
            small, o2 = case, obs
        p2, w2, _ = py_monitors(small, o2)
        bad2 = [k for k in keys if not p2.get(k, True)]
        if obs['err'] and o2['err'] == obs['err'] and not bad2 and prop == 'C02':
            bad2 = ['C02_all_processed']
            w2['aborted'] = o2['err']
        if bad2:
            l2 = None
            a2 = ask_model([(small, o2)])[0]
            if 'error' not in a2:
                l2 = a2.get('monitor')
            wit = make_witness(small, o2, bad2, p2, l2, w2)
        else:
            wit = wit0      # the shrunk case does not reproduce deterministically: report the original
        st.violation(wit, 'monitor:' + ','.join(wit['failed_monitors']),
                     '%s false on the implementation trace (%s)' % (wit['failed_monitors'], wit['detail']))
        st.count('violation_found')
        return used
    if sel_impl:
        st.divergence(make_witness(case, obs, [], py, lean, {'selected_by_impl': obs.get('selected'),
                                                             'selected_by_harness': (case.get('model') or {}).get('sel')}),
                      'selection (M8): TaskControl.selected_tasks differs from the harness\' own resolution of the command line')
        return used
    if lean is not None:
        disagree = [k for k in keys if py.get(k, True) != lean.get(k, True)]
        if prop == 'C02' and not sel_impl and ans.get('closure') is not None \
                and sorted(ans['closure']) != sorted(pyclo) and obs['err'] is None \
                and (case.get('cont') or not any(e[0] == 'failure' for e in obs['trace'])):
            # (compared on complete runs only: in a run cut short the oracle-based closure of the model may contain
            # setup-tasks of tasks the implementation never got to ask for their status)
            disagree.append('closure(lean=%s,python=%s)' % (sorted(ans['closure']), sorted(pyclo)))
        if disagree:
            st.divergence(make_witness(case, obs, disagree, py, lean, pywit),
                          'python and Lean monitors disagree on %s' % disagree)
        elif not ans.get('accepted') and not ans.get('skipped'):
            w = make_witness(case, obs, [], py, lean, {})
            w['matched'] = ans.get('matched')
            w['expected'] = ans.get('expected')
            w['request'] = model_request(case, obs)
            st.divergence(w, 'correspondence M1: model cannot produce the implementation trace; matched %s events, '
                             'next impl events %s, model could emit %s'
                          % (ans.get('matched'), obs['trace'][ans.get('matched') or 0:(ans.get('matched') or 0) + 2],
                             ans.get('expected')))
    return used


def run_checked(case, st=None):
    """run_impl, repeated once when doit crashed before the first event: a deterministic crash of doit reproduces (and
    is reported); a transient failure of the environment (e.g. the harness source being rewritten while
    inspect.getsourcelines reads it, EMFILE on a loaded machine) does not and is only counted"""
    try:
        obs = run_impl(case, keep_raw=False)
    except HistoryMismatch as ex:
        # a generator / seed error, made loud: judged as an aborted run
        if st is not None:
            st.count('history:prerun_mismatch_MACHINERY')
        return {'trace': [], 'exit': None, 'err': 'history-mismatch', 'stderr': str(ex), 'ms': 0.0}
    if obs['err'] and obs['err'].startswith('crash:') and not obs['trace']:
        again = run_impl(case, keep_raw=False)
        if again['err'] != obs['err']:
            if st is not None:
                st.count('transient_crash_not_reproduced:%s' % obs['err'])
            return again
    return obs


def eval_batch(batch):
    """worker for common.pmap.  batch = {'prop': 'C01'|'C02', 'cases': [case...]} and/or
    {'gen': [(seed, knobs)...]} and/or {'exhaustive': [case...], 'limit': int}; optional 'deadline' (absolute time): generated
    cases not started by then are skipped and counted (corpus seeds always run).  Returns common.WorkerStats."""
    st = common.WorkerStats()
    prop = batch['prop']
    common.use_repo()
    pairs = []
    deadline = batch.get('deadline')

    def late():
        if deadline is not None and time.time() > deadline:
            st.count('not_run_budget_exhausted')
            return True
        return False
    for c in batch.get('cases', []):
        c = dict(c)
        c['model'] = expand(c)
        pairs.append((c, run_checked(c, st)))      # corpus seeds always run
    for seed, knobs in batch.get('gen', []):
        if late():
            continue
        rng = random.Random(seed)
        knobs = dict(knobs)
        pol = knobs.pop('gen_policy', False)
        big = knobs.pop('bigcase', None)
        c = gen_scale_case(rng, runner=knobs.get('runner', 'thread'), **big) if big is not None else gen_case(rng, **knobs)
        if pol and c['runner'] == 'thread':
            c['policy'] = gen_policy(rng, c['nproc'])
        c['seed'] = seed
        pairs.append((c, run_checked(c, st)))
    for c in batch.get('exhaustive', []):
        if late() and not c.get('corpus'):
            continue
        c = dict(c)
        c['model'] = expand(c)
        got = []
        runs, done = enumerate_schedules(c, limit=batch.get('limit', 64), on_obs=lambda cc, oo: got.append((cc, oo)))
        st.count('exhaustive:dags')
        st.count('exhaustive:schedules', runs)
        if not done:
            st.count('exhaustive:truncated')
        pairs += got
    answers = ask_model(pairs)
    shrink_left = batch.get('shrink_s', 20.0)
    for (c, o), a in zip(pairs, answers):
        st.case({'case': render(c).split('\n'), 'schedule': o.get('schedule')}, nontrivial(c, o))
        count_case(st, c, o)
        if len(st.violations) >= 2:
            shrink_left = 0        # shrink the first two failing cases of a batch, report the others as found
        if len(st.violations) >= 4:
            st.count('not_judged_after_4_violations_in_batch')
            continue
        shrink_left -= judge(prop, c, o, a, st, shrink_left)
    return st


def fork_map(func, items, procs=4):
    """like common.pmap but with plain (non-daemonic) forked children, so that func may itself start
    multiprocessing workers (process-mode runs of doit).  Results come back pickled through pipes."""
    import pickle
    import select
    items = list(items)
    if len(items) <= 1 or procs <= 1:
        return [func(it) for it in items]
    results = [None] * len(items)
    pending = list(enumerate(items))
    running = {}
    while pending or running:
        while pending and len(running) < procs:
            i, it = pending.pop(0)
            r, w = os.pipe()
            sys.stdout.flush()
            sys.stderr.flush()
            pid = os.fork()
            if pid == 0:
                code = 0
                try:
                    os.close(r)
                    try:
                        payload = ('ok', func(it))
                    except BaseException:  # noqa
                        payload = ('exc', traceback.format_exc())
                    with os.fdopen(w, 'wb') as f:
                        pickle.dump(payload, f)
                except BaseException:  # noqa
                    code = 1
                finally:
                    os._exit(code)
            os.close(w)
            running[r] = (i, pid, [])
        # drain the pipes BEFORE reaping: a child whose pickled result is larger than the pipe buffer blocks in
        # write() until somebody reads, so waiting for its exit first deadlocks
        ready, _, _ = select.select(list(running), [], [], 1.0)
        for r in ready:
            chunk = os.read(r, 1 << 16)
            i, pid, chunks = running[r]
            if chunk:
                chunks.append(chunk)
                continue
            os.close(r)                    # EOF: the child has written everything (or died)
            del running[r]
            try:
                os.waitpid(pid, 0)
            except OSError:
                pass
            data = b''.join(chunks)
            kind, val = pickle.loads(data) if data else ('exc', 'child died without an answer')
            if kind == 'exc':
                raise RuntimeError('worker failed:\n' + val)
            results[i] = val
    return results


def small_dags(max_n=4, labels=('task_dep',)):
    """every DAG on <= max_n tasks t0..t(n-1) with edges i -> j (j < i) labelled by one of `labels` or absent;
    thread runner, 2 workers, everything succeeds, no selection argument"""
    out = []
    for n in range(1, max_n + 1):
        pairs = [(i, j) for i in range(n) for j in range(i)]
        for combo in itertools.product([None] + list(labels), repeat=len(pairs)):
            ts = [_new_task('t%d' % i) for i in range(n)]
            for (i, j), lab in zip(pairs, combo):
                if lab:
                    ts[i][lab].append('t%d' % j)
            out.append({'tasks': ts, 'sel': None, 'cont': False, 'always': False, 'runner': 'thread', 'nproc': 2,
                        'policy': {'kind': 'eager'}})
    return out


def replay_witness(prop, data):
    """shared replay(): re-run data['witness'] on the current tree, print everything, return holds?"""
    w = data.get('witness') or {}
    case = w.get('case')
    if not case:
        print('nothing to replay (no failing input was found): %s' % data.get('note'))
        for r in data.get('no_longer_checks', [])[:5]:
            print(' -', r.get('kind'), ':', str(r.get('note'))[:400])
        return False
    case = dict(case)
    case['model'] = expand(case)
    print(render(case))
    obs = run_impl(case)
    print('exit=%s err=%s' % (obs['exit'], obs['err']))
    print('trace:', render_trace(case, obs['trace']))
    if obs.get('stderr'):
        print('stderr:', obs['stderr'][-400:])
    py, wit, clo = py_monitors(case, obs)
    ans = ask_model([(case, obs)])[0]
    lean = None if 'error' in ans else ans.get('monitor')
    print('python monitors:', py)
    print('lean monitors  :', lean if lean is not None else ans)
    print('closure        :', clo, ' detail:', wit)
    keys = MONITOR_KEYS[prop]
    bad = [k for k in keys if not py.get(k, True) or (lean is not None and not lean.get(k, True))]
    if prop == 'C02' and obs['err'] is not None and obs['err'] != 'not-found':
        bad = bad or ['C02_all_processed (run aborted: %s)' % obs['err']]
    if bad:
        print('FAILED monitors:', bad)
        if sig_dup_selection(make_witness(case, obs, [b for b in bad if b in keys], py, lean, wit)):
            print('(this is the open known finding dup-selection-truncates)')
        if sig_calc_wild_dropped(make_witness(case, obs, [b for b in bad if b in keys], py, lean, wit)):
            print('(this is the finding calc-wild-dep-dropped, fixed upstream in bf53535: regression)')
    if lean is not None and not bad:
        print('model accepts the trace:', ans.get('accepted'), '' if ans.get('accepted') else
              '(matched %s, model could emit %s)' % (ans.get('matched'), ans.get('expected')))
        if data.get('failed') == 'correspondence' and not ans.get('accepted') and not ans.get('skipped'):
            return False
    return not bad


if __name__ == '__main__':
    # debugging aid:  python harness/runlib.py <serial|thread|process> <seed> <count>   prints model rejections
    common.use_repo()
    _runner = sys.argv[1] if len(sys.argv) > 1 else 'serial'
    _rng = random.Random(int(sys.argv[2]) if len(sys.argv) > 2 else 0)
    _pairs = []
    for _ in range(int(sys.argv[3]) if len(sys.argv) > 3 else 100):
        _c = gen_case(_rng, runner=_runner, **json.loads(os.environ.get('RUNLIB_KNOBS', '{}')))
        if _runner == 'thread':
            _c['policy'] = gen_policy(_rng, _c['nproc'])
        _pairs.append((_c, run_impl(_c, keep_raw=False)))
    _n = 0
    for (_c, _o), _a in zip(_pairs, ask_model(_pairs)):
        _mon = _a.get('monitor') or {}
        if 'error' in _a or ((_a.get('accepted') or _a.get('skipped')) and all(_mon.values())):
            continue
        _n += 1
        print(render(_c))
        print(_o['exit'], _o['err'], render_trace(_c, _o['trace']))
        print('matched', _a.get('matched'), 'expected', _a.get('expected'))
        print(json.dumps(model_request(_c, _o)))
        print()
    print('%d rejected of %d' % (_n, len(_pairs)))
