"""Kill-point and interruption harness for C06 (DESIGN §5 C06, §2.2).

A *scenario* is a small generated project (2-4 python-action tasks with file_dep / task_dep, optionally a failing task;
tasks may have a first action that returns values and an `uptodate` version check over the saved value),
a pre-history (no DB / a full run / a full run followed by edits), a backend and a runner kind.  Everything runs as
real `python -m doit` subprocesses in a scratch directory:

  * actions append JSON lines to `events.log` with O_APPEND single writes (a kill cannot tear them): start/end with the
    digest of the content of the task's file dependencies at execution time;
  * a recording reporter class (given through DOIT_CONFIG['reporter']) appends the reporter callbacks;
  * kills: `strace -f -P <db files> -e inject=<syscall>:signal=SIGKILL:when=N` kills doit on entry to the N-th such
    syscall touching the DB files (a census run without injection lists them first);
  * interruptions: the action named in $DOIT_C06_INTERRUPT raises KeyboardInterrupt / SystemExit.
"""
import hashlib
import json
import os
import shutil
import subprocess

import common

DODO = r'''
import hashlib, json, os, sys
SC = json.load(open('scenario.json'))
RUN = os.environ.get('DOIT_C06_RUN', '?')
INTR = os.environ.get('DOIT_C06_INTERRUPT', '')      # "task:KeyboardInterrupt" | "task:SystemExit"

def ev(**kw):
    kw['run'] = RUN
    fd = os.open('events.log', os.O_WRONLY | os.O_APPEND | os.O_CREAT, 0o644)
    os.write(fd, (json.dumps(kw, sort_keys=True) + '\n').encode())
    os.close(fd)

def digest(paths):
    h = hashlib.sha1()
    for p in sorted(paths):
        try:
            h.update(p.encode() + b'\0' + open(p, 'rb').read() + b'\0')
        except OSError:
            h.update(p.encode() + b'\0<missing>\0')
    return h.hexdigest()[:12]

class Rec(object):
    desc = 'recording reporter'
    def __init__(self, outstream, options): pass
    def initialize(self, tasks, selected): pass
    def get_status(self, task): pass
    def execute_task(self, task): ev(ev='rep', what='execute', t=task.name)
    def add_failure(self, task, fail):
        ev(ev='rep', what='fail', t=task.name)
        self._internal_error(task)
    def add_success(self, task):
        ev(ev='rep', what='success', t=task.name)
        self._internal_error(task)
    def _internal_error(self, task):
        # an internal error of the run: the reporter itself raises while reporting the outcome of one task
        if INTR == task.name + ':report:RuntimeError':
            raise RuntimeError('planted internal error while reporting ' + task.name)
    def skip_uptodate(self, task): ev(ev='rep', what='up-to-date', t=task.name)
    def skip_ignore(self, task): ev(ev='rep', what='ignore', t=task.name)
    def cleanup_error(self, exception): pass
    def runtime_error(self, msg): ev(ev='rep', what='runtime_error', t='')
    def teardown_task(self, task): pass
    def complete_run(self): ev(ev='rep', what='complete', t='')

DOIT_CONFIG = {'dep_file': SC['dep_file'], 'backend': SC['backend'], 'verbosity': 0, 'reporter': Rec}

EXC = {'KeyboardInterrupt': KeyboardInterrupt, 'SystemExit': SystemExit}

def mk_td(name):
    def td():
        ev(ev='teardown', t=name)
        if INTR.startswith(name + ':teardown:'):
            raise EXC[INTR.split(':')[2]]()
        return True
    return td

def mk_start(name):
    def st():
        ev(ev='start', t=name)
        return True
    return st

def mk(name, spec, start=True):
    def act():
        if start:
            ev(ev='start', t=name)
        if spec.get('target'):
            # the action (re)creates its target first, whatever happens afterwards
            with open('out_' + name, 'w') as f:
                f.write('made by ' + name)
        if (INTR.startswith(name + ':') and ':teardown:' not in INTR and ':val:' not in INTR
                and INTR.split(':')[-1] in EXC):
            raise EXC[INTR.split(':')[-1]]()
        ok = name not in SC['failing']
        ev(ev='end', t=name, ok=ok, digest=digest(spec['file_dep']))
        if not ok and spec.get('kind') == 'interactive':
            # a PythonInteractiveAction is "successful unless an exception is raised": returning False would be a success
            raise RuntimeError('planted failure')
        return ok
    return act

def mk_val(name, spec):
    # an earlier action of the task returning values (saved as `_values_:` only when the whole task succeeds)
    def val():
        ev(ev='val', t=name)
        if INTR.startswith(name + ':val:'):
            ev(ev='start', t=name)
            raise EXC[INTR.split(':')[-1]]()
        return {'dig': digest(spec['file_dep'])}
    return val

def mk_utd(name, spec):
    # a "version check": up-to-date iff the value saved by the last successful execution describes the present inputs
    def utd(task, values):
        return values.get('dig') == digest(spec['file_dep'])
    return utd

def gen():
    for name, spec in SC['tasks'].items():
        def creator(name=name, spec=spec):
            act = mk(name, spec)
            if spec.get('kind') == 'interactive':
                # doit.tools.PythonInteractiveAction: same contract as a python-action, no output capture
                from doit.tools import PythonInteractiveAction
                act = PythonInteractiveAction(act)
            if spec.get('kind') == 'cmdsig':
                # a cmd-action whose shell sends a signal to doit itself (its parent) while it is running:
                # an interruption that comes from OUTSIDE the action (Ctrl-C / kill of the doit process)
                cmd = ('case "$DOIT_C06_INTERRUPT" in %s:action:SIG*) kill -${DOIT_C06_INTERRUPT##*:SIG} $PPID; '
                       'sleep 4;; esac' % name)
                act = mk(name, spec, start=False)
                acts = [mk_start(name), cmd, act]
            else:
                acts = [act]
            if spec.get('values'):
                acts = [mk_val(name, spec)] + acts
            d = {'basename': name, 'actions': acts, 'file_dep': spec['file_dep'],
                 'task_dep': spec['task_dep']}
            if spec.get('target'):
                d['targets'] = ['out_' + name]
            if spec.get('versioned'):
                # the inputs are watched by an uptodate callable over a SAVED VALUE instead of doit's file_dep
                d['file_dep'] = []
                d['uptodate'] = [mk_utd(name, spec)]
            if spec.get('teardown'):
                d['teardown'] = [mk_td(name)]
            return d
        creator.__name__ = 'task_' + name
        yield creator

for _c in gen():
    globals()[_c.__name__] = _c
'''

DUMP = r'''
import json, sys
sys.path.insert(0, sys.argv[1])
from doit import dependency as dep
sc = json.load(open('scenario.json'))
cls = {'json': dep.JsonDB, 'dbm': dep.DbmDB, 'sqlite3': dep.SqliteDB}[sc['backend']]
out = {'unreadable': None, 'slots': {}}
try:
    db = cls(sc['dep_file'], dep.JSONCodec())
except BaseException as ex:
    out['unreadable'] = type(ex).__name__ + ': ' + str(ex)[:100]
    print(json.dumps(out)); sys.exit(0)
for name, spec in sc['tasks'].items():
    try:
        present = db.in_(name)
        rcd = {}
        for key in ['_values_:', 'result:', 'checker:', 'deps:', 'ignore:'] + sorted(spec['file_dep']):
            v = db.get(name, key)
            if v is not None:
                rcd[key] = sorted(v) if key == 'deps:' else v
        out['slots'][name] = ('absent' if not (present or rcd) else rcd)
    except BaseException as ex:
        out['slots'][name] = 'corrupt:' + type(ex).__name__
print(json.dumps(out, sort_keys=True))
'''

MODIFYING = ['openat', 'write', 'pwrite64', 'pwritev', 'writev', 'fsync', 'fdatasync', 'rename', 'renameat', 'renameat2',
             'ftruncate', 'truncate', 'unlink', 'unlinkat', 'chmod', 'fchmod', 'fchmodat']

BACKENDS = ['json', 'dbm', 'sqlite3']
RUNNERS = {'serial': [], 'process2': ['-n', '2'], 'thread2': ['-n', '2', '-P', 'thread']}


def db_paths(d):
    names = ['db', 'db.json', 'db.dat', 'db.dir', 'db.bak', 'db.db', 'db-journal', 'db-wal', 'db-shm',
             'db.db-journal', 'db.db-wal', 'db.db-shm']
    return names + [os.path.join(d, n) for n in names]


def env_for(run_id, interrupt=''):
    env = dict(os.environ)
    env.update({'PYTHONPATH': common.REPO, 'PYTHONHASHSEED': '0', 'DOIT_C06_RUN': str(run_id),
                'DOIT_C06_INTERRUPT': interrupt, 'PYTHONDONTWRITEBYTECODE': '1'})
    return env


def gen_scenario(rng, mode):
    n = rng.randint(2, 4)
    names = ['t%d' % i for i in range(n)]
    tasks = {}
    for i, nm in enumerate(names):
        deps = ['src_%d' % i]
        if i and rng.random() < 0.3:
            deps.append('src_%d' % rng.randrange(i))      # a shared source
        tasks[nm] = {'file_dep': deps, 'task_dep': [names[j] for j in range(i) if rng.random() < 0.35],
                     'teardown': rng.random() < 0.4,
                     'kind': 'interactive' if rng.random() < 0.25 else 'py'}
        if rng.random() < 0.5:
            # multi-action task: a first action returning values; half of them decide up-to-date-ness from the saved value
            tasks[nm]['values'] = True
            tasks[nm]['versioned'] = rng.random() < 0.5
    backend = rng.choice(BACKENDS)
    runner = rng.choices(['serial', 'process2', 'thread2'], [6, 1, 2])[0]
    pre = rng.choice(['none', 'run', 'run+edit', 'run+edit']) if mode == 'kill' else rng.choice(['none', 'run+edit'])
    failing = [rng.choice(names)] if rng.random() < 0.3 else []
    edits = [i for i in range(n) if rng.random() < 0.6] or [0]
    cont = rng.random() < 0.5
    if mode == 'kill' and runner != 'serial' and failing:
        # a parallel run cut short by a failure is not deterministic (which in-flight tasks still get processed
        # depends on timing), so the reference run would not predict the killed run's effects: keep --continue
        cont = True
    sc = {'tasks': tasks, 'backend': backend, 'dep_file': 'db', 'runner': runner, 'pre': pre, 'failing': failing,
          'edits': edits, 'mode': mode, 'continue': cont}
    if mode == 'interrupt':
        # interrupt a task that will really execute: any task without prior DB, an edited one otherwise
        cands = names if pre == 'none' else [names[i] for i in edits]
        ti = rng.choice(cands)
        where = 'action'
        if rng.random() < 0.3:
            # interrupt inside a teardown action (runs from finish(), after the flush)
            tasks[ti]['teardown'] = True
            where = 'teardown'
            sc['failing'] = [f for f in failing if f != ti]
        exc = rng.choice(['KeyboardInterrupt', 'SystemExit'])
        r = rng.random()
        if where == 'action' and rng.random() < 0.2:
            # "or by an internal error": the reporter raises while reporting the outcome (success or failure) of ti
            where, exc, r = 'report', 'RuntimeError', 1.0
            if rng.random() < 0.5 and pre != 'none':
                sc['failing'] = sorted(set(sc['failing']) | {ti})     # a previously successful task that now fails
                if rng.random() < 0.6:
                    # ... and that is stale only because its target was deleted (its failing action re-creates it)
                    tasks[ti]['target'] = True
                    tasks[ti]['versioned'] = False
                    sc['rm_targets'] = [ti]
                    sc['edits'] = [i for i in sc['edits'] if names[i] != ti and 'src_%d' % i not in tasks[ti]['file_dep']]
        if where == 'action' and tasks[ti].get('values') and r < 0.3:
            where = 'val'                     # inside the FIRST action of a multi-action task
        elif where == 'action' and runner != 'process2' and r < 0.5:
            # the interruption comes from outside: SIGINT delivered to doit while a cmd-action child runs
            tasks[ti]['kind'] = 'cmdsig'
            exc = 'SIGINT'
        if (pre != 'none' and where in ('action', 'val') and not tasks[ti].get('versioned') and rng.random() < 0.3):
            # the dodo file was edited between the runs: ti's file_dep set SHRANK (nothing else changed for it), so it is
            # stale only by its dependency set; the pre-run used the larger set
            extra = [f for f in ('src_%d' % j for j in range(n)) if f not in tasks[ti]['file_dep']]
            if extra:
                tasks[ti]['pre_file_dep'] = tasks[ti]['file_dep'] + [rng.choice(extra)]
                if rng.random() < 0.6:
                    sc['edits'] = [i for i in sc['edits'] if 'src_%d' % i not in tasks[ti]['pre_file_dep']]
        sc['interrupt'] = '%s:%s:%s' % (ti, where, exc)
    return sc


def write_src(d, i, content, mtime):
    p = os.path.join(d, 'src_%d' % i)
    with open(p, 'w') as f:
        f.write(content)
    os.utime(p, ns=(mtime * 10 ** 9, mtime * 10 ** 9))


def doit_cmd(sc, extra=()):
    args = ['run'] + RUNNERS[sc['runner']] + (['--continue'] if sc['continue'] else []) + list(extra)
    return [common.PYTHON, '-m', 'doit'] + args


def run_doit(d, sc, run_id, interrupt='', strace=None, timeout=60):
    """returns (exit code, stderr tail).  strace: None | ('census', logfile) | ('kill', syscall, n)"""
    cmd = doit_cmd(sc)
    if strace:
        pre = ['strace', '-f', '-qq']
        for p in db_paths(d):
            pre += ['-P', p]
        if strace[0] == 'census':
            pre += ['-o', strace[1], '-e', 'trace=' + ','.join(MODIFYING)]
        else:
            pre += ['-o', '/dev/null', '-e', 'trace=' + strace[1],
                    '-e', 'inject=%s:signal=SIGKILL:when=%d' % (strace[1], strace[2])]
        cmd = pre + cmd
    try:
        p = subprocess.run(cmd, cwd=d, env=env_for(run_id, interrupt), stdout=subprocess.PIPE,
                           stderr=subprocess.PIPE, text=True, timeout=timeout)
        return p.returncode, p.stderr[-600:]
    except subprocess.TimeoutExpired:
        return 'timeout', ''


def read_events(d):
    p = os.path.join(d, 'events.log')
    if not os.path.exists(p):
        return []
    out = []
    with open(p) as f:
        for line in f:
            line = line.strip()
            if line:
                try:
                    out.append(json.loads(line))
                except ValueError:
                    out.append({'ev': 'torn-line', 'raw': line[:80]})
    return out


def dump_db(d):
    script = os.path.join(d, '_dump.py')
    if not os.path.exists(script):
        with open(script, 'w') as f:
            f.write(DUMP)
    p = subprocess.run([common.PYTHON, script, common.REPO], cwd=d, env=env_for('dump'), stdout=subprocess.PIPE,
                       stderr=subprocess.PIPE, text=True, timeout=60)
    try:
        return json.loads(p.stdout.strip().split('\n')[-1])
    except (ValueError, IndexError):
        return {'unreadable': 'dump script failed: ' + p.stderr[-200:], 'slots': {}}


def cur_digest(d, paths):
    h = hashlib.sha1()
    for p in sorted(paths):
        try:
            with open(os.path.join(d, p), 'rb') as f:
                h.update(p.encode() + b'\0' + f.read() + b'\0')
        except OSError:
            h.update(p.encode() + b'\0<missing>\0')
    return h.hexdigest()[:12]


def prepare(sc, root):
    """build the pre-state S0 in a fresh directory; returns its path"""
    d = os.path.join(root, 's0')
    os.makedirs(d)
    with open(os.path.join(d, 'dodo.py'), 'w') as f:
        f.write(DODO)
    with open(os.path.join(d, 'scenario.json'), 'w') as f:
        json.dump(sc, f)
    n = len(sc['tasks'])
    for i in range(n):
        write_src(d, i, 'v1 of %d\n' % i, 1000 + i)
    if sc['pre'] != 'none':
        pre_sc = dict(sc, failing=[], runner='serial')
        # a task may have had a larger file_dep set when the pre-run was made (dodo file edited since)
        pre_sc['tasks'] = {t: (dict(spec, file_dep=spec['pre_file_dep']) if spec.get('pre_file_dep') else spec)
                           for t, spec in sc['tasks'].items()}
        with open(os.path.join(d, 'scenario.json'), 'w') as f:
            json.dump(pre_sc, f)
        run_doit(d, pre_sc, 'pre')
        with open(os.path.join(d, 'scenario.json'), 'w') as f:
            json.dump(sc, f)
        if sc['pre'] == 'run+edit':
            for i in sc['edits']:
                write_src(d, i, 'v2 of %d -- longer\n' % i, 2000 + i)
            for t in sc.get('rm_targets', []):
                if os.path.exists(os.path.join(d, 'out_' + t)):
                    os.remove(os.path.join(d, 'out_' + t))
    return d


def census(sc, root, s0):
    """reference run under strace; returns dict(points, events, final dump, old dump, exit)"""
    d = os.path.join(root, 'ref')
    shutil.copytree(s0, d)
    old = dump_db(d) if sc['pre'] != 'none' else {'unreadable': None, 'slots': {t: 'absent' for t in sc['tasks']}}
    # dumping may create empty db files for dbm/sqlite: start the reference from a pristine copy again
    shutil.rmtree(d)
    shutil.copytree(s0, d)
    log = os.path.join(root, 'census.log')
    code, err = run_doit(d, sc, 'ref', strace=('census', log))
    points = []
    counts = {}
    if os.path.exists(log):
        with open(log) as f:
            for line in f:
                parts = line.split(None, 1)
                if len(parts) < 2:
                    continue
                call = parts[1].split('(', 1)[0].strip()
                if call in MODIFYING:
                    # strace's `when=N` counts every traced call of that name, read-only opens included
                    counts[call] = counts.get(call, 0) + 1
                    if call == 'openat' and not any(fl in line for fl in ('O_WRONLY', 'O_RDWR', 'O_CREAT', 'O_TRUNC')):
                        continue
                    points.append((call, counts[call], line.strip()[:140]))
    return {'points': points, 'events': [e for e in read_events(d) if e.get('run') == 'ref'],
            'final': dump_db(d), 'old': old, 'exit': code, 'stderr': err}


def effects_from(events):
    """DB effects of a run in report order: success -> save, fail -> remove"""
    effs = []
    for e in events:
        if e.get('ev') == 'rep' and e['what'] == 'success':
            effs.append(['save', e['t']])
        elif e.get('ev') == 'rep' and e['what'] == 'fail':
            effs.append(['remove', e['t']])
    return effs


class Interner(object):
    def __init__(self):
        self.ids = {}

    def rid(self, rcd):
        k = common.canon(rcd)
        if k not in self.ids:
            self.ids[k] = len(self.ids) + 1
        return self.ids[k]


def skip_soundness(d, sc, all_events, next_run_id):
    """P (kill half): in run `next_run_id` every task reported up-to-date must have, earlier in the whole history,
    a successfully completed execution that saw the present content of its file dependencies.  Returns list of lies."""
    lies = []
    before = []
    for e in all_events:
        if e.get('run') == next_run_id:
            if e.get('ev') == 'rep' and e['what'] == 'up-to-date':
                t = e['t']
                want = cur_digest(d, sc['tasks'][t]['file_dep'])
                ok = any(b.get('ev') == 'end' and b['t'] == t and b.get('ok') and b.get('digest') == want for b in before)
                if not ok:
                    lies.append({'task': t, 'present_digest': want,
                                 'completed_executions': [b for b in before if b.get('ev') == 'end' and b['t'] == t]})
        else:
            before.append(e)
    return lies
