"""helpers of the option-parsing family (model M4): generators of option specs / assignments / argv / sources,
drivers of the real doit code paths, canonicalisation.  Used by harness/props/c16.py."""
import io
import json
import os
import sys
import contextlib

import common

TYPES = ['bool', 'int', 'str', 'list']
PYTYPE = {'bool': bool, 'int': int, 'str': str, 'list': list}

NAMES = ['alpha', 'verb', 'out', 'num', 'flag', 'items', 'mode', 'dry', 'x1', 'p_q']
SHORTS = 'abcdefvxN0'
# long names with prefix relations between them (exact match must win, abbreviations must be unique)
LONGS = ['verbose', 'verbosity', 'ver', 'v', 'file', 'files', 'flag', 'output', 'out', 'num', 'name', 'list',
         'x-y', 'dry-run', 'dry', 'mode', 'no-flag', 'no']
ENVS = ['DOITV_A', 'DOITV_B', 'DOITV_C', 'DOITV_D']

STR_VALUES = ['a', 'b c', '', '-x', '--verbose', '=', 'a=b', 'x,y', '-', '--', 'nïve', '7', 'A', '-a', 'val']
INT_GOOD = ['0', '7', '-3', ' 12 ', '+4', '1_000', '007', '42']
INT_BAD = ['abc', '', '1.5', '0x10', '--3', '1__0', '_1', '1_', '3 4', '- 3', '+']
BOOL_GOOD = ['yes', 'No', 'TRUE', '0', 'off', '1', 'on', 'false']
BOOL_BAD = ['maybe', '', '2', 'y', ' yes']
LIST_VALUES = ['a', 'a,b', ' a , ,b ', '', ',', 'x y,z', '-q']
POSITIONALS = ['task1', 't2', '-', '', 'a b', 'sub:x', 'x=1', 'é']
POS_AFTER_SEP = ['-x', '--flag', '--', '-', 'task1', '--ver=1']


# ------------------------------------------------------------------------------------------ spec <-> python

def to_cmdoption_dict(o):
    d = {'name': o['name'], 'type': PYTYPE[o['type']], 'default': o['default'], 'short': o['short'],
         'long': o['long'], 'inverse': o['inverse'], 'env_var': o['env_var']}
    if isinstance(d['default'], list):
        d['default'] = list(d['default'])
    if o['choices']:
        d['choices'] = [(c, '') for c in o['choices']]
    return d


def canon_val(v):
    if v is None or isinstance(v, (bool, int, str)):
        return v
    if isinstance(v, list) and all(isinstance(x, str) for x in v):
        return list(v)
    return {'repr': repr(v)[:60]}


def spec_of_cmdoptions(options):
    """real CmdOption objects -> model spec (None when something is outside the modelled vocabulary)"""
    out = []
    for opt in options:
        ty = {bool: 'bool', int: 'int', str: 'str', list: 'list'}.get(opt.type)
        if ty is None or len(opt.short or '') > 1:
            return None
        d = canon_val(opt.default)
        if isinstance(d, dict):
            return None
        ch = [canon_val(c) for c in opt.choices.keys()]
        out.append({'name': opt.name, 'type': ty, 'default': d, 'short': opt.short or '', 'long': opt.long or '',
                    'inverse': opt.inverse or '', 'choices': ch, 'env_var': opt.env_var or None})
    return out


# ------------------------------------------------------------------------------------------ generators

def gen_default(rng, ty, choices):
    if choices:
        return rng.choice(choices)
    if ty == 'bool':
        return rng.random() < 0.3
    if ty == 'int':
        return rng.choice([0, 5, -1, None])
    if ty == 'str':
        return rng.choice(['', 'dflt', None, 'a'])
    return rng.choice([[], ['d0'], ['d0', 'd1']])


def gen_spec(rng, wf_bias=0.9, short_pool=SHORTS, long_pool=LONGS, name_prefix=''):
    n = rng.choice([1, 2, 2, 3, 3, 4, 5, 6])
    names = rng.sample(NAMES, n)
    shorts = list(short_pool)
    longs = list(long_pool)
    rng.shuffle(shorts)
    rng.shuffle(longs)
    envs = list(ENVS)
    rng.shuffle(envs)
    spec = []
    wf = rng.random() < wf_bias
    for name in names:
        ty = rng.choice(['bool', 'bool', 'int', 'str', 'str', 'list'])
        o = {'name': name_prefix + name, 'type': ty, 'short': '', 'long': '', 'inverse': '', 'choices': [],
             'env_var': None}
        r = rng.random()
        if r < 0.75 and shorts:
            o['short'] = shorts.pop()
        if (r > 0.35 or not o['short']) and longs:
            o['long'] = longs.pop()
        if ty == 'bool' and o['long'] and rng.random() < 0.5 and longs:
            o['inverse'] = rng.choice(['no-' + o['long'], longs.pop()])
        if ty == 'str' and rng.random() < 0.3:
            o['choices'] = rng.sample(['a', 'A', 'val', 'x,y', ''], rng.randint(1, 3))
        if ty == 'int' and rng.random() < 0.3:
            o['choices'] = rng.sample([0, 7, -3, 12, 42], rng.randint(1, 3))
        if rng.random() < 0.45 and envs:
            o['env_var'] = envs.pop()
        o['default'] = gen_default(rng, ty, o['choices'])
        spec.append(o)
    if not wf and len(spec) >= 2:
        # ill-formed tables (K only): duplicate short / long, inverse on a non-boolean option
        a, b = rng.sample(spec, 2)
        k = rng.random()
        if k < 0.4 and a['short']:
            b['short'] = a['short']
        elif k < 0.8 and a['long']:
            b['long'] = a['long']
        elif b['long'] and b['type'] in ('int', 'str'):
            b['inverse'] = 'inv-' + b['long']
    return spec


def gen_text(rng, o, good_p=0.85):
    """a value text for option o (command line / environment / INI)"""
    ty = o['type']
    good = rng.random() < good_p
    if ty == 'int':
        if o['choices'] and good:
            return str(rng.choice(o['choices']))
        return rng.choice(INT_GOOD if good else INT_BAD)
    if ty == 'bool':
        return rng.choice(BOOL_GOOD if good else BOOL_BAD)
    if ty == 'list':
        return rng.choice(LIST_VALUES)
    if o['choices'] and good:
        return rng.choice(o['choices'])
    return rng.choice(STR_VALUES)


def gen_typed(rng, o):
    """a non-string python value as TOML / API / DOIT_CONFIG give it"""
    ty = o['type']
    if ty == 'bool':
        return rng.random() < 0.5
    if ty == 'int':
        return rng.choice(o['choices']) if o['choices'] and rng.random() < 0.8 else rng.choice([0, 3, 99, -3])
    if ty == 'list':
        return rng.choice([[], ['c0'], ['c0', 'c1']])
    return None


def gen_asgs(rng, spec, n=None, good_p=0.9, abbrev_p=0.0):
    """structured assignments (the `render` side of the round trip)"""
    usable = [o for o in spec if o['short'] or o['long']]
    if not usable:
        return []
    n = rng.choice([0, 1, 1, 2, 2, 3, 4, 6]) if n is None else n
    flags = [o['short'] for o in spec if o['type'] == 'bool' and o['short']]
    asgs = []
    for _ in range(n):
        o = rng.choice(usable)
        cluster = ''
        if flags and rng.random() < 0.3:
            cluster = ''.join(rng.choice(flags) for _ in range(rng.randint(1, 3)))
        if o['type'] == 'bool':
            forms = []
            if o['short']:
                forms.append('s')
            if o['long']:
                forms.append('l')
                if o['inverse']:
                    forms += ['i', 'i']
            f = rng.choice(forms)
            if f == 's':
                asgs.append(['flags', cluster + o['short']])
            elif f == 'l':
                asgs.append(['lFlag', o['long']])
            else:
                asgs.append(['lFlag', o['inverse']])
        else:
            v = gen_text(rng, o, good_p)
            forms = []
            if o['short']:
                forms += ['sAtt', 'sDet']
            if o['long']:
                forms += ['lEq', 'lDet']
            f = rng.choice(forms)
            if f == 'sAtt' and v == '':
                f = 'sDet'
            if f in ('sAtt', 'sDet'):
                asgs.append([f, cluster, o['short'], v])
            else:
                name = o['long']
                if abbrev_p and rng.random() < abbrev_p and len(name) > 1:
                    name = name[:rng.randint(1, len(name) - 1)]
                asgs.append([f, name, v])
    return asgs


def render_asg(a):
    t = a[0]
    if t == 'flags':
        return ['-' + a[1]]
    if t == 'sAtt':
        return ['-' + a[1] + a[2] + a[3]]
    if t == 'sDet':
        return ['-' + a[1] + a[2], a[3]]
    if t == 'lFlag':
        return ['--' + a[1]]
    if t == 'lEq':
        return ['--' + a[1] + '=' + a[2]]
    if t == 'lDet':
        return ['--' + a[1], a[2]]
    raise ValueError(a)


def render(asgs, sep, pos):
    out = []
    for a in asgs:
        out += render_asg(a)
    if sep:
        out.append('--')
    return out + list(pos)


def gen_sources(rng, spec, p_env=0.5, p_ini=0.5, p_dodo=0.5, good_p=0.9, extra_keys=True):
    """environment, config section(s) and DOIT_CONFIG for a spec"""
    env, ini, glob, dodo = [], [], [], []
    for o in spec:
        if o['env_var'] and rng.random() < p_env:
            env.append([o['env_var'], gen_text(rng, o, good_p)])
        for lst, p in ((ini, p_ini), (glob, p_ini * 0.4)):
            if rng.random() < p:
                tv = gen_typed(rng, o)
                if tv is not None and rng.random() < 0.4:
                    lst.append([o['name'], {'val': tv}])
                else:
                    lst.append([o['name'], {'raw': gen_text(rng, o, good_p)}])
        if rng.random() < p_dodo:
            tv = gen_typed(rng, o)
            if tv is None:
                tv = gen_text(rng, o, 1.0)
            dodo.append([o['name'], tv])
    if extra_keys and rng.random() < 0.2:
        ini.append(['unknown_key', {'raw': 'zzz'}])
    rng.shuffle(ini)
    return env, ini, glob, dodo


MALFORMED_KINDS = ['unknown-short', 'unknown-long', 'truncated', 'flag-value', 'ambiguous', 'bad-value', 'bad-choice',
                   'bad-env', 'bad-config']


def inject_malformed(rng, case):
    """turn a well-formed structured case into one that must be rejected; returns the kind or None.
    Injection happens between assignments (never after `--` or a positional), so the token is read as an option."""
    spec = case['spec']
    shorts = {o['short'] for o in spec if o['short']}
    longs = [o['long'] for o in spec if o['long']] + [o['inverse'] for o in spec if o['long'] and o['inverse']]
    spec = spec[case.get('n_base', 0):]      # values are only injected for the generated options
    kinds = list(MALFORMED_KINDS)
    rng.shuffle(kinds)
    pre_n = rng.randint(0, len(case['asgs']))
    pre = render(case['asgs'][:pre_n], False, [])
    post = render(case['asgs'][pre_n:], case['sep'], case['pos'])
    for kind in kinds:
        if kind == 'unknown-short':
            c = rng.choice([c for c in 'ZQ9?' if c not in shorts])
            tok = ['-' + c + rng.choice(['', 'v'])]
        elif kind == 'unknown-long':
            cand = [w for w in ('zzz', 'quux', 'verbosex', 'filez=1') if not any(l.startswith(w.split('=')[0]) for l in longs)]
            if not cand:
                continue
            tok = ['--' + rng.choice(cand)]
        elif kind == 'truncated':
            args = [o for o in spec if o['type'] != 'bool' and (o['short'] or o['long'])]
            if not args:
                continue
            o = rng.choice(args)
            case['argv'] = render(case['asgs'], False, []) + ['-' + o['short'] if o['short'] else '--' + o['long']]
            return kind
        elif kind == 'flag-value':
            fl = [o['long'] for o in spec if o['type'] == 'bool' and o['long']] + \
                 [o['inverse'] for o in spec if o['type'] == 'bool' and o['long'] and o['inverse']]
            if not fl:
                continue
            tok = ['--' + rng.choice(fl) + '=' + rng.choice(['1', '', 'yes'])]
        elif kind == 'ambiguous':
            amb = set()
            for l in longs:
                for k in range(1, len(l)):
                    p = l[:k]
                    if p not in longs and sum(1 for m in longs if m.startswith(p)) > 1:
                        amb.add(p)
            if not amb:
                continue
            tok = ['--' + rng.choice(sorted(amb))]
        elif kind in ('bad-value', 'bad-choice'):
            if kind == 'bad-value':
                cand = [o for o in spec if o['type'] == 'int' and (o['short'] or o['long'])]
            else:
                cand = [o for o in spec if o['choices'] and o['type'] in ('int', 'str') and (o['short'] or o['long'])]
            if not cand:
                continue
            o = rng.choice(cand)
            if kind == 'bad-value':
                v = rng.choice([x for x in INT_BAD if x])
            else:
                v = '77' if o['type'] == 'int' else 'nochoice'
            if o['long'] and rng.random() < 0.5:
                tok = ['--' + o['long'] + '=' + v] if rng.random() < 0.5 else ['--' + o['long'], v]
            elif o['short']:
                tok = ['-' + o['short'] + v] if rng.random() < 0.5 else ['-' + o['short'], v]
            else:
                tok = ['--' + o['long'], v]
        elif kind == 'bad-env':
            cand = [o for o in spec if o['env_var'] and (o['type'] in ('int', 'bool') or o['choices'])]
            if not cand:
                continue
            o = rng.choice(cand)
            v = 'nochoice' if o['type'] == 'str' else rng.choice(['abc', 'maybe', '1.5'])
            case['env'] = [e for e in case['env'] if e[0] != o['env_var']] + [[o['env_var'], v]]
            return kind
        elif kind == 'bad-config':
            if case['path'] == 'parse':
                continue
            cand = [o for o in spec if o['type'] in ('int', 'bool') or o['choices']]
            if not cand:
                continue
            o = rng.choice(cand)
            v = 'nochoice' if o['type'] == 'str' else rng.choice(['abc', 'maybe', '1.5'])
            case['ini'] = [e for e in case['ini'] if e[0] != o['name']] + [[o['name'], {'raw': v}]]
            return kind
        else:
            continue
        case['argv'] = pre + tok + post
        return kind
    return None


GARBAGE = ['-', '--', '-a', '-ab', '-abc', '-v3', '-v', '--ver', '--verb', '--verbose', '--verbose=1', '--v', '--v=',
           '--=x', '--file', '--file=', '--files=a', '--no', '--no-flag', '--flag=1', '-x-', '-=', 'task', '', '7',
           '--out', '--output=-', '-N', '-0', '--x-y', '--dry', '--dry-', '-ffv', '-fvf', '---', '--num=1_0', '-e']


def gen_garbage_argv(rng, spec):
    toks = list(GARBAGE)
    for o in spec:
        if o['short']:
            toks += ['-' + o['short'], '-' + o['short'] + 'q']
        if o['long']:
            toks += ['--' + o['long'], '--' + o['long'][:max(1, len(o['long']) // 2)], '--' + o['long'] + '=7',
                     '--' + o['long'] + '=']
    return [rng.choice(toks) for _ in range(rng.randint(0, 6))]


# ------------------------------------------------------------------------------------------ the implementation

def classify_error(msg):
    if 'not recognized' in msg:
        return 'unknown'
    if 'requires argument' in msg:
        return 'needs-arg'
    if 'must not have an argument' in msg:
        return 'no-arg'
    if 'not a unique prefix' in msg:
        return 'ambiguous'
    if 'available choices' in msg:
        return 'bad-choice'
    if 'Error parsing parameter' in msg:
        return 'bad-value'
    return 'other:' + msg[:40]


@contextlib.contextmanager
def environ(env):
    saved = {}
    for k in list(ENVS) + [e[0] for e in env] + ['DOIT_FILE', 'DOIT_SEEK_FILE']:
        saved[k] = os.environ.pop(k, None)
    for k, v in env:
        os.environ[k] = v
    try:
        yield
    finally:
        for k in saved:
            os.environ.pop(k, None)
            if saved[k] is not None:
                os.environ[k] = saved[k]


def params_obs(names, params, pos):
    vals = [[n, canon_val(params[n]) if n in params else '<missing>'] for n in names]
    nd = sorted(getattr(params, '_non_default_keys', set()) & set(names)) if hasattr(params, '_non_default_keys') else None
    return {'ok': {'vals': vals, 'nd': nd, 'pos': list(pos)}}


def exc_obs(ex):
    from doit.cmdparse import CmdParseError
    if isinstance(ex, CmdParseError):
        return {'err': classify_error(str(ex))}
    return {'err': 'crash', 'exc': type(ex).__name__}


def cfg_py(items):
    return {k: (c['raw'] if 'raw' in c else c['val']) for k, c in items}


def impl_parse(case):
    """CmdParse.parse twice with the same parser object; option defaults observed before / between / after"""
    from doit.cmdparse import CmdOption, CmdParse
    spec = case['spec']
    names = [o['name'] for o in spec]
    out = {}
    with environ(case['env']):
        try:
            parser = CmdParse([CmdOption(to_cmdoption_dict(o)) for o in spec])
        except Exception as ex:  # noqa
            return {'res': exc_obs(ex), 'ctor': True}
        out['defaults0'] = [canon_val(o.default) for o in parser.options]
        if case.get('prev_argv') is not None:
            # an earlier, different command line parsed with the same parser object must leave no trace
            try:
                parser.parse(list(case['prev_argv']))
            except Exception:  # noqa
                pass
        for tag, dtag in (('res', 'defaults'), ('res2', 'defaults2')):
            try:
                params, pos = parser.parse(list(case['argv']))
                out[tag] = params_obs(names, params, pos)
            except Exception as ex:  # noqa
                out[tag] = exc_obs(ex)
            out[dtag] = [canon_val(o.default) for o in parser.options]
    return out


def impl_command(case):
    """Command(config=...).parse_execute(argv), twice on the same command object"""
    from doit.cmd_base import Command
    spec = case['spec']
    names = [o['name'] for o in spec]
    seen = []

    class VCmd(Command):
        name = 'vcmd'
        cmd_options = tuple(to_cmdoption_dict(o) for o in spec)

        def execute(self, params, args):
            seen.append((params, args))
            return 0

    config = {}
    if case['glob']:
        config['GLOBAL'] = cfg_py(case['glob'])
    config['vcmd'] = cfg_py(case['ini'])
    out = {}
    with environ(case['env']):
        cmd = VCmd(config=config)
        if case.get('prev_argv') is not None:
            try:
                cmd.parse_execute(list(case['prev_argv']))
            except Exception:  # noqa
                # after an error the command object may hold a half configured parser (Command.cmdparser stores the
                # CmdParse before overwrite_defaults ran through): not reused, see findings/pending
                cmd = VCmd(config=config)
        for tag in ('res', 'res2'):
            del seen[:]
            try:
                cmd.parse_execute(list(case['argv']))
                out[tag] = params_obs(names, seen[0][0], seen[0][1])
            except Exception as ex:  # noqa
                out[tag] = exc_obs(ex)
            if tag == 'res' and 'err' in out[tag]:
                # the parser object may be half configured after a config error; a second call is not comparable
                out['res2'] = out['res']
                break
    return out


INI_SAFE = set('abcdefghijklmnopqrstuvwxyzABCDEFGHIJKLMNOPQRSTUVWXYZ0123456789_,.+-')


def toml_file_ok(case):
    for lst in (case['ini'], case['glob']):
        for k, c in lst:
            if 'val' in c and c['val'] is None:
                return False
            if not all(ch.isalnum() or ch == '_' for ch in k):
                return False
    return True


def ini_file_ok(case):
    for lst in (case['ini'], case['glob']):
        for k, c in lst:
            if 'raw' not in c or not c['raw'] or set(c['raw']) - INI_SAFE:
                return False
    return True


_main_cache = {}
PLUGIN_VCMD = None          # set by main_classes(): what `[COMMAND] vcmd = optlib:PLUGIN_VCMD` loads
PLUGIN_BACKEND = None
BACKEND_CLASS = {'dbm': 'DbmDB', 'json': 'JsonDB', 'sqlite3': 'SqliteDB', 'vmem': 'VBackend'}


def main_classes():
    """DoitMain subclass with one extra command built on DoitCmdBase (so that DOIT_CONFIG goes through
    DoitCmdBase.execute -> update_defaults)"""
    from doit.doit_cmd import DoitMain
    from doit.cmd_base import DoitCmdBase
    key = id(DoitMain)
    if key in _main_cache:
        return _main_cache[key]
    box = {'spec': (), 'seen': []}

    class VCmd(DoitCmdBase):
        name = 'vcmd'
        doc_purpose = 'verification probe'

        @property
        def cmd_options(self):
            return box['spec']

        def execute(self, params, args):
            box['seen'].append((params, args))
            return DoitCmdBase.execute(self, params, args)

        def _execute(self, pos_args):
            box['backend_seen'] = type(self.dep_manager.backend).__name__
            return 0

    from doit.dependency import JsonDB

    class VBackend(JsonDB):
        """a DB backend that exists only as a plugin (`[BACKEND] vmem = optlib:PLUGIN_BACKEND`)"""
        desc = 'verification probe backend'

    global PLUGIN_VCMD, PLUGIN_BACKEND
    PLUGIN_VCMD = VCmd
    PLUGIN_BACKEND = VBackend

    class Main(DoitMain):
        def get_cmds(self):
            cmds = DoitMain.get_cmds(self)
            cmds['vcmd'] = VCmd
            return cmds

    from doit.cmd_base import ModuleTaskLoader

    class VLoader(ModuleTaskLoader):
        """a loader with command line options of its own (as DodoTaskLoader has -f/-d/-k): they may be written in
        front of the command name; `setup` is where a loader receives its option values"""

        @property
        def cmd_options(self):
            return box.get('lspec', ())

        def setup(self, opt_values):
            box.setdefault('setup', []).append(params_obs(box['names'], opt_values, []))

    box['VLoader'] = VLoader
    _main_cache[key] = (Main, VCmd, box)
    return _main_cache[key]


def base_spec():
    """the options DoitCmdBase adds in front of a command's own (introspected on every run)"""
    from doit.cmd_base import ModuleTaskLoader
    Main, VCmd, box = main_classes()
    box['spec'] = ()
    inst = VCmd(task_loader=ModuleTaskLoader({}), config={})
    return spec_of_cmdoptions(inst.cmdparser.options)


def _toml_value(c):
    v = c['raw'] if 'raw' in c else c['val']
    if isinstance(v, bool):
        return 'true' if v else 'false'
    if isinstance(v, list):
        return '[' + ', '.join(json.dumps(x) for x in v) + ']'
    return json.dumps(v)


def write_config_files(files):
    """files = {'toml': {'glob': [...], 'ini': [...]} | None, 'cfg': {...} | None}: pyproject.toml and/or doit.cfg in
    the current directory, sections GLOBAL and vcmd"""
    for name in ('pyproject.toml', 'doit.cfg'):
        if os.path.exists(name):
            os.remove(name)
    t = (files or {}).get('toml')
    if t is not None:
        with open('pyproject.toml', 'w') as f:
            f.write('[tool.doit]\n' + ''.join('%s = %s\n' % (k, _toml_value(c)) for k, c in t['glob']))
            f.write('[tool.doit.commands.vcmd]\n' + ''.join('%s = %s\n' % (k, _toml_value(c)) for k, c in t['ini']))
    c_ = (files or {}).get('cfg')
    if c_ is not None:
        with open('doit.cfg', 'w') as f:
            if c_['glob']:
                f.write('[GLOBAL]\n' + ''.join('%s = %s\n' % (k, c['raw']) for k, c in c_['glob']))
            f.write('[vcmd]\n' + ''.join('%s = %s\n' % (k, c['raw']) for k, c in c_['ini']))


def filter_layer(kind, glob, ini):
    """keep what the file format can hold verbatim"""
    def ok(k, c):
        if kind == 'toml':
            return not ('val' in c and c['val'] is None) and all(ch.isalnum() or ch == '_' for ch in k)
        return 'raw' in c and bool(c['raw']) and not (set(c['raw']) - INI_SAFE)
    return {'glob': [e for e in glob if ok(*e)], 'ini': [e for e in ini if ok(*e)]}


def impl_main(case, workdir):
    """DoitMain.run(['vcmd'] + argv) with config sections (INI file or API dict) and DOIT_CONFIG"""
    from doit.cmd_base import ModuleTaskLoader
    Main, VCmd, box = main_classes()
    gen = case['spec'][case['n_base']:]
    names = [o['name'] for o in case['spec']] + [k for k, _ in case['dodo'] if k not in [o['name'] for o in case['spec']]]
    lspec = case.get('lspec')
    prefix = list(case.get('pre') or [])
    if lspec is not None:
        # options of the loader come between the base options and the command's own (DoitCmdBase.get_options)
        gen = gen[len(lspec):]
        box['lspec'] = tuple(to_cmdoption_dict(o) for o in lspec)
        make_loader = box['VLoader']
    else:
        box['lspec'] = ()
        make_loader = ModuleTaskLoader
    box['names'] = names
    box['setup'] = []
    box['spec'] = tuple(to_cmdoption_dict(o) for o in gen)
    del box['seen'][:]
    ns = {'DOIT_CONFIG': {k: (list(v) if isinstance(v, list) else v) for k, v in case['dodo']}}
    old = os.getcwd()
    os.chdir(workdir)
    err = io.StringIO()
    try:
        for f in os.listdir(workdir):
            os.remove(os.path.join(workdir, f))
        kw = {'config_filenames': ()}
        plug = bool(case.get('plugins'))
        if plug:
            # the probe command and a DB backend are registered as PLUGINS, in the same config source as the options
            from doit.doit_cmd import DoitMain as Main      # noqa: F811  (no get_cmds override)
        box.pop('backend_seen', None)
        if case['ini_mode'] == 'file':
            with open('doit.cfg', 'w') as f:
                if plug:
                    f.write('[COMMAND]\nvcmd = optlib:PLUGIN_VCMD\n[BACKEND]\nvmem = optlib:PLUGIN_BACKEND\n')
                if case['glob']:
                    f.write('[GLOBAL]\n' + ''.join('%s = %s\n' % (k, c['raw']) for k, c in case['glob']))
                f.write('[vcmd]\n' + ''.join('%s = %s\n' % (k, c['raw']) for k, c in case['ini']))
            kw = {'config_filenames': ('doit.cfg',)}
        elif case['ini_mode'] == 'toml':
            def tv(c):
                v = c['raw'] if 'raw' in c else c['val']
                if isinstance(v, bool):
                    return 'true' if v else 'false'
                if isinstance(v, list):
                    return '[' + ', '.join(json.dumps(x) for x in v) + ']'
                return json.dumps(v)
            with open('pyproject.toml', 'w') as f:
                f.write('[tool.doit]\n' + ''.join('%s = %s\n' % (k, tv(c)) for k, c in case['glob']))
                if plug:
                    f.write('[tool.doit.plugins.command]\nvcmd = "optlib:PLUGIN_VCMD"\n'
                            '[tool.doit.plugins.backend]\nvmem = "optlib:PLUGIN_BACKEND"\n')
                f.write('[tool.doit.commands.vcmd]\n' + ''.join('%s = %s\n' % (k, tv(c)) for k, c in case['ini']))
            kw = {'config_filenames': ('pyproject.toml',)}
        else:
            extra = {'vcmd': cfg_py(case['ini'])}
            if case['glob'] or case['ini_mode'] == 'mixed':
                extra['GLOBAL'] = cfg_py(case['glob'])
            if plug:
                extra['COMMAND'] = {'vcmd': 'optlib:PLUGIN_VCMD'}
                extra['BACKEND'] = {'vmem': 'optlib:PLUGIN_BACKEND'}
            kw['extra_config'] = extra
        extra_before = None
        if case['ini_mode'] == 'mixed':
            # API dict AND config files at once; the SAME extra_config object goes to every DoitMain of this case
            import copy
            extra_before = copy.deepcopy(extra)
            kw['config_filenames'] = ('pyproject.toml', 'doit.cfg')
            write_config_files(case.get('prev_files') if case.get('prev_argv') is not None and 'prev_files' in case
                               else case.get('files'))
        with environ(case['env']), contextlib.redirect_stderr(err):
            if case.get('prev_argv') is not None:
                # an earlier invocation in the same process (new DoitMain / command objects) must leave no trace
                try:
                    Main(task_loader=make_loader(dict(ns)), **kw).run(['vcmd'] + list(case['prev_argv']))
                except BaseException:  # noqa
                    pass
                del box['seen'][:]
                box['setup'] = []
                box.pop('backend_seen', None)
                for f in os.listdir('.'):
                    if f.startswith('.doit.db'):      # the state file is not this property's subject (another backend may follow)
                        os.remove(f)
                err.seek(0)
                err.truncate()
                if case['ini_mode'] == 'mixed':
                    # the project's files change (or: the caller moves on to another project directory)
                    write_config_files(case.get('files'))
            try:
                code = Main(task_loader=make_loader(ns), **kw).run(prefix + ['vcmd'] + list(case['argv']))
            except BaseException as ex:  # noqa
                from doit.cmdparse import CmdParseError
                if isinstance(ex, CmdParseError):
                    # a parse error that DoitMain.run did not turn into "ERROR: ..." / exit code 3
                    return {'res': {'err': classify_error(str(ex)), 'escaped': True}, 'exit': 'exception'}
                return {'res': {'err': 'crash', 'exc': type(ex).__name__}}
    finally:
        os.chdir(old)
    text = err.getvalue()
    mutated = None
    if extra_before is not None and extra != extra_before:
        mutated = {'before': {k: {kk: canon_val(vv) for kk, vv in v.items()} for k, v in extra_before.items()},
                   'after': {k: {kk: canon_val(vv) for kk, vv in v.items()} for k, v in extra.items()}}
    if code == 0 and box['seen']:
        params, args = box['seen'][0]
        out = {'res': params_obs(names, params, args), 'exit': code}
        if plug:
            out['backend_seen'] = box.get('backend_seen')
        if mutated:
            out['extra_config_mutated'] = mutated
        if lspec is not None and box['setup']:
            out['setup'] = box['setup'][0]
            out['setup']['ok']['pos'] = list(args)
        return out
    if code == 3 and text.startswith('ERROR:') and 'Traceback' not in text:
        out = {'res': {'err': classify_error(text)}, 'exit': code}
    else:
        out = {'res': {'err': 'crash', 'exc': text.strip().split('\n')[-1][:80]}, 'exit': code}
    if mutated:
        out['extra_config_mutated'] = mutated
    return out


def impl_task(case):
    """Task(params=spec).init_options(argv) with cfg_values (per-task config section / API task_opts)"""
    from doit.task import Task
    spec = case['spec']
    names = [o['name'] for o in spec]
    with environ(case['env']):
        try:
            t = Task('t', None, params=[to_cmdoption_dict(o) for o in spec])
            if case['ini'] or case.get('cfg_not_none'):
                t.cfg_values = cfg_py(case['ini'])
            rest = t.init_options(list(case['argv']))
            res = params_obs(names, t.options, rest if rest is not None else [])
            res['ok']['nd'] = None
            # a second call must not parse again nor change anything
            again = t.init_options(list(case['argv']))
            res2 = params_obs(names, t.options, rest if rest is not None else [])
            res2['ok']['nd'] = None
            return {'res': res, 'res2': res2, 'again_is_none': again is None}
        except Exception as ex:  # noqa
            return {'res': exc_obs(ex)}


def impl_runtask(case, workdir):
    """`doit t <args...>` through DoitMain + ModuleTaskLoader (NamespaceTaskLoader.load_tasks sets cfg_values from
    the `task:t` section) + TaskControl._process_filter (parses the arguments after the task name); the values are
    observed by the task's own action (task.options, task.pos_arg_val) and by the order in which tasks ran"""
    from doit.doit_cmd import DoitMain
    from doit.cmd_base import ModuleTaskLoader
    spec = case['spec']
    names = [o['name'] for o in spec]
    rec = {'order': []}

    def act_t(task):
        rec['t'] = (dict(task.options), task.pos_arg_val)
        rec['order'].append('t')

    def task_t():
        d = {'actions': [act_t], 'params': [to_cmdoption_dict(o) for o in spec], 'verbosity': 0}
        if case.get('pos_arg'):
            d['pos_arg'] = 'posv'
        return d

    def mk(name):
        def creator():
            return {'actions': [lambda: rec['order'].append(name) or None], 'verbosity': 0}
        return creator

    ns = {'task_t': task_t, 'task_u': mk('u'), 'task_w': mk('w'), 'DOIT_CONFIG': {'verbosity': 0, 'reporter': 'zero'}}
    old = os.getcwd()
    os.chdir(workdir)
    err, out = io.StringIO(), io.StringIO()
    try:
        for f in os.listdir(workdir):
            os.remove(os.path.join(workdir, f))
        kw = {'config_filenames': ()}
        mode = case.get('ini_mode', 'api')
        if mode == 'file':
            with open('doit.cfg', 'w') as f:
                f.write('[task:t]\n' + ''.join('%s = %s\n' % (k, c['raw']) for k, c in case['ini']))
            kw = {'config_filenames': ('doit.cfg',)}
        elif mode == 'toml':
            def tv(c):
                v = c['raw'] if 'raw' in c else c['val']
                if isinstance(v, bool):
                    return 'true' if v else 'false'
                if isinstance(v, list):
                    return '[' + ', '.join(json.dumps(x) for x in v) + ']'
                return json.dumps(v)
            with open('pyproject.toml', 'w') as f:
                f.write('[tool.doit.tasks.t]\n' + ''.join('%s = %s\n' % (k, tv(c)) for k, c in case['ini']))
            kw = {'config_filenames': ('pyproject.toml',)}
        elif case['ini'] or case.get('cfg_not_none'):
            kw['extra_config'] = {'task:t': cfg_py(case['ini'])}
        if case.get('api'):
            # doit.api.run_tasks: no command line at all; task_opts[t] becomes t.cfg_values (typed values, not parsed),
            # task_opts[t][pos_arg] becomes pos_arg_val as it is.  Called twice with the same dict object.
            import copy
            from doit.api import run_tasks
            opts = cfg_py(case['task_opts'])
            if case.get('pos_arg') and case.get('api_pos_given'):
                opts['posv'] = list(case['pos'])
            tasks = {'t': opts}
            before = copy.deepcopy(tasks)
            outs = []
            with environ(case['env']), contextlib.redirect_stderr(err), contextlib.redirect_stdout(out):
                for _ in range(2):
                    rec.clear()
                    rec['order'] = []
                    try:
                        run_tasks(ModuleTaskLoader(dict(ns)), tasks, extra_config=kw.get('extra_config'))
                        if 't' in rec:
                            opts_seen, posv = rec['t']
                            r = params_obs(names, opts_seen, list(posv) if case.get('pos_arg') else rec['order'][1:])
                            r['ok']['nd'] = None
                        else:
                            r = {'err': 'crash', 'exc': 'task t did not run: ' + err.getvalue().strip().split('\n')[-1][:60]}
                    except BaseException as ex:  # noqa
                        r = exc_obs(ex)
                    outs.append(r)
            res = {'res': outs[0], 'res2': outs[1]}
            if tasks != before:
                res['task_opts_mutated'] = {'before': canon_val(repr(before)), 'after': canon_val(repr(tasks))}
            return res
        with environ(case['env']), contextlib.redirect_stderr(err), contextlib.redirect_stdout(out):
            try:
                code = DoitMain(task_loader=ModuleTaskLoader(ns), **kw).run(['t'] + list(case['argv']))
            except BaseException as ex:  # noqa
                from doit.cmdparse import CmdParseError
                if isinstance(ex, CmdParseError):
                    return {'res': {'err': classify_error(str(ex)), 'escaped': True}, 'exit': 'exception'}
                return {'res': {'err': 'crash', 'exc': type(ex).__name__}}
    finally:
        os.chdir(old)
    text = err.getvalue()
    if code == 0 and 't' in rec:
        opts, posv = rec['t']
        pos = list(posv) if case.get('pos_arg') else rec['order'][1:]
        res = params_obs(names, opts, pos)
        res['ok']['nd'] = None
        return {'res': res, 'exit': code, 'ran': rec['order']}
    if code == 3 and text.startswith('ERROR:') and 'Traceback' not in text:
        return {'res': {'err': classify_error(text)}, 'exit': code}
    return {'res': {'err': 'crash', 'exc': (text.strip().split('\n') or [''])[-1][:80]}, 'exit': code, 'ran': rec['order']}


def impl_creator(case):
    """@task_params creator through doit.loader.load_tasks (config section `task:<name>`, args after the task name)"""
    from doit import loader
    spec = case['spec']
    names = [o['name'] for o in spec]
    got = {}

    @loader.task_params([to_cmdoption_dict(o) for o in spec])
    def task_t(**kw):
        got.update(kw)
        return {'actions': None}

    config = {'task:t': cfg_py(case['ini'])} if case['ini'] else {}
    with environ(case['env']):
        try:
            loader.load_tasks({'task_t': task_t}, (), False, ['t'] + list(case['argv']), config or None, None)
            return {'res': {'ok': {'vals': [[n, canon_val(got[n]) if n in got else '<missing>'] for n in names],
                                   'nd': None, 'pos': None}}}
        except Exception as ex:  # noqa
            return {'res': exc_obs(ex)}


# ------------------------------------------------------------------------------------------ the real `run` command

RUN_POOL = {'always': [True, False], 'continue': [True, False], 'single': [True, False], 'verbosity': [0, 1, 2],
            'num_process': [0, 1, 2], 'par_type': ['thread', 'process']}
_run_spec_cache = {}


def run_spec():
    """option table of the real `doit run` with a ModuleTaskLoader (introspected)"""
    from doit.cmd_run import Run
    from doit.cmd_base import ModuleTaskLoader
    from doit.plugin import PluginDict
    key = id(Run)
    if key not in _run_spec_cache:
        opts = Run(task_loader=ModuleTaskLoader({}), config={}, cmds=PluginDict()).get_options()
        for o in opts:
            if isinstance(canon_val(o.default), dict):
                o.default = None
        _run_spec_cache[key] = spec_of_cmdoptions(opts)
    return _run_spec_cache[key]


def _rr_mark(logfile, name, parent_pid, fail=False, marks=False):
    """action of the probe tasks (module level: picklable for the process runner)"""
    import threading
    import time
    here = 'serial'
    if os.getpid() != parent_pid:
        here = 'process'
    elif threading.current_thread() is not threading.main_thread():
        here = 'thread'
    if fail and here != 'serial':
        fail = False            # `continue` is only read off a serial run; a failure in a parallel run would make which
                                # of the other tasks still start a matter of timing
    fd = os.open(logfile, os.O_WRONLY | os.O_APPEND | os.O_CREAT)
    os.write(fd, ('%s %s\n' % (name, here)).encode())
    os.close(fd)
    if marks:
        sys.stdout.write('OUTMARK\n')
        sys.stderr.write('ERRMARK\n')
    return not fail


def run_behaviour(vals):
    """what `doit run t u a_fail z` must do for resolved option values"""
    v = dict(vals)
    verb = v.get('verbosity')
    return {'continue': bool(v.get('continue')), 'single': bool(v.get('single')), 'always': bool(v.get('always')),
            'verbosity': 1 if verb is None else verb,
            'mode': 'serial' if not v.get('num_process') else v.get('par_type')}


def impl_realrun(case, workdir):
    """DoitMain.run(['run'] + options + ['t','u','a_fail','z']) on five probe tasks; the resolved values of
    continue / single / always / verbosity / num_process / par_type are read off what the run does"""
    from doit.doit_cmd import DoitMain
    from doit.cmd_base import ModuleTaskLoader
    log = os.path.join(workdir, 'rr.log')
    pid = os.getpid()
    # the harness worker is a daemonic pool process; doit's process runner must be allowed to start children
    import multiprocessing
    multiprocessing.current_process()._config['daemon'] = False

    def mk(name, **kw):
        extra = dict(kw)
        marks = extra.pop('marks', False)
        fail = extra.pop('fail', False)

        def creator():
            d = {'actions': [(_rr_mark, [log, name, pid, fail, marks])]}
            d.update(extra)
            return d
        return creator

    ns = {'task_d': mk('d'), 'task_t': mk('t', task_dep=['d'], marks=True), 'task_u': mk('u', uptodate=[True]),
          'task_a_fail': mk('a_fail', fail=True), 'task_z': mk('z'),
          'DOIT_CONFIG': dict([(k, v) for k, v in case['dodo']] + [('reporter', 'zero')])}
    old = os.getcwd()
    os.chdir(workdir)
    err, out = io.StringIO(), io.StringIO()
    try:
        for f in os.listdir(workdir):
            os.remove(os.path.join(workdir, f))
        kw = {'config_filenames': ()}
        mode = case.get('ini_mode', 'api')
        if mode == 'file':
            with open('doit.cfg', 'w') as f:
                if case['glob']:
                    f.write('[GLOBAL]\n' + ''.join('%s = %s\n' % (k, c['raw']) for k, c in case['glob']))
                f.write('[run]\n' + ''.join('%s = %s\n' % (k, c['raw']) for k, c in case['ini']))
            kw = {'config_filenames': ('doit.cfg',)}
        elif mode == 'toml':
            with open('pyproject.toml', 'w') as f:
                f.write('[tool.doit]\n' + ''.join('%s = %s\n' % (k, _toml_value(c)) for k, c in case['glob']))
                f.write('[tool.doit.commands.run]\n' + ''.join('%s = %s\n' % (k, _toml_value(c)) for k, c in case['ini']))
            kw = {'config_filenames': ('pyproject.toml',)}
        else:
            kw['extra_config'] = {'run': cfg_py(case['ini']), 'GLOBAL': cfg_py(case['glob'])}
        with environ(case['env']), contextlib.redirect_stderr(err), contextlib.redirect_stdout(out):
            try:
                code = DoitMain(task_loader=ModuleTaskLoader(ns), **kw).run(['run'] + list(case['argv']))
            except BaseException as ex:  # noqa
                return {'res': {'err': 'crash', 'exc': type(ex).__name__}}
        lines = []
        if os.path.exists(log):
            with open(log) as f:
                lines = [l.split() for l in f.read().split('\n') if l.strip()]
    finally:
        os.chdir(old)
    text = err.getvalue()
    ran = [l[0] for l in lines]
    where = dict((l[0], l[1]) for l in lines)
    if code == 3 and 't' not in ran:
        if text.startswith('ERROR:') and 'Traceback' not in text:
            return {'res': {'err': classify_error(text)}, 'exit': code}
        return {'res': {'err': 'crash', 'exc': text.strip().split('\n')[-1][:80]}, 'exit': code}
    if 't' not in ran:
        return {'res': {'err': 'crash', 'exc': 'task t did not run (exit %s): %s' % (code, text.strip().split('\n')[-1][:60])},
                'exit': code, 'ran': ran}
    mode_seen = where['t']
    beh = {'single': 'd' not in ran, 'always': 'u' in ran, 'mode': mode_seen,
           'continue': ('z' in ran) if mode_seen == 'serial' else None,
           # only a serial run shows it reliably: a process worker has its own streams, and with threads overlapping
           # python-actions swap sys.stdout under each other (open finding of C17), output can escape the capture
           'verbosity': None if mode_seen != 'serial' else
           (2 if 'OUTMARK' in out.getvalue() else 1 if 'ERRMARK' in text else 0)}
    return {'res': {'ok': {'behaviour': beh}}, 'exit': code, 'ran': ran}
