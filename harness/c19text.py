"""C19, text reporters (wave 5): the REAL ConsoleReporter / ExecutedOnlyReporter / ZeroReporter / ErrorOnlyReporter driven
with generated reporter-call sequences (real Task objects, real TaskFailed / TaskError / UnmetDependency ... objects, a
StringIO as outstream, sys.stderr captured) against the Lean model lean/DoitModel/Model/ReportText.lean (exact text), and
the recorder used by the end-to-end runs of props/c19.py (CallLog: the calls the tee'd built-in reporter really got).

request: {"model":"c19","text":true,"cls":kind,"fv":N,"tasks":[{name,title,acts,executed,verb,out,err}],"calls":[...]}
answer : {"out": text, "err": text, "progress": [[t,kind]], "happened": [[t,kind]], "failures":[t], "blocks":[t]}
"""
import io
import random
import sys

import common

TEXT_KINDS = ['console', 'executed-only', 'zero', 'error-only']
MON = 'C19_text'
_PFX = {'.  ': 'executed', '-- ': 'up-to-date', '!! ': 'ignored'}

NAMES = ['a', 'b', 'build', '_h', '_priv', 'g', 'g:_x', 'g:y', 'g:_', 'x_', 'doc:_gen', '_g:z', 't1', 'T', 'é']
FAILS = ['TaskFailed', 'TaskError', 'UnmetDependency', 'SetupError', 'DependencyError', 'BaseFail']


# ------------------------------------------------------------------------------------------------ generation

def gen_case(rng):
    """a task table + a reporter-call sequence.  Not restricted to what the runner produces: the theorems quantify over
    every call sequence (complete_run anywhere / twice, failures of tasks never announced, two failures of one task)"""
    n = rng.randint(1, 5)
    names = rng.sample(NAMES, n)
    tasks = []
    for nm in names:
        t = {'name': nm, 'acts': rng.random() < 0.75, 'executed': rng.random() < 0.8,
             'verb': rng.choice([0, 0, 0, 1, 2]), 'custom_title': None, 'out': '', 'err': ''}
        r = rng.random()
        if r < 0.2:
            t['custom_title'] = '%s => custom' % nm
        elif r < 0.27:
            t['custom_title'] = rng.choice(['_' + nm, '', '-- ' + nm])       # a title is not a name
        elif r < 0.32:
            t['custom_title'] = rng.randint(0, 99)                           # '%s' formatting of a non-string
        if t['acts'] and rng.random() < 0.4:
            t['out'] = rng.choice(['o1\n', 'line\nline2\n', 'x'])
        if t['acts'] and rng.random() < 0.4:
            t['err'] = rng.choice(['e1\n', 'warn\n', 'y'])
        tasks.append(t)
    calls = []
    m = rng.randint(1, 14)
    dup_fail = rng.random() < 0.3
    for _ in range(m):
        t = rng.randrange(n)
        r = rng.random()
        if r < 0.12:
            calls.append(['get_status', t])
        elif r < 0.32:
            calls.append(['execute', t])
        elif r < 0.52:
            f = ['failure', t, rng.choice(FAILS), 'msg%d' % rng.randint(0, 9), rng.random() < 0.8,
                 rng.random() < 0.3]      # last: constructed from a caught exception (traceback text in get_msg)
            calls.append(f)
            if dup_fail and rng.random() < 0.5:
                calls.append(['failure', t, rng.choice(FAILS), 'again%d' % rng.randint(0, 9), True, False])
        elif r < 0.6:
            calls.append(['success', t])
        elif r < 0.74:
            calls.append(['skip_uptodate', t])
        elif r < 0.84:
            calls.append(['skip_ignore', t])
        elif r < 0.88:
            calls.append(['cleanup_error', 'cleanup%d' % rng.randint(0, 9)])
        elif r < 0.94:
            calls.append(['runtime_error', 'rt%d\n' % rng.randint(0, 9) if rng.random() < 0.5 else 'rt-x'])
        elif r < 0.97:
            calls.append(['teardown', t])
        else:
            calls.append(['complete'])
    if rng.random() < 0.9:
        calls.append(['complete'])
    return {'cls': rng.choice(TEXT_KINDS), 'fv': rng.choice([0, 0, 1, 2]), 'tasks': tasks, 'calls': calls,
            'fv_default': rng.random() < 0.15}


# ------------------------------------------------------------------------------------------------ the real classes

def _title_of(t):
    return '%s' % (t['custom_title'] if t.get('custom_title') is not None else t['name'])


def run_real(case):
    """drive the real reporter class; returns {'out','err','exc','msgs': real get_msg() of each failure call}"""
    common.use_repo()
    from doit import reporter as rp
    from doit import exceptions as ex
    from doit.task import Task
    base = {'console': rp.ConsoleReporter, 'executed-only': rp.ExecutedOnlyReporter, 'zero': rp.ZeroReporter,
            'error-only': rp.ErrorOnlyReporter}[case['cls']]
    objs = []
    for t in case['tasks']:
        kw = {}
        if t.get('custom_title') is not None:
            kw['title'] = (lambda v: (lambda task: v))(t['custom_title'])
        task = Task(t['name'], ['echo x'] if t['acts'] else None, verbosity=t['verb'], **kw)
        task.executed = t['executed']
        if t['acts']:
            a = task.actions[0]
            a.out = t['out'] or None
            a.err = t['err'] or None
        objs.append(task)
    out = io.StringIO()
    err = io.StringIO()
    opts = {} if case.get('fv_default') and case['fv'] == 0 else {'failure_verbosity': case['fv']}
    msgs = []
    exc = None
    saved = sys.stderr
    sys.stderr = err
    try:
        rep = base(out, opts)
        for c in case['calls']:
            k = c[0]
            if k == 'get_status':
                rep.get_status(objs[c[1]])
            elif k == 'execute':
                rep.execute_task(objs[c[1]])
            elif k == 'failure':
                cls = getattr(ex, c[2])
                if len(c) > 5 and c[5]:
                    try:
                        raise ValueError('inner ' + c[3])
                    except ValueError as e:
                        fail = cls(c[3], e, report=c[4])
                else:
                    fail = cls(c[3], report=c[4])
                msgs.append(fail.get_msg())
                rep.add_failure(objs[c[1]], fail)
            elif k == 'success':
                rep.add_success(objs[c[1]])
            elif k == 'skip_uptodate':
                rep.skip_uptodate(objs[c[1]])
            elif k == 'skip_ignore':
                rep.skip_ignore(objs[c[1]])
            elif k == 'cleanup_error':
                rep.cleanup_error(ex.TaskError(c[1]))
            elif k == 'runtime_error':
                rep.runtime_error(c[1])
            elif k == 'teardown':
                rep.teardown_task(objs[c[1]])
            elif k == 'complete':
                rep.complete_run()
    except Exception as e:  # noqa  -- a crash of the reporter is data
        exc = type(e).__name__
    finally:
        sys.stderr = saved
    return {'out': out.getvalue(), 'err': err.getvalue(), 'exc': exc, 'msgs': msgs}


def request(case, real):
    """the model gets the messages the real fail objects carry (opaque strings)"""
    calls, i = [], 0
    for c in case['calls']:
        if c[0] == 'failure':
            calls.append(['failure', c[1], c[2], real['msgs'][i] if i < len(real['msgs']) else c[3], bool(c[4])])
            i += 1
        elif c[0] == 'cleanup_error':
            calls.append(['cleanup_error', '%s\n' % c[1]])          # TaskError(msg).get_msg()
        else:
            calls.append(list(c))
    tasks = [{'name': t['name'], 'title': _title_of(t), 'acts': bool(t['acts']), 'executed': bool(t['executed']),
              'verb': t['verb'], 'out': t.get('out') or '', 'err': t.get('err') or ''} for t in case['tasks']]
    return {'model': 'c19', 'text': True, 'cls': case['cls'], 'fv': case['fv'], 'tasks': tasks, 'calls': calls}


def decode_progress(text, tasks):
    """(P) the prefix table read back from the REAL text: [(task index, kind)]; None where a title is ambiguous"""
    by_title = {}
    for i, t in enumerate(tasks):
        by_title.setdefault(t['title'], []).append(i)
    out = []
    for line in text.split('\n'):
        k = _PFX.get(line[:3])
        if k is not None:
            ids = by_title.get(line[3:], [])
            out.append([ids[0] if len(ids) == 1 else None, k])
    return out


def compare(case, real, ans):
    """list of problems (empty = the real text is what the model says has to be written)"""
    bad = []
    if real['exc']:
        bad.append('the reporter raised %s' % real['exc'])
    if 'error' in ans:
        return bad + ['driver: %s' % ans['error']]
    if real['out'] != ans['out']:
        bad.append('outstream text differs from the model: real %r  model %r' % (real['out'][:400], ans['out'][:400]))
    if real.get('err') is not None and real['err'] != ans['err']:
        bad.append('stderr text differs from the model: real %r  model %r' % (real['err'][:300], ans['err'][:300]))
    return bad


def monitor_decode(req, real, ans):
    """(P) console_decode on the implementation: the progress lines of the real text give back what happened"""
    if req['cls'] != 'console' or 'error' in ans:
        return None
    titles = [t['title'] for t in req['tasks']]
    msgs = ''.join(str(c[3]) for c in req['calls'] if c[0] == 'failure') + \
        ''.join(t['out'] + t['err'] for t in req['tasks']) + ''.join(str(c[1]) for c in req['calls'] if c[0] == 'runtime_error')
    if any('\n' in t for t in titles) or len(set(titles)) != len(titles) or any(p in msgs for p in _PFX):
        return None           # decoding by text needs line-shaped, distinct titles and bodies without the prefixes
    got = decode_progress(real['out'], req['tasks'])
    return got == ans['happened']


def witness(case, real, ans, problems):
    return {'text_case': case, 'reporter': case['cls'], 'failed_monitors': [MON], 'real_out': real['out'][:1500],
            'real_err': (real.get('err') or '')[:500], 'model_out': ans.get('out', '')[:1500], 'problems': problems}


def shrink(case, still, budget=60):
    """delta debugging on the call list, then on the task attributes"""
    cur = dict(case)
    n = 0
    changed = True
    while changed and n < budget:
        changed = False
        for i in range(len(cur['calls'])):
            cand = dict(cur, calls=cur['calls'][:i] + cur['calls'][i + 1:])
            n += 1
            if still(cand):
                cur, changed = cand, True
                break
    for i, t in enumerate(cur['tasks']):
        for k, v in (('custom_title', None), ('out', ''), ('err', ''), ('verb', 0), ('executed', True), ('acts', True)):
            if t.get(k) != v and n < budget * 2:
                ts = [dict(x) for x in cur['tasks']]
                ts[i][k] = v
                cand = dict(cur, tasks=ts)
                n += 1
                if still(cand):
                    cur = cand
    return cur


def check_one(case):
    real = run_real(case)
    req = request(case, real)
    ans = common.drv_batch([req])[0]
    probs = compare(case, real, ans)
    if monitor_decode(req, real, ans) is False:
        probs.append('console_decode: progress lines of the real text %s != what happened %s'
                     % (decode_progress(real['out'], req['tasks']), ans['happened']))
    return real, req, ans, probs


def eval_text_batch(batch):
    """worker: batch = {'text_gen': [seeds]} / {'text_cases': [cases]}"""
    st = common.WorkerStats()
    common.use_repo()
    cases = [dict(c) for c in batch.get('text_cases', [])]
    for seed in batch.get('text_gen', []):
        c = gen_case(random.Random(seed))
        c['seed'] = seed
        cases.append(c)
    reals = [run_real(c) for c in cases]
    reqs = [request(c, r) for c, r in zip(cases, reals)]
    try:
        answers = common.drv_batch(reqs)
    except Exception as ex:  # noqa
        answers = [{'error': 'driver failed: %s' % str(ex)[:200]} for _ in reqs]
    for c, r, q, a in zip(cases, reals, reqs, answers):
        st.traces += 1
        nontriv = bool(r['out'] or r['err'])
        st.case({'text_case': {k: v for k, v in c.items() if k != 'seed'}}, nontriv)
        st.count('text_unit:cases')
        st.count('text_unit:cls=%s' % c['cls'])
        st.count('text_unit:fv=%s' % c['fv'])
        if 'error' in a:
            st.count('driver_unavailable')
            continue
        st.count('text_unit:lines', a.get('nlines', 0))
        st.count('text_unit:progress_lines', len(a['progress']))
        st.count('text_unit:summary_blocks', len(a['blocks']))
        st.count('text_unit:skip_lines', a.get('skiplines', 0))
        if any(t['name'].startswith('_') for t in q['tasks']):
            st.count('text_unit:has_hidden_task')
        if any(':_' in t['name'] for t in q['tasks']):
            st.count('text_unit:has_subtask_with_inner_underscore')
        if any(t['title'] != t['name'] for t in q['tasks']):
            st.count('text_unit:has_custom_title')
        fl = a['failures']
        if len(fl) != len(set(fl)):
            st.count('text_unit:two_failures_same_task')
        if any(cc[0] == 'failure' and not cc[4] for cc in q['calls']):
            st.count('text_unit:has_report_false')
        if r['err']:
            st.count('text_unit:stderr_nonempty')
        md = monitor_decode(q, r, a)
        st.count('text_unit:decode_monitor=%s' % ('skipped' if md is None else md))
        probs = compare(c, r, a)
        if md is False:
            probs.append('console_decode: progress lines of the real text %s != what happened %s'
                         % (decode_progress(r['out'], q['tasks']), a['happened']))
        if probs:
            def still(cc):
                try:
                    return bool(check_one(cc)[3])
                except Exception:  # noqa
                    return False
            small = shrink(c, still) if len(st.violations) < 2 else c
            r2, q2, a2, p2 = check_one(small)
            if not p2:
                small, r2, a2, p2 = c, r, a, probs
            st.violation(witness(small, r2, a2, p2), 'monitor:' + MON,
                         '%s false on the implementation (%s reporter driven directly): %s' % (MON, small['cls'], p2[0]))
            st.count('violation_found')
    return st


# ------------------------------------------------------------------------------------------------ end-to-end recorder

class CallLog(object):
    """what the tee'd built-in reporter of an end-to-end run was really called with, in the request format"""

    def __init__(self):
        self.tasks, self.index, self.calls, self.bad = [], {}, [], None

    def tid(self, task):
        i = self.index.get(task.name)
        if i is None:
            i = self.index[task.name] = len(self.tasks)
            ent = {'name': task.name, 'title': '', 'acts': True, 'executed': True, 'verb': 0, 'out': '', 'err': ''}
            try:
                ent['title'] = '%s' % task.title()
                ent['acts'] = bool(task.actions)
            except BaseException as e:  # noqa  -- lazily invalid `actions`: outside this comparison
                self.bad = 'task attribute raised %s' % type(e).__name__
            self.tasks.append(ent)
        return i

    def call(self, kind, task):
        try:
            self.calls.append([kind, self.tid(task)])
        except BaseException as e:  # noqa
            self.bad = 'recorder: %s' % type(e).__name__

    def failure(self, task, fail):
        try:
            self.calls.append(['failure', self.tid(task), fail.get_name(), fail.get_msg(), bool(fail.report)])
        except BaseException as e:  # noqa
            self.bad = 'recorder: %s' % type(e).__name__

    def msg(self, kind, text):
        self.calls.append([kind, text if isinstance(text, str) else None])
        if not isinstance(text, str):
            self.bad = 'non-string message'

    def complete(self, rep):
        """snapshot of what complete_run is about to read"""
        try:
            for res in getattr(rep, 'failures', []):
                task = res['task']
                ent = self.tasks[self.tid(task)]
                ent['executed'] = bool(task.executed)
                ent['verb'] = int(task.verbosity or 0)
                ent['out'] = ''.join(a.out for a in task.actions if a.out)
                ent['err'] = ''.join(a.err for a in task.actions if a.err)
        except BaseException as e:  # noqa
            self.bad = 'snapshot raised %s' % type(e).__name__
        self.calls.append(['complete'])

    def request(self, kind, fv):
        return {'model': 'c19', 'text': True, 'cls': kind, 'fv': int(fv or 0), 'tasks': self.tasks, 'calls': self.calls}
