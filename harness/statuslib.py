"""History harness of the status family (model M2; used by C03, C04 and later C05b, C06, C10, C13, C20).

    history (list of ops)  ->  real doit runs on real files in a scratch dir  ->  observations
                           ->  the same history replayed by the Lean model (`doitdrv`, model "status")
                           ->  per step: correspondence diff (K) and monitor verdicts (P)

A *case* is a JSON-able dict

    {'backend': 'json'|'dbm'|'sqlite3', 'checker': 'md5'|'timestamp', 'ntasks': n, 'npaths': n, 'ops': [op...]}

History ops (task and path arguments are small integers; task i is `t<i>`, path i is the file `f<i>`):

    ['edit', p, cid]          write content number `cid` to f<p> at a fresh mtime (size is a function of cid: 4 or 5 bytes)
    ['touch', p]              fresh mtime, same content (no-op when the file does not exist)
    ['delete', p]             remove the file
    ['editKeep', p, cid]      change the content, keep the mtime (outside the checker's premise; informational stream only)
    ['redefine', t, {'deps': [p...], 'targets': [p...], 'uptodate': [item...]}]
                              item: ['const', b] ['none'] ['runOnce'] ['cfg', d] ['res', t'] ['shell', b] ['custom', b|None]
                              optional: 'getargs': t' together with 'task_dep': [t'] (getargs={'v': (t', None)} + task_dep)
    ['run', {'sel': [t...]|None, 'always': b, 'cont': b, 'par': None|'process'|'thread',
             'plan': {str(t): {'ok': b, 'writes': [[p, cid]...], 'res': k|None}}}]
                              one `doit run`; `plan` says what each task's action does *if* it is executed
    ['forget', [t...]]        `doit forget t...`   ([] = `doit forget --all`)
    ['ignore', [t...]]        `doit ignore t...`
    ['reset-dep', [t...]]     `doit reset-dep t...`   ([] = all tasks)
    ['checker', 'md5'|'timestamp']    `--check_file_uptodate` used from now on

mtimes are integers from a harness clock applied with os.utime(ns=...): nothing depends on wall-clock granularity.
The real mtimes are unique per write; the model has its own clock; dumps are compared after translating real
mtimes to model mtimes through the write that produced them.

Everything the implementation does is seen through observables only: the reporter callback stream (a reporter
object passed through DOIT_CONFIG), the exit code / exception of `DoitMain.run`, the stdout of reset-dep, and the
logical DB content read back through the backend's `get` API.
"""
import contextlib
import hashlib
import io
import json
import os
import shutil

import common

BACKENDS = ['json', 'dbm', 'sqlite3']
CHECKERS = ['md5', 'timestamp']
CK_MODEL = {'md5': 'md5', 'timestamp': 'ts'}
CK_CLASS = {'MD5Checker': 'md5', 'TimestampChecker': 'ts', 'UserMD5': 'md5', 'UserTS': 'ts'}
NS = 10 ** 9
T0 = 1000          # first real mtime (seconds); never 0 (a float 0.0 is falsy in MD5Checker.get_state)


EMPTY = 99         # content id of the empty file (opt-in: only generated in the rich alphabet)


def size_of(cid):
    return 0 if cid == EMPTY else 4 + (cid % 2)


def content_of(cid):
    return '' if cid == EMPTY else ('%03d' % cid).ljust(size_of(cid), 'x')


_MD5_CID = {}
_MD5_RES = {}


def _md5(s):
    return hashlib.md5(s.encode('utf-8')).hexdigest()


for _i in range(200):
    _MD5_CID[_md5(content_of(_i))] = _i
    _MD5_RES[_md5('r%d' % _i)] = _i


SUBSEC_FRACTIONS = [123456789, 1, 999999999, 500000000, 0]


CUSTOM_VALUES = {'0': 0, 'empty-str': '', 'empty-list': [], '1': 1, 'str': 'x', 'list': [0]}


def fname(p):
    return 'f%d' % p


def tname(t):
    return 't%d' % t


# ----------------------------------------------------------------------------------------------
# reporter

class RecordingReporter(object):
    """reporter object handed to doit through DOIT_CONFIG['reporter']; records the callback stream"""
    desc = 'recording'

    def __init__(self):
        self.events = []

    def initialize(self, tasks, selected_tasks):
        pass

    def get_status(self, task):
        self.events.append(('get_status', task.name, None))

    def execute_task(self, task):
        self.events.append(('execute_task', task.name, None))

    def add_failure(self, task, fail_info):
        msg = ''
        try:
            msg = str(fail_info.get_msg())
        except Exception:  # noqa
            pass
        self.events.append(('add_failure', task.name, (type(fail_info).__name__, msg[:200])))

    def add_success(self, task):
        self.events.append(('add_success', task.name, None))

    def skip_uptodate(self, task):
        self.events.append(('skip_uptodate', task.name, None))

    def skip_ignore(self, task):
        self.events.append(('skip_ignore', task.name, None))

    def cleanup_error(self, exception):
        self.events.append(('cleanup_error', None, None))

    def runtime_error(self, msg):
        self.events.append(('runtime_error', None, str(msg)[:200]))

    def teardown_task(self, task):
        self.events.append(('teardown_task', task.name, None))

    def complete_run(self):
        self.events.append(('complete_run', None, None))


# ----------------------------------------------------------------------------------------------
# the world: files + task definitions + one DB

_USER_CALC = []


def make_user_calc():
    if not _USER_CALC:
        from doit.dependency import UptodateCalculator

        class SameResultAs(UptodateCalculator):
            def __init__(self, dep_name):
                UptodateCalculator.__init__(self)
                self.dep_name = dep_name
                self.key = '_result:%s' % dep_name

            def configure_task(self, task):
                task.task_dep.append(self.dep_name)

            def __call__(self, task, values):
                assert self.dep_name in self.tasks_dict
                now = self.get_val(self.dep_name, 'result:')
                task.value_savers.append(lambda: {self.key: self.get_val(self.dep_name, 'result:')})
                last = values.get(self.key)
                return False if last is None else last == now
        _USER_CALC.append(SameResultAs)
    return _USER_CALC[0]


FORMS = ['tuple1', 'tuple2', 'tuple3', 'tuple-magic', 'task-only', 'noargs', 'partial', 'method', 'defaults']
_USER_CHECKERS = {}


def user_checker(kind, how):
    """the value of `check_file_uptodate`: the builtin name, or (how = 'module' / 'nested') a user-defined subclass of the
    builtin checker class with the same behaviour -- `UserMD5` / `UserTS`, created at module level
    (`__qualname__ == __name__`) or inside a factory function (`__qualname__ = 'checker_factory.<locals>.UserMD5'`).
    What doit saves and compares is the class NAME; the model's checker kind is unchanged."""
    if not how:
        return kind
    if (kind, how) not in _USER_CHECKERS:
        from doit import dependency as dep
        base = dep.MD5Checker if kind == 'md5' else dep.TimestampChecker
        name = 'UserMD5' if kind == 'md5' else 'UserTS'
        if how == 'module':
            cls = type(name, (base,), {})
        else:
            def checker_factory():
                if kind == 'md5':
                    class UserMD5(base):
                        pass
                    return UserMD5

                class UserTS(base):
                    pass
                return UserTS
            cls = checker_factory()
        _USER_CHECKERS[(kind, how)] = cls
    return _USER_CHECKERS[(kind, how)]


class World(object):
    """real files in the current directory (a scratch dir), a DB file, the harness clock"""

    def __init__(self, backend, checker, ntasks, npaths):
        self.backend = backend
        self.checker = checker
        self.ntasks = ntasks
        self.npaths = npaths
        self.clock = T0
        self.defs = {t: {'deps': [], 'targets': [], 'uptodate': []} for t in range(ntasks)}
        self.plan = {}
        self.db = 'deps-' + backend
        self.scramble = 0        # > 0: real mtimes are unique but not monotone
        self.subsec = False      # real mtimes with a sub-second part
        self.links = None        # list of paths that are symbolic links to the real file
        self.pathform = None     # 'path' / 'mixed': file_dep / targets given as pathlib.Path objects
        self.ckcls = None        # 'module' / 'nested': user-defined subclasses of the two checkers (see user_checker)
        self.hashseed = None     # not None: every doit invocation in a fresh interpreter, PYTHONHASHSEED varied
        self.objlife = None      # 'module' / 'task': uptodate helper OBJECTS outlive a command (see _uptodate)
        self._objs = {}

    def tick(self):
        """a fresh real mtime.  The code under test may only compare mtimes for equality, so the real mtimes need
        not grow with the model's clock: with `scramble` they are unique but not monotone (an older file restored
        with new content, `cp -p`, a checkout).  An implementation that orders mtimes is thereby exposed."""
        self.clock += 1
        if self.scramble:
            return T0 + (self.clock * 7919 + self.scramble) % 100003
        return self.clock

    def _ns(self, mtime):
        """`subsec`: mtimes get a (per tick) sub-second part -- st_mtime is then a float that is not an integer"""
        return mtime * NS + (SUBSEC_FRACTIONS[mtime % len(SUBSEC_FRACTIONS)] if self.subsec else 0)

    def write(self, p, cid, mtime):
        name = fname(p)
        if self.links and p in self.links and not os.path.lexists(name):
            # `links`: the path is a symbolic link to a real file elsewhere; doit follows it (os.stat, open)
            os.symlink('.real-' + name, name)
        with open(name, 'w') as f:
            f.write(content_of(cid))
        os.utime(name, ns=(self._ns(mtime), self._ns(mtime)))

    def touch(self, p, mtime):
        if os.path.exists(fname(p)):
            os.utime(fname(p), ns=(self._ns(mtime), self._ns(mtime)))

    def delete(self, p):
        if os.path.exists(fname(p)):
            os.remove(fname(p))

    def edit_keep(self, p, cid):
        if os.path.exists(fname(p)):
            st = os.stat(fname(p))
            with open(fname(p), 'w') as f:
                f.write(content_of(cid))
            os.utime(fname(p), ns=(st.st_mtime_ns, st.st_mtime_ns))

    def _spell(self, name, k):
        """`pathform`: 'path' = every file_dep / target is a pathlib.Path, 'mixed' = every other one (so that one file
        is a Path in one task and a str in another); doit converts them with str()"""
        import pathlib
        if self.pathform == 'path' or (self.pathform == 'mixed' and k % 2 == 0):
            return pathlib.PurePosixPath(name) if k % 3 == 0 else pathlib.Path(name)
        return name

    # -- task namespace for ModuleTaskLoader
    def _uptodate(self, item, t=None):
        """`objlife`: the uptodate item OBJECTS (result_dep, config_changed, a user calculator, callables, tuples) are
        created once and put into the task dicts of every later load, as objects defined at the top of a dodo module
        are when doit is used as a library (DoitMain(...).run twice, doit.api.run_tasks, %doit): 'module' = one object
        per distinct item, shared by all tasks and all commands of the history; 'task' = one object per (task, item).
        Their meaning is the same as that of fresh objects (model items unchanged)."""
        if not self.objlife:
            return self._make_uptodate(item)
        key = json.dumps(item if self.objlife == 'module' else [t, item])
        if key not in self._objs:
            self._objs[key] = self._make_uptodate(item)
        return self._objs[key]

    def _make_uptodate(self, item):
        from doit import tools
        from doit.task import result_dep
        kind = item[0]
        if kind == 'const':
            return bool(item[1])
        if kind == 'none':
            return None
        if kind == 'runOnce':
            return tools.run_once
        if kind == 'cfg':
            return tools.config_changed(str(item[1]))
        if kind == 'res':
            return result_dep(tname(item[1]))
        if kind == 'shell':
            return 'true' if item[1] else 'false'
        if kind == 'form':
            # the written forms of an uptodate item that computes a constant b (True / False / None):
            #   tuple1 (fn,)   tuple2 (fn, [b])   tuple3 (fn, [], {'flag': b})   tuple-magic (fn(task, values, flag), [b])
            #   task-only fn(task)   noargs fn()   partial   method (bound method)   defaults fn(task, values, extra=1)
            form, b = item[1], item[2]
            if form == 'tuple1':
                return (lambda: b,)
            if form == 'tuple2':
                return (lambda flag: flag, [b])
            if form == 'tuple3':
                return (lambda flag=None: flag, [], {'flag': b})
            if form == 'tuple-magic':
                return (lambda task, values, flag: flag if (hasattr(task, 'name') and isinstance(values, dict)) else 'bad', [b])
            if form == 'task-only':
                return lambda task: b if hasattr(task, 'file_dep') else 'bad'
            if form == 'noargs':
                return lambda: b
            if form == 'partial':
                import functools
                return functools.partial(lambda flag, task, values: flag, b)
            if form == 'method':
                class Holder(object):
                    def check(self, task, values):
                        return b
                return Holder().check
            if form == 'defaults':
                return lambda task, values, extra=1: b
            raise ValueError(item)
        if kind == 'usercalc':
            # a user-written UptodateCalculator with the semantics of result_dep (own implementation: get_val,
            # tasks_dict, configure_task adding the task_dep, value saver): model item ['res', t]
            return make_user_calc()(tname(item[1]))
        if kind == 'customv':
            # a callable returning a NON-bool value: doit takes its truth value (None alone means "ignore the item")
            val = CUSTOM_VALUES[item[1]]

            def customv(task, values):
                return val
            return customv
        if kind == 'custom':
            val = item[1]

            def custom(task, values):
                return val
            return custom
        raise ValueError(item)

    def namespace(self):
        world = self
        ns = {}
        for t in range(self.ntasks):
            d = self.defs[t]

            def action(v=None, t=t):
                pl = world.plan.get(str(t)) or {'ok': True, 'writes': [], 'res': None}
                for p, cid, mtime in pl['writes']:
                    world.write(p, cid, mtime)
                if not pl['ok']:
                    return False
                if pl['res'] is not None:
                    return 'r%d' % pl['res']
                return True

            def creator(d=d, t=t, action=action):
                td = {'actions': [action], 'file_dep': [world._spell(fname(p), t + i) for i, p in enumerate(d['deps'])],
                      'targets': [world._spell(fname(p), t + i + 1) for i, p in enumerate(d['targets'])],
                      'uptodate': [world._uptodate(i, t) for i in d['uptodate']]}
                if d.get('task_dep'):
                    td['task_dep'] = [tname(x) for x in d['task_dep']]
                if d.get('getargs') is not None:
                    # getargs from another task: doit adds an implicit result_dep(<task>) to `uptodate`
                    td['getargs'] = {'v': (tname(d['getargs']), None)}
                return td
            ns['task_' + tname(t)] = creator
        return ns

    def doit(self, argv, reporter=None):
        """one doit invocation; returns (exit code | ['exc', type], stdout, stderr).
        In-process by default; with `self.hashseed` set, in a fresh interpreter with PYTHONHASHSEED = that value
        (incremented per invocation), so that set iteration orders differ between the runs of one history."""
        if self.hashseed is not None:
            return self._doit_sub(argv, reporter)
        from doit.doit_cmd import DoitMain
        from doit.cmd_base import ModuleTaskLoader
        ns = self.namespace()
        cfg = {'dep_file': self.db, 'backend': self.backend, 'verbosity': 0,
               'check_file_uptodate': user_checker(self.checker, self.ckcls)}
        if reporter is not None:
            cfg['reporter'] = reporter
        ns['DOIT_CONFIG'] = cfg
        out, err = io.StringIO(), io.StringIO()
        with contextlib.redirect_stdout(out), contextlib.redirect_stderr(err):
            try:
                code = DoitMain(ModuleTaskLoader(ns)).run(list(argv))
                code = 0 if code is None else code
            except SystemExit as e:
                code = e.code
            except BaseException as e:  # noqa
                code = ['exc', type(e).__name__]
        return code, out.getvalue(), err.getvalue()

    def _doit_sub(self, argv, reporter):
        import subprocess
        self.hashseed += 1
        req = {'backend': self.backend, 'checker': self.checker, 'ntasks': self.ntasks, 'npaths': self.npaths,
               'defs': {str(t): d for t, d in self.defs.items()}, 'plan': self.plan, 'argv': list(argv),
               'repo': common.REPO, 'want_events': reporter is not None, 'ckcls': self.ckcls,
               'subsec': self.subsec, 'links': self.links, 'pathform': self.pathform}
        env = dict(os.environ, PYTHONHASHSEED=str(self.hashseed), VERIF_REPO=common.REPO,
                   PYTHONDONTWRITEBYTECODE='1')
        p = subprocess.run([common.PYTHON, os.path.abspath(__file__), '--child'], input=json.dumps(req), text=True,
                           stdout=subprocess.PIPE, stderr=subprocess.PIPE, env=env, timeout=120)
        try:
            ans = json.loads(p.stdout.strip().split('\n')[-1])
        except Exception:  # noqa
            return ['exc', 'child-died'], p.stdout, p.stderr
        if reporter is not None:
            reporter.events = [tuple(e) if e[2] is None else (e[0], e[1], tuple(e[2]) if isinstance(e[2], list) else e[2])
                               for e in ans['events']]
        code = ans['code']
        return code, ans['out'], ans['err']

    # -- logical DB dump through the backend API
    def dump(self):
        from doit import dependency as dep
        cls = {'json': dep.JsonDB, 'dbm': dep.DbmDB, 'sqlite3': dep.SqliteDB}[self.backend]
        db = cls(self.db, codec=dep.JSONCodec())
        out = []
        try:
            for t in range(self.ntasks):
                name = tname(t)
                rec = {}
                for key in ['_values_:', 'result:', 'checker:', 'deps:', 'ignore:']:
                    rec[key] = db.get(name, key)
                rec['files'] = {p: db.get(name, fname(p)) for p in range(self.npaths)}
                out.append(rec)
        finally:
            # never dump(): reading must not change the DB (closing the handles only)
            try:
                if self.backend == 'dbm':
                    db._dbm.close()
                elif self.backend == 'sqlite3':
                    db._conn.close()
            except Exception:  # noqa
                pass
        return out


def classify_traceback(err):
    """name of the exception class of a doit-internal crash printed on stderr, or None"""
    last = None
    for line in err.split('\n'):
        line = line.strip()
        if line and not line.startswith(('File ', 'Traceback', '^', '~')) and ':' in line:
            head = line.split(':', 1)[0]
            if head.replace('.', '').replace('_', '').isalnum() and head[:1].isupper():
                last = head
    return last


# ----------------------------------------------------------------------------------------------
# running a history on the implementation

def task_steps(events):
    """group the reporter stream of one run by task, in order of selection (first get_status).
    Returns [(task index, outcome, detail)]; outcome in ignored / up-to-date / ok / fail / error / save-missing /
    unmet / other:<...>"""
    order, per = [], {}
    for kind, name, info in events:
        if name is None:
            continue
        if name not in per:
            per[name] = []
            order.append(name)
        per[name].append((kind, info))
    steps = []
    for name in order:
        kinds = [k for k, _ in per[name]]
        fails = [i for k, i in per[name] if k == 'add_failure']
        t = int(name[1:])
        if 'skip_ignore' in kinds:
            out = 'ignored'
        elif 'skip_uptodate' in kinds:
            out = 'up-to-date'
        elif 'execute_task' in kinds:
            if 'add_success' in kinds:
                out = 'ok'
            elif fails and fails[0][0] == 'DependencyError':
                out = 'save-missing'
            elif fails:
                out = 'fail'
            else:
                out = 'other:executed-without-result'
        elif fails and fails[0][0] == 'UnmetDependency':
            out = 'unmet'
        elif fails and fails[0][0] == 'DependencyError':
            out = 'error'
        elif fails:
            out = 'other:' + fails[0][0]
        else:
            out = 'other:' + '+'.join(kinds)
        steps.append((t, out, fails[0] if fails else None))
    return steps


def run_history(case, stop_on_crash=True):
    """execute the history on the tree under test (cwd must be an empty scratch dir).
    Returns a list with one observation dict per op:
       {'op': op, 'kind': ..., 'writes': [[p, cid, real_mtime]...] (edit/touch),
        'steps': [(t, outcome, detail)] (run), 'plan': plan with real mtimes (run), 'code': exit code,
        'reset': [(t, 'processed'|'skip'|'failed')], 'forgot': [t...], 'crash': exception name or None,
        'db': logical dump after the op}"""
    common.use_repo()
    w = World(case['backend'], case['checker'], case['ntasks'], case['npaths'])
    if case.get('hashseed') is not None:
        w.hashseed = int(case['hashseed'])
    w.scramble = int(case.get('scramble') or 0)
    w.ckcls = case.get('ckcls')
    w.subsec = bool(case.get('subsec'))
    w.links = case.get('links')
    w.pathform = case.get('pathform')
    w.objlife = case.get('objlife') if case.get('hashseed') is None else None
    obs = []
    for op in case['ops']:
        kind = op[0]
        o = {'op': op, 'kind': kind, 'crash': None}
        if kind == 'edit':
            m = w.tick()
            w.write(op[1], op[2], m)
            o['mtime'] = m
        elif kind == 'touch':
            m = w.tick()
            w.touch(op[1], m)
            o['mtime'] = m
        elif kind == 'delete':
            w.delete(op[1])
        elif kind == 'editKeep':
            w.edit_keep(op[1], op[2])
        elif kind == 'redefine':
            w.defs[op[1]] = op[2]
        elif kind == 'checker':
            w.checker = op[1]
        elif kind == 'run':
            spec = op[1]
            plan = {}
            for t in range(w.ntasks):
                pl = (spec.get('plan') or {}).get(str(t)) or {'ok': True, 'writes': [], 'res': None}
                plan[str(t)] = {'ok': pl['ok'], 'res': pl.get('res'),
                                'writes': [[p, cid, w.tick()] for p, cid in pl.get('writes', [])]}
            w.plan = plan
            argv = ['run']
            if spec.get('always'):
                argv.append('-a')
            if spec.get('cont'):
                argv.append('-c')
            if spec.get('par') == 'process':
                argv += ['-n', '2']
            elif spec.get('par') == 'thread':
                argv += ['-n', '2', '-P', 'thread']
            if spec.get('sel') is not None:
                argv += [tname(t) for t in spec['sel']]
            rep = RecordingReporter()
            code, out, err = w.doit(argv, rep)
            o['code'] = code
            o['plan'] = plan
            o['steps'] = task_steps(rep.events)
            o['events'] = [(k, n) for k, n, _ in rep.events]
            if code == 3 and 'Traceback' in err:
                o['crash'] = classify_traceback(err) or 'Exception'
            elif isinstance(code, list):
                o['crash'] = code[1]
            if o['crash'] is None and code not in (0, 1, 2):
                o['crash'] = 'exit-%s' % (code,)
            o['stderr'] = err[-300:] if o['crash'] else ''
        elif kind == 'forget':
            argv = ['forget'] + ([tname(t) for t in op[1]] if op[1] else ['--all'])
            code, out, err = w.doit(argv)
            o['code'] = code
            o['forgot'] = list(op[1]) if op[1] else list(range(w.ntasks))
            if code != 0:
                o['crash'] = classify_traceback(err) or 'exit-%s' % (code,)
        elif kind == 'ignore':
            code, out, err = w.doit(['ignore'] + [tname(t) for t in op[1]])
            o['code'] = code
            if code != 0:
                o['crash'] = classify_traceback(err) or 'exit-%s' % (code,)
        elif kind == 'reset-dep':
            code, out, err = w.doit(['reset-dep'] + [tname(t) for t in op[1]])
            o['code'] = code
            res = []
            for line in out.split('\n'):
                parts = line.split()
                if len(parts) >= 2 and parts[0] in ('processed', 'skip', 'failed') and parts[1].startswith('t'):
                    res.append((int(parts[1][1:]), parts[0]))
            o['reset'] = res
            if code == 3 and 'Traceback' in err:
                o['crash'] = classify_traceback(err) or 'Exception'
        else:
            raise ValueError('unknown op %r' % (op,))
        try:
            o['db'] = w.dump()
        except Exception as ex:  # noqa
            o['db'] = ['exc', type(ex).__name__]
        obs.append(o)
        if o['crash'] and stop_on_crash:
            break
    return obs


# ----------------------------------------------------------------------------------------------
# translation to the Lean driver

def model_def(d):
    """the model's view of a definition: `getargs` from task x is the uptodate item result_dep(x) that
    Task._init_getargs appends (the harness always lists x in task_dep too, so x is processed first: without that the
    implicit item is a *setup* dependency and the order of check and execution belongs to M1)"""
    utd = []
    for i in d['uptodate']:
        if i[0] == 'customv':
            utd.append(['custom', bool(CUSTOM_VALUES[i[1]])])
        elif i[0] == 'form':
            utd.append(['custom', i[2]])
        elif i[0] == 'usercalc':
            utd.append(['res', i[1]])
        else:
            utd.append(list(i))
    if d.get('getargs') is not None:
        utd.append(['res', d['getargs']])
    return {'deps': list(d['deps']), 'targets': list(d['targets']), 'uptodate': utd}


def _fs_op(op):
    kind = op[0]
    if kind == 'edit':
        return ['edit', op[1], size_of(op[2]), op[2]]
    if kind == 'editKeep':
        return ['editKeep', op[1], size_of(op[2]), op[2]]
    if kind in ('touch', 'delete'):
        return [kind, op[1]]
    if kind == 'redefine':
        return ['redefine', op[1], model_def(op[2])]
    if kind == 'checker':
        return ['checker', CK_MODEL[op[1]]]
    return None


def _writes(pl):
    return [[p, size_of(cid), cid] for p, cid, _ in pl['writes']]


def to_model_ops(case, obs):
    """model-mode request: the history as the sequence of per-task model ops, in the order the implementation
    processed the tasks.  Returns (request, index): index[i] = (first, last+1) positions of obs[i] in the op list."""
    ops, index = [['checker', CK_MODEL[case['checker']]]], []
    for o in obs:
        a = len(ops)
        op = o['op']
        base = _fs_op(op)
        if base is not None:
            ops.append(base)
        elif o['kind'] == 'run':
            always = bool(op[1].get('always'))
            for t, outcome, _ in o['steps']:
                pl = o['plan'][str(t)]
                if outcome == 'unmet':
                    ops.append(['unmet', t])
                elif outcome == 'ignored' and not _record_ignored(o, t):
                    ops.append(['nop'])      # skipped because a dependency is ignored: no DB access
                else:
                    ops.append(['run', t, bool(pl['ok']), always, _writes(pl), pl['res']])
        elif o['kind'] == 'forget':
            for t in o['forgot']:
                ops.append(['forget', t])
        elif o['kind'] == 'ignore':
            for t in op[1]:
                ops.append(['ignore', t])
        elif o['kind'] == 'reset-dep':
            ts = op[1] if op[1] else list(range(case['ntasks']))
            for t in ts:
                ops.append(['resetDep', t])
        index.append((a, len(ops)))
    req = {'model': 'status', 'mode': 'model', 'fixed': True, 'ntasks': case['ntasks'], 'npaths': case['npaths'],
           'ops': ops}
    return req, index


def _record_ignored(o, t):
    """was `ignore:` set in the DB for t before this run?  (seen in the dump of the previous step, attached by
    compare(); default: yes)"""
    prev = o.get('prev_db')
    if not prev or not isinstance(prev[t], dict):
        return True
    return bool(prev[t].get('ignore:'))


def to_monitor_events(case, obs):
    """monitor-mode request: what the implementation was *seen* to do, for the ghost machine.
    Returns (request, tags): tags[j] = (obs index, task, kind) for events that carry an obligation."""
    evs, tags = [['checker', CK_MODEL[case['checker']]]], []
    for i, o in enumerate(obs):
        op = o['op']
        base = _fs_op(op)
        if base is not None:
            evs.append(base)
        elif o['kind'] == 'run':
            always = bool(op[1].get('always'))
            for t, outcome, _ in o['steps']:
                pl = o['plan'][str(t)]
                if outcome == 'up-to-date':
                    tags.append((len(evs), i, t, 'skip'))
                    evs.append(['skip', t])
                elif outcome in ('ok', 'fail', 'save-missing'):
                    tags.append((len(evs), i, t, 'exec'))
                    evs.append(['exec', t, outcome == 'ok', always, _writes(pl), pl['res']])
                elif outcome in ('error', 'unmet'):
                    evs.append(['unmet', t])
                elif outcome == 'ignored':
                    evs.append(['ignskip', t])
                else:
                    evs.append(['ignskip', t])
        elif o['kind'] == 'forget':
            for t in o['forgot']:
                evs.append(['forget', t])
        elif o['kind'] == 'ignore':
            pass
        elif o['kind'] == 'reset-dep':
            for t, outcome in o['reset']:
                if outcome in ('processed', 'skip'):
                    tags.append((len(evs), i, t, 'reset-' + outcome))
                evs.append(['reset', t, outcome])
    req = {'model': 'status', 'mode': 'monitor', 'ntasks': case['ntasks'], 'npaths': case['npaths'], 'ops': evs}
    return req, tags


# ----------------------------------------------------------------------------------------------
# canonical DB dumps

def _path_index(name):
    name = str(name)
    return int(name[1:]) if name[:1] == 'f' and name[1:].isdigit() else 'odd-name:' + name


def canon_impl_db(db, real2model):
    """implementation dump -> the driver's format (mtimes translated, digests mapped back to ids)"""
    if not isinstance(db, list) or (db and db[0] == 'exc'):
        return db
    out = []
    for rec in db:
        vals = rec['_values_:']
        if vals is None:
            v = None
        else:
            res = {}
            other = {}
            for k, x in vals.items():
                if k.startswith('_result:'):
                    res[int(k[len('_result:t'):])] = _MD5_RES.get(x, 'unknown:%r' % (x,)) if x is not None else None
                elif k not in ('run-once', '_config_changed'):
                    other[k] = x
            cfg = vals.get('_config_changed')
            v = {'runOnce': bool(vals.get('run-once', False)),
                 'cfg': int(cfg) if isinstance(cfg, str) and cfg.isdigit() else cfg,
                 'res': sorted(res.items())}
            if other:
                v['other'] = other
        result = rec['result:']
        files = []
        for p, st in sorted(rec['files'].items()):
            if st is None:
                continue
            if isinstance(st, (list, tuple)) and len(st) == 3:
                files.append([p, ['md5', real2model.get(int(st[0]), 'real:%s' % st[0]), st[1],
                                  _MD5_CID.get(st[2], 'unknown')]])
            elif isinstance(st, (int, float)):
                files.append([p, ['ts', real2model.get(int(st), 'real:%s' % st)]])
            else:
                files.append([p, ['odd', repr(st)]])
        deps = rec['deps:']
        out.append({'values': v,
                    'result': None if result is None else _MD5_RES.get(result, 'unknown:%r' % (result,)),
                    'checker': None if rec['checker:'] is None else CK_CLASS.get(rec['checker:'], rec['checker:']),
                    'deps': None if deps is None else sorted((_path_index(x) for x in deps), key=lambda k: (isinstance(k, str), k)),
                    'fstate': files,
                    'ign': bool(rec['ignore:'])})
    return out


def canon_model_db(db):
    out = []
    for rec in db:
        v = rec['values']
        if v is not None:
            res = {}
            for t, r in v['res']:
                res.setdefault(t, r)
            v = {'runOnce': v['runOnce'], 'cfg': v['cfg'], 'res': sorted(res.items())}
        out.append({'values': v, 'result': rec['result'], 'checker': rec['checker'], 'deps': rec['deps'],
                    'fstate': rec['fstate'], 'ign': rec['ign']})
    return out


# ----------------------------------------------------------------------------------------------
# K + P for one case

class Verdict(object):
    def __init__(self):
        self.divergence = None      # (obs index, what, impl, model)
        self.c03 = []               # [(obs index, task, kind)] monitor false
        self.c04 = []
        self.crash = None           # (obs index, exception name) doit-internal crash observed
        self.model_crash = False
        self.branches = {}          # histogram
        self.informational = False
        self.n_skip = 0
        self.n_exec = 0
        self.obs = None
        self._last_mdb = None


def faithful(case):
    return not any(op[0] == 'editKeep' for op in case['ops'])


def evaluate(cases, workdir=None):
    """run each case on the implementation, replay on the Lean model and the ghost machine, compare.
    Returns one Verdict per case."""
    common.use_repo()
    if any(c.get('kind') in SCENARIOS for c in cases):
        plain = [c for c in cases if c.get('kind') not in SCENARIOS]
        pv = iter(evaluate(plain, workdir) if plain else [])
        return [evaluate_calc(c) if c.get('kind') in SCENARIOS else next(pv) for c in cases]
    all_obs = []
    old = os.getcwd()
    base = workdir or common.scratch_dir('status')
    for k, case in enumerate(cases):
        d = os.path.join(base, 'c%d' % k)
        os.makedirs(d)
        os.chdir(d)
        try:
            obs = run_history(case)
        finally:
            os.chdir(old)
            shutil.rmtree(d, ignore_errors=True)
        for i, o in enumerate(obs):
            o['prev_db'] = obs[i - 1]['db'] if i else None
        all_obs.append(obs)
    if workdir is None:
        shutil.rmtree(base, ignore_errors=True)
    reqs, meta = [], []
    for case, obs in zip(cases, all_obs):
        mreq, index = to_model_ops(case, obs)
        preq, tags = to_monitor_events(case, obs)
        reqs += [mreq, preq]
        meta.append((index, tags))
    answers = common.drv_batch(reqs)
    verdicts = []
    for k, (case, obs) in enumerate(zip(cases, all_obs)):
        v = Verdict()
        v.obs = obs
        v.informational = not faithful(case)
        index, tags = meta[k]
        model = answers[2 * k]
        mon = answers[2 * k + 1]
        if 'error' in model or 'error' in mon:
            raise RuntimeError('driver rejected request: %s / %s' % (model.get('error'), mon.get('error')))
        _compare(case, obs, index, model['steps'], v)
        for pos, i, t, kind in tags:
            step = mon['steps'][pos]
            if kind == 'skip':
                v.n_skip += 1
                if step['c03'] is False:
                    v.c03.append((i, t, kind))
            elif kind == 'exec':
                v.n_exec += 1
                if step['c04'] is False:
                    v.c04.append((i, t, kind))
            else:
                # reset-dep reports `skip` / `processed` from the same get_status; C03/C04 speak about `run`:
                # the verdict is kept as information, never as a violation of these two properties
                verdict = step['c03'] if kind == 'reset-skip' else step['c04']
                _count(v, 'reset-monitor:%s:%s' % (kind, 'holds' if verdict is not False else 'FALSE'))
        verdicts.append(v)
    return verdicts


def _count(v, key):
    v.branches[key] = v.branches.get(key, 0) + 1


def _compare(case, obs, index, steps, v):
    """correspondence: per task-step outcome and logical DB after every history op"""
    real2model = {}
    clock = 0
    for i, o in enumerate(obs):
        a, b = index[i]
        msteps = steps[a:b]
        kind = o['kind']
        # mtime translation: follow the model clock through the writes of this op
        if kind in ('edit', 'touch') and msteps:
            real2model[o['mtime']] = msteps[0]['clock']
        if kind == 'run':
            j = 0
            for t, outcome, _ in o['steps']:
                if j >= len(msteps):
                    break
                ms = msteps[j]
                pl = o['plan'][str(t)]
                before = steps[a + j - 1]['clock'] if a + j > 0 else 0
                # the model executed the writes iff its clock advanced by their number
                if ms['clock'] - before == len(pl['writes']):
                    for n, (_, _, real) in enumerate(pl['writes']):
                        real2model[real] = before + n + 1
                j += 1
        if msteps:
            clock = msteps[-1]['clock']
        # outcomes
        if kind == 'run':
            impl_out = [(t, out) for t, out, _ in o['steps']]
            model_out = []
            for (t, out, _), ms in zip(o['steps'], msteps):
                mo = ms['obs']
                if mo == '-':
                    mo = out if out in ('unmet', 'ignored') else mo
                model_out.append((t, mo))
                _count(v, 'status:' + ms['obs'])
            if o['crash']:
                v.crash = (i, o['crash'])
                # the task being processed when doit crashed has no closing report: it is the model's next step
                crashed_model = any(ms['obs'] == 'crash' for ms in msteps) or _model_would_crash(case, obs, i, steps, a, b)
                amb = any(ms.get('ambiguous') for ms in msteps)
                if not crashed_model and not amb:
                    v.divergence = (i, 'implementation crashed (%s), model did not' % o['crash'], impl_out, model_out)
                v.model_crash = crashed_model
                return
            for (t, out), (_, mo), ms in zip(impl_out, model_out, msteps):
                if out != mo:
                    if ms.get('ambiguous') and {out, mo} <= {'error', 'crash', 'save-missing'}:
                        return
                    v.divergence = (i, 'task %s: implementation %s, model %s' % (tname(t), out, mo),
                                    impl_out, model_out)
                    return
        elif kind == 'reset-dep':
            if o['crash']:
                v.crash = (i, o['crash'])
                if not any(ms['obs'] == 'crash' for ms in msteps):
                    v.divergence = (i, 'reset-dep crashed (%s), model did not' % o['crash'], o['reset'],
                                    [ms['obs'] for ms in msteps])
                v.model_crash = True
                return
            ts = o['op'][1] if o['op'][1] else list(range(case['ntasks']))
            model_out = [(t, ms['obs']) for t, ms in zip(ts, msteps)]
            for ms in msteps:
                _count(v, 'reset:' + ms['obs'])
            if [tuple(x) for x in o['reset']] != model_out:
                v.divergence = (i, 'reset-dep outcomes', o['reset'], model_out)
                return
        elif o['crash']:
            v.crash = (i, o['crash'])
            v.divergence = (i, '%s crashed (%s)' % (kind, o['crash']), None, None)
            return
        # DB after the op
        if msteps:
            if any(ms['crashed'] for ms in msteps):
                v.model_crash = True
                v.divergence = (i, 'model crashed, implementation did not', None, [ms['obs'] for ms in msteps])
                return
            mdb = canon_model_db(msteps[-1]['db'])
        elif i == 0:
            mdb = None
        else:
            mdb = v._last_mdb
        v._last_mdb = mdb
        if mdb is not None:
            idb = canon_impl_db(o['db'], real2model)
            if idb != mdb:
                bad = [t for t in range(case['ntasks']) if not isinstance(idb, list) or idb[0] == 'exc'
                       or idb[t] != mdb[t]]
                v.divergence = (i, 'logical DB after op %d differs for %s' % (i, [tname(t) for t in bad]),
                                [idb[t] for t in bad] if isinstance(idb, list) and idb and idb[0] != 'exc' else idb,
                                [mdb[t] for t in bad])
                return


def _model_would_crash(case, obs, i, steps, a, b):
    """doit crashed while processing a task that never got a closing report; the reporter saw get_status /
    execute_task for it, so it is in o['steps'] with outcome other:* -- covered by msteps.  Nothing more to ask."""
    return False


# ----------------------------------------------------------------------------------------------
# calc_dep scenario family (outside the Lean model M2: calc_dep belongs to the run model M1).
# Only the monitors look at these cases, with a statement-level Python predicate: every run of the script is fully
# successful, so "the last successful execution" of each task is known by construction and so is the set of tasks
# whose inputs changed since then.

CALC_ORDERS = ['calc-first', 'consumer-first', 'default']


def calc_cases(full):
    out = []
    n = 0
    for order in CALC_ORDERS:
        for consumers in (1, 2):
            for par in (None, 'thread', 'process'):
                for b in BACKENDS:
                    for ck in CHECKERS:
                        n += 1
                        if not full and not (par is None and (n % 3 == 0) or (par == 'thread' and n % 12 == 1)):
                            continue
                        out.append({'kind': 'calc', 'backend': b, 'checker': ck, 'order': order, 'consumers': consumers,
                                    'par': par, 'ntasks': consumers + 1, 'npaths': 2, 'ops': []})
    return out


CALC_SCRIPT = [('run', None), ('run', None), ('run', None), ('edit', 'util'), ('run', None), ('run', None),
               ('touch', 'main'), ('run', None), ('edit', 'main'), ('run', None), ('run', None)]


def _scn_calc(case):
    """scan (file_dep [main], its action returns {'file_dep': ['util']}), obj<i> (file_dep [main], calc_dep ['scan']).
    util edited -> the consumers; main touched -> nothing under md5, everything under timestamp; main edited ->
    everything."""
    names = ['scan'] + ['obj%d' % i for i in range(case['consumers'])]

    def mk(state):
        ns = {'task_scan': lambda: {'actions': [lambda: {'file_dep': ['util']}], 'file_dep': ['main']}}
        for i in range(case['consumers']):
            ns['task_obj%d' % i] = lambda: {'actions': [lambda: True], 'file_dep': ['main'], 'calc_dep': ['scan']}
        return ns

    def effect(kind, arg):
        if kind == 'edit':
            return set(names) if arg == 'main' else set(names[1:])
        return set(names) if case['checker'] == 'timestamp' else set()

    if case['order'] == 'calc-first':
        sel = names
    elif case['order'] == 'consumer-first':
        sel = names[1:] + names[:1]
    else:
        sel = []
    return {'names': names, 'mk': mk, 'effect': effect, 'sel': sel, 'files': ['main', 'util'], 'script': CALC_SCRIPT}


GROUP_SCRIPT = [('run', None), ('run', None), ('run', None), ('edit', 'main'), ('run', None), ('run', None),
                ('edit', 'src0'), ('run', None), ('run', None), ('touch', 'main'), ('run', None), ('run', None)]


def _held(case, factory):
    """`objlife` on a scenario case: the uptodate helper object is created ONCE (first load) and the same object is put
    into the task dict of every later load / command of the process (an object defined at the top of a dodo module when
    doit is used as a library); without the key: a fresh object per load."""
    if not case.get('objlife'):
        return factory
    made = []

    def get(*a):
        if not made:
            made.append(factory(*a))
        return made[0]
    return get


def _scn_group(case):
    """a task generator `grp` yielding `subs` sub-tasks (0 = an EMPTY group; sub-task i: file_dep [src<i>], its action
    returns a string result that changes when src<i> is edited) and two consumers with a file_dep of their own:
    `report` (uptodate [result_dep('grp')]) and `summary` (getargs from grp + task_dep [grp]).  The group task itself
    has no criteria (always executed, not monitored).  main edited -> the consumers; src0 edited -> sub-task 0 and,
    through the group result, the consumers; main touched -> consumers under timestamp only."""
    k = case['subs']
    subs = ['grp:s%d' % i for i in range(k)]
    cons = ['report', 'summary']
    names = subs + cons

    from doit.task import result_dep as _rd
    grp_dep = _held(case, lambda: _rd('grp'))

    def mk(state):
        result_dep = lambda name: grp_dep()

        def task_grp():
            for i in range(k):
                yield {'name': 's%d' % i, 'actions': [lambda i=i: 'res-%d-%d' % (i, state.get('src%d' % i, 0))],
                       'file_dep': ['src%d' % i]}
        return {'task_grp': task_grp,
                'task_report': lambda: {'actions': [lambda: True], 'file_dep': ['main'], 'uptodate': [result_dep('grp')]},
                'task_summary': lambda: {'actions': [lambda v=None: True], 'file_dep': ['main'],
                                         'getargs': {'v': ('grp', None)}, 'task_dep': ['grp']}}

    def effect(kind, arg):
        if kind == 'edit' and arg == 'main':
            return set(cons)
        if kind == 'edit' and arg == 'src0':
            return set(names) - set(subs[1:]) if k > 0 else set()
        if kind == 'touch':
            return set(cons) if case['checker'] == 'timestamp' else set()
        return set()

    return {'names': names, 'mk': mk, 'effect': effect, 'sel': [], 'files': ['main'] + ['src%d' % i for i in range(max(k, 1))],
            'script': GROUP_SCRIPT}


CFG_SCRIPT = [('run', None), ('run', None), ('bump', 'config'), ('run', None), ('run', None), ('edit', 'main'),
              ('run', None), ('bump', 'config'), ('run', None), ('run', None)]


def _scn_cfgdict(case):
    """tools.config_changed over a DICT that changes while the object lives.
    variant 'same-object': one module-level config_changed(OPTIONS) used by `build` (file_dep [main]); the runs of the
      script happen in ONE process with the same object (an embedding application, the %doit magic, a watch loop) and
      OPTIONS is mutated in place between runs ('bump config').
    variant 'shared-filled': a fresh object per run (one process per run) over a dict that task `probe` fills at run
      time, shared by `stamp` (checked BEFORE probe ran) and `build` (task_dep [probe]); 'bump config' changes what probe
      finds.  probe has no criteria (always executed, not monitored)."""
    from doit.tools import config_changed
    if case['variant'] == 'same-object':
        options = {'level': 0}
        chk = config_changed(options)
        names = ['build']

        def mk(state):
            return {'task_build': lambda: {'actions': [lambda: True], 'file_dep': ['main'], 'uptodate': [chk]}}

        def on_bump(arg, state):
            options['level'] = state[arg]

        def effect(kind, arg):
            if kind == 'bump' or (kind == 'edit' and arg == 'main'):
                return {'build'}
            return set()
        return {'names': names, 'mk': mk, 'effect': effect, 'on_bump': on_bump, 'sel': [], 'files': ['main'],
                'script': CFG_SCRIPT}
    names = ['stamp', 'build']

    def mk(state):
        toolchain = {}
        chk = config_changed(toolchain)

        def probe():
            toolchain['cc'] = 'gcc-%d' % state.get('config', 0)
        return {'task_stamp': lambda: {'actions': [lambda: True], 'file_dep': ['main'], 'uptodate': [chk]},
                'task_probe': lambda: {'actions': [probe]},
                'task_build': lambda: {'actions': [lambda: True], 'file_dep': ['main'], 'task_dep': ['probe'],
                                       'uptodate': [chk]}}

    def effect(kind, arg):
        if kind == 'bump':
            return {'build'}
        if kind == 'edit' and arg == 'main':
            return {'stamp', 'build'}
        return set()
    return {'names': names, 'mk': mk, 'effect': effect, 'sel': ['stamp', 'probe', 'build'], 'files': ['main'],
            'script': CFG_SCRIPT}


def cfgdict_cases(full):
    out = []
    n = 0
    for variant in ('same-object', 'shared-filled'):
        for par in (None, 'thread'):
            for b in BACKENDS:
                n += 1
                if not full and not (par is None and n % 3 != 2):
                    continue
                out.append({'kind': 'cfgdict', 'variant': variant, 'backend': b, 'checker': CHECKERS[n % 2], 'par': par,
                            'ntasks': 3, 'npaths': 1, 'ops': []})
    return out


DICTRES_SCRIPT = [('run', None), ('run', None), ('run', None), ('bump', 'value'), ('run', None), ('run', None),
                  ('edit', 'main'), ('run', None), ('run', None)]
DICTRES_VARIANTS = ['tuple', 'int-keys', 'nested-tuple', 'plain', 'string']


def _scn_dictres(case):
    """a source task `src` with no criteria (executed in every run, not monitored) whose python-action returns a dict
    (saved as `result:` and `_values_:`) containing a tuple / int keys / a nested tuple / only JSON-stable values, or a
    plain string; consumers with a file_dep of their own: `report` (uptodate [result_dep('src')]) and `summary` (getargs
    from src + task_dep [src]).  'bump value' changes what src computes -> the consumers; main edited -> the consumers."""
    variant = case['variant']
    names = ['report', 'summary']

    def result(state):
        k = state.get('value', 0)
        if variant == 'tuple':
            return {'pair': (1, k), 'name': 'x'}
        if variant == 'int-keys':
            return {1: 'one', 2: k}
        if variant == 'nested-tuple':
            return {'rows': [(1, 2), (3, k)], 'meta': {'shape': (2, 2)}}
        if variant == 'plain':
            return {'items': [1, k], 'name': 'x'}
        return 'value-%d' % k

    from doit.task import result_dep as _rd
    src_dep = _held(case, lambda: _rd('src'))

    def mk(state):
        result_dep = lambda name: src_dep()
        return {'task_src': lambda: {'actions': [lambda: result(state)]},
                'task_report': lambda: {'actions': [lambda: True], 'file_dep': ['main'], 'uptodate': [result_dep('src')]},
                'task_summary': lambda: {'actions': [lambda v=None: True], 'file_dep': ['main'],
                                         'getargs': {'v': ('src', None)}, 'task_dep': ['src']}}

    def effect(kind, arg):
        return set(names) if kind in ('bump', 'edit') else set()
    return {'names': names, 'mk': mk, 'effect': effect, 'sel': [], 'files': ['main'], 'script': DICTRES_SCRIPT}


def dictres_cases(full):
    out = []
    n = 0
    for variant in DICTRES_VARIANTS:
        for par in (None, 'thread'):
            for b in BACKENDS:
                n += 1
                if not full and not (par is None and (n + DICTRES_VARIANTS.index(variant)) % 3 == 0):
                    continue
                out.append({'kind': 'dictres', 'variant': variant, 'backend': b, 'checker': CHECKERS[n % 2], 'par': par,
                            'ntasks': 3, 'npaths': 1, 'ops': []})
    return out


ODD_VARIANTS = ['dir-dep', 'dir-target', 'dangling-dep', 'dangling-target', 'mtime0', 'equal-mtimes']
RUN = ('run', None)


def _scn_oddfiles(case):
    """one task `t` with a python action; what kind of thing its file_dep / target is varies:
    dir-dep: file_dep is a DIRECTORY (its mtime changes when an entry is added);  dir-target: the target is a directory
    the action creates;  dangling-dep: file_dep is a dangling symbolic link (dependency error until the link is
    repaired);  dangling-target: the target is a dangling link (os.path.exists is false: never up-to-date until it is
    repaired);  mtime0: a file_dep whose mtime is 0 (st_mtime 0.0 is falsy), with a switch of the checker;
    equal-mtimes: two file_deps that always share one mtime."""
    variant = case['variant']
    names = ['t']
    td = {'actions': [lambda: True]}
    calls, codes, sticky, files = {}, (0, None), (), ['main']
    script = [RUN, RUN, ('edit', 'main'), RUN, RUN]

    def stamp(name, sec, frac=0):
        os.utime(name, ns=(sec * NS + frac, sec * NS + frac))

    def effect(kind, arg):
        return set() if (variant == 'dangling-target' and arg == 'repair') else {'t'}
    if variant == 'dir-dep':
        td['file_dep'] = ['d']
        setup = lambda put, state: (os.mkdir('d'), stamp('d', 2000))
        calls['add-entry'] = lambda put, state: (open('d/x', 'w').close(), stamp('d', 2001))
        script = [RUN, RUN, RUN, ('call', 'add-entry'), RUN, RUN]
    elif variant == 'dir-target':
        td['file_dep'] = ['main']
        td['targets'] = ['out']
        td['actions'] = [lambda: os.makedirs('out', exist_ok=True)]
        setup = None
        calls['rmdir'] = lambda put, state: os.rmdir('out')
        script = [RUN, RUN, ('call', 'rmdir'), RUN, RUN, ('edit', 'main'), RUN, RUN]
    elif variant == 'dangling-dep':
        td['file_dep'] = ['link']
        setup = lambda put, state: os.symlink('real', 'link')
        calls['repair'] = lambda put, state: put('real', 7)
        codes = (0, None, 2)
        script = [RUN, RUN, ('call', 'repair'), RUN, RUN, ('edit', 'real'), RUN, RUN]
    elif variant == 'dangling-target':
        td['file_dep'] = ['main']
        td['targets'] = ['link']
        setup = lambda put, state: os.symlink('real', 'link')
        calls['repair'] = lambda put, state: put('real', 7)
        sticky = ('t',)                     # until repaired: see effect of 'repair' below
        script = [RUN, RUN, ('call', 'repair'), RUN, RUN]
    elif variant == 'mtime0':
        td['file_dep'] = ['main']
        setup = lambda put, state: stamp('main', 0)
        calls['other-checker'] = lambda put, state: state.__setitem__(
            'checker', 'md5' if state.get('checker', case['checker']) == 'timestamp' else 'timestamp')
        calls['rewrite-at-0'] = lambda put, state: (put('main', 9), stamp('main', 0))
        script = [RUN, RUN, ('call', 'other-checker'), RUN, RUN, ('call', 'other-checker'), RUN, RUN, ('edit', 'main'), RUN, RUN]
    else:
        td['file_dep'] = ['main', 'other']
        files = ['main', 'other']
        setup = lambda put, state: (stamp('main', 3000, 5), stamp('other', 3000, 5))
        calls['swap'] = lambda put, state: (put('main', 2), put('other', 1), stamp('main', 3001), stamp('other', 3001))
        script = [RUN, RUN, ('call', 'swap'), RUN, RUN]

    def mk(state):
        return {'task_t': lambda: dict(td)}
    scn = {'names': names, 'mk': mk, 'effect': effect, 'sel': [], 'files': files, 'script': script, 'calls': calls,
           'codes': codes, 'sticky': sticky}
    if setup is not None:
        scn['setup'] = setup
    if variant == 'dangling-target':
        def repair(put, state):
            put('real', 7)
            scn['sticky_off'] = True
        calls['repair'] = repair
    return scn


UTDTIME_VARIANTS = ['timeout-big', 'timeout-timedelta', 'timeout-zero', 'ts-unchanged', 'ts-unchanged-ge',
                    'ts-unchanged-mtime0', 'cfg-encoder']


def _scn_utdtime(case):
    """uptodate helpers of doit.tools that M2 does not model, on a task with a file_dep of its own:
    timeout(10**9) / timeout(timedelta(days=1)): true once a success is recorded;  timeout(0): never true;
    check_timestamp_unchanged('stamp'): false when the mtime of `stamp` differs from the saved one (cmp_op=operator.ge:
    an OLDER mtime counts as unchanged);  config_changed(dict, encoder=): a dict with a set value (custom JSONEncoder),
    key order changed (not a change) vs. value changed."""
    import datetime
    import json as _json
    import operator
    from doit import tools
    variant = case['variant']
    names = ['t']
    calls, sticky, files = {}, (), ['main']
    script = [RUN, RUN, RUN, ('edit', 'main'), RUN, RUN]
    holder = {}

    def effect(kind, arg):
        if kind == 'call' and arg in ('reorder', 'older', 'zero'):
            return set()
        return {'t'}
    if variant.startswith('timeout'):
        limit = {'timeout-big': 10 ** 9, 'timeout-timedelta': datetime.timedelta(days=1), 'timeout-zero': 0}[variant]
        item = lambda state: tools.timeout(limit)
        if variant == 'timeout-zero':
            sticky = ('t',)
    elif variant.startswith('ts-unchanged'):
        files = ['main', 'stamp']
        ge = variant.endswith('-ge')
        item = lambda state: tools.check_timestamp_unchanged('stamp', 'mtime', operator.ge) if ge else \
            tools.check_timestamp_unchanged('stamp')
        calls['newer'] = lambda put, state: os.utime('stamp', ns=(9000 * NS, 9000 * NS))
        calls['older'] = lambda put, state: os.utime('stamp', ns=(500 * NS, 500 * NS))
        script = [RUN, RUN, ('call', 'newer'), RUN, RUN, ('edit', 'main'), RUN, RUN]
        if variant.endswith('mtime0'):
            # the watched file has mtime 0 (a falsy saved value) at first
            calls['zero'] = lambda put, state: os.utime('stamp', ns=(0, 0))
            script = [('call', 'zero'), RUN, RUN, RUN, ('call', 'newer'), RUN, RUN]
        if ge:
            script = [RUN, RUN, ('call', 'older'), RUN, ('call', 'newer'), RUN, RUN]
    else:
        class SetEncoder(_json.JSONEncoder):
            def default(self, o):
                return sorted(o) if isinstance(o, (set, frozenset)) else _json.JSONEncoder.default(self, o)
        holder['cfg'] = {'b': {3, 1, 2}, 'a': {'y': [1, {'k': 2}], 'x': None}}
        item = lambda state: tools.config_changed(holder['cfg'], encoder=SetEncoder)

        def setcfg(new):
            if case.get('objlife'):
                # the object holds the dict: a module-level configuration dict is changed in place
                holder['cfg'].clear()
                holder['cfg'].update(new)
            else:
                holder['cfg'] = new
        calls['reorder'] = lambda put, state: setcfg({'a': {'x': None, 'y': [1, {'k': 2}]}, 'b': {2, 3, 1}})
        calls['change'] = lambda put, state: setcfg({'a': {'x': None, 'y': [1, {'k': 3}]}, 'b': {2, 3, 1}})
        script = [RUN, RUN, ('call', 'reorder'), RUN, ('call', 'change'), RUN, RUN, ('edit', 'main'), RUN, RUN]

    item = _held(case, item)

    def mk(state):
        return {'task_t': lambda: {'actions': [lambda: True], 'file_dep': ['main'], 'uptodate': [item(state)]}}
    return {'names': names, 'mk': mk, 'effect': effect, 'sel': [], 'files': files, 'script': script, 'calls': calls,
            'sticky': sticky}


def odd_cases(full):
    out = []
    n = 0
    for kind, variants in (('oddfiles', ODD_VARIANTS), ('utdtime', UTDTIME_VARIANTS)):
        for variant in variants:
            for ck in CHECKERS:
                for b in BACKENDS:
                    n += 1
                    if not full and b != BACKENDS[(n // 3) % 3]:
                        continue
                    out.append({'kind': kind, 'variant': variant, 'backend': b, 'checker': ck, 'par': None,
                                'ntasks': 1, 'npaths': 1, 'ops': []})
    return out


def objlife_scenarios(full):
    """opt-in (run_property(objlife_share > 0)): the scenario families whose uptodate item is a helper OBJECT of doit
    (tools.timeout, check_timestamp_unchanged, config_changed(dict, encoder=), result_dep on a task / on a group) with
    ONE object that lives across all commands of the script (one process), while what it watches changes in between"""
    out = []
    n = 0
    for variant in UTDTIME_VARIANTS:
        for ck in CHECKERS:
            for b in BACKENDS:
                n += 1
                if not full and b != BACKENDS[(n // 3) % 3]:
                    continue
                out.append({'kind': 'utdtime', 'variant': variant, 'backend': b, 'checker': ck, 'par': None,
                            'ntasks': 1, 'npaths': 1, 'ops': [], 'objlife': 'module'})
    for variant in DICTRES_VARIANTS:
        for b in BACKENDS:
            n += 1
            if not full and variant not in ('string', 'tuple') and n % 3:
                continue
            out.append({'kind': 'dictres', 'variant': variant, 'backend': b, 'checker': CHECKERS[n % 2], 'par': None,
                        'ntasks': 3, 'npaths': 1, 'ops': [], 'objlife': 'module'})
    for subs in (0, 1, 2):
        for b in BACKENDS:
            n += 1
            if not full and subs == 0 and n % 3:
                continue
            out.append({'kind': 'group', 'backend': b, 'checker': CHECKERS[n % 2], 'subs': subs, 'par': None,
                        'ntasks': subs + 3, 'npaths': 2, 'ops': [], 'objlife': 'module'})
    return out


SCENARIOS = {'oddfiles': _scn_oddfiles, 'utdtime': _scn_utdtime, 'calc': _scn_calc, 'group': _scn_group, 'cfgdict': _scn_cfgdict, 'dictres': _scn_dictres}


def group_cases(full):
    out = []
    n = 0
    for subs in (0, 1, 2):
        for par in (None, 'thread'):
            for b in BACKENDS:
                for ck in CHECKERS:
                    n += 1
                    if not full and not ((par is None and n % 3 == subs % 3) or (par == 'thread' and subs == 0 and n % 6 == 1)):
                        continue
                    out.append({'kind': 'group', 'backend': b, 'checker': ck, 'subs': subs, 'par': par,
                                'ntasks': subs + 3, 'npaths': 2, 'ops': []})
    return out


def evaluate_calc(case):
    """scripted scenario families outside M2 (calc_dep; groups as result_dep / getargs sources).  Every run of a script is
    fully successful, so the set `pending` of tasks whose inputs changed since their last successful execution is known
    by construction: a skipped task must not be in it (C03), an executed one must be (C04)."""
    common.use_repo()
    from doit.doit_cmd import DoitMain
    from doit.cmd_base import ModuleTaskLoader
    scn = SCENARIOS[case['kind']](case)
    names = scn['names']
    v = Verdict()
    v.obs = []
    clock = [T0]
    state = {}

    def put(name, cid):
        clock[0] += 1
        with open(name, 'w') as f:
            f.write(content_of(cid))
        os.utime(name, ns=(clock[0] * NS, clock[0] * NS))

    old = os.getcwd()
    d = common.scratch_dir('scn')
    os.chdir(d)
    try:
        cid = 1
        for name in scn['files']:
            put(name, cid)
            cid += 1
        if 'setup' in scn:
            scn['setup'](put, state)
        sticky = set(scn.get('sticky', ()))      # tasks that can never be up-to-date by definition
        pending = set(names)          # tasks whose inputs changed since their last successful execution
        for i, (kind, arg) in enumerate(scn['script']):
            if kind == 'edit':
                cid += 2
                put(arg, cid)
                state[arg] = state.get(arg, 0) + 1
                pending |= scn['effect'](kind, arg)
                v.obs.append({'kind': 'edit', 'what': arg})
                continue
            if kind == 'touch':
                clock[0] += 1
                os.utime(arg, ns=(clock[0] * NS, clock[0] * NS))
                pending |= scn['effect'](kind, arg)
                v.obs.append({'kind': 'touch', 'what': arg})
                continue
            if kind == 'call':
                # a scenario-specific change of the world (make a directory entry, repair a link, switch the checker...)
                scn['calls'][arg](put, state)
                pending |= scn['effect'](kind, arg)
                v.obs.append({'kind': 'call', 'what': arg})
                continue
            if kind == 'bump':
                # something that is not a file changes (a configuration dict, the value a task computes)
                state[arg] = state.get(arg, 0) + 1
                if 'on_bump' in scn:
                    scn['on_bump'](arg, state)
                pending |= scn['effect'](kind, arg)
                v.obs.append({'kind': 'bump', 'what': arg})
                continue
            argv = ['run']
            if case['par'] == 'thread':
                argv += ['-n', '2', '-P', 'thread']
            elif case['par'] == 'process':
                argv += ['-n', '2']
            argv += scn['sel']
            ns = scn['mk'](state)
            rep = RecordingReporter()
            ns['DOIT_CONFIG'] = {'dep_file': 'deps-' + case['backend'], 'backend': case['backend'], 'verbosity': 0,
                                 'check_file_uptodate': state.get('checker', case['checker']), 'reporter': rep}
            out, err = io.StringIO(), io.StringIO()
            with contextlib.redirect_stdout(out), contextlib.redirect_stderr(err):
                try:
                    code = DoitMain(ModuleTaskLoader(ns)).run(argv)
                except BaseException as e:  # noqa
                    code = ['exc', type(e).__name__]
            executed = sorted({n for k, n, _ in rep.events if k == 'execute_task' and n in names})
            skipped = sorted({n for k, n, _ in rep.events if k == 'skip_uptodate' and n in names})
            v.obs.append({'kind': 'run', 'argv': argv, 'code': code, 'executed': executed, 'skipped': skipped,
                          'expected': sorted(pending), 'stderr': err.getvalue()[-300:] if code not in (0, None) else ''})
            v.n_exec += len(executed)
            v.n_skip += len(skipped)
            crashed = code == 3 and 'Traceback' in err.getvalue()
            if crashed:
                v.crash = (i, classify_traceback(err.getvalue()) or 'Exception')
                v.obs[-1]['stderr'] = err.getvalue()[-300:]
            elif code not in scn.get('codes', (0, None)):
                v.divergence = (i, '%s scenario: doit run exited %s' % (case['kind'], code), executed, sorted(pending))
                break
            for n in executed:
                if n not in pending and (n not in sticky or scn.get('sticky_off')):
                    v.c04.append((i, n, 'exec'))
            for n in skipped:
                if n in pending or (n in sticky and not scn.get('sticky_off')):
                    v.c03.append((i, n, 'skip'))
            # a task is refreshed only by a successful execution (it was reported as executed and doit did not crash)
            failed = {n for k, n, _ in rep.events if k == 'add_failure'}
            done = set(executed) - failed if not crashed else set()
            pending = (pending - done) if (crashed or failed) else set()
    finally:
        os.chdir(old)
        shutil.rmtree(d, ignore_errors=True)
    return v


def render_calc(case):
    out = _render_calc(case)
    if case.get('objlife'):
        out.insert(1, 'ONE process; the uptodate helper object is created once and reused in the task dicts of every command')
    return out


def _render_calc(case):
    if case.get('kind') in ('oddfiles', 'utdtime'):
        scn = SCENARIOS[case['kind']](case)
        out = ['%s scenario (%s): backend=%s checker=%s' % (case['kind'], case['variant'], case['backend'], case['checker']),
               (SCENARIOS[case['kind']].__doc__ or '').strip().split('\n')[0]]
        for kind, arg in scn['script']:
            out.append('doit run' if kind == 'run' else '%s %s' % (kind, arg))
        return out
    if case.get('kind') in ('cfgdict', 'dictres'):
        par = ' -n 2 -P thread' if case.get('par') else ''
        if case['kind'] == 'cfgdict' and case['variant'] == 'same-object':
            out = ['config_changed(dict) scenario, ONE process, same object in every run: backend=%s checker=%s%s'
                   % (case['backend'], case['checker'], par),
                   "chk = config_changed(OPTIONS)          # module level, OPTIONS = {'level': 0}",
                   "build = {file_dep: ['main'], uptodate: [chk]}"]
            script, sel = CFG_SCRIPT, ''
        elif case['kind'] == 'cfgdict':
            out = ['config_changed(dict) scenario, fresh objects per run, dict filled at run time: backend=%s checker=%s%s'
                   % (case['backend'], case['checker'], par),
                   'chk = config_changed(TOOLCHAIN)        # TOOLCHAIN = {} when the dodo file is loaded',
                   "stamp = {file_dep: ['main'], uptodate: [chk]}",
                   "probe = {actions: [TOOLCHAIN['cc'] = <what it finds>]}",
                   "build = {file_dep: ['main'], task_dep: ['probe'], uptodate: [chk]}"]
            script, sel = CFG_SCRIPT, ' stamp probe build'
        else:
            out = ['dict-result scenario (%s): backend=%s checker=%s%s' % (case['variant'], case['backend'],
                                                                          case['checker'], par),
                   'src = {actions: [returns %s]}            # no criteria: executed in every run'
                   % {'tuple': "{'pair': (1, k), 'name': 'x'}", 'int-keys': "{1: 'one', 2: k}",
                      'nested-tuple': "{'rows': [(1, 2), (3, k)], 'meta': {'shape': (2, 2)}}",
                      'plain': "{'items': [1, k], 'name': 'x'}", 'string': "'value-<k>'"}[case['variant']],
                   "report = {file_dep: ['main'], uptodate: [result_dep('src')]}",
                   "summary = {file_dep: ['main'], getargs: {'v': ('src', None)}, task_dep: ['src']}"]
            script, sel = DICTRES_SCRIPT, ''
        for kind, arg in script:
            out.append('doit run' + sel if kind == 'run' else
                       ('change the configuration / computed value' if kind == 'bump' else '%s %s' % (kind, arg)))
        return out
    if case.get('kind') == 'group':
        out = ['group scenario: backend=%s checker=%s sub-tasks=%d%s' % (
            case['backend'], case['checker'], case['subs'], ' -n 2 -P thread' if case['par'] else ''),
            "grp = task generator yielding %d sub-task(s) {name: s<i>, file_dep: [src<i>], action returns a result string}" % case['subs'],
            "report = {file_dep: ['main'], uptodate: [result_dep('grp')]}",
            "summary = {file_dep: ['main'], getargs: {'v': ('grp', None)}, task_dep: ['grp']}"]
        for kind, arg in GROUP_SCRIPT:
            out.append('doit run' if kind == 'run' else '%s %s' % (kind, arg))
        return out
    out = ['calc_dep scenario: backend=%s checker=%s order=%s consumers=%d%s' % (
        case['backend'], case['checker'], case['order'], case['consumers'],
        '' if not case['par'] else ' -n 2' + (' -P thread' if case['par'] == 'thread' else '')),
        "scan = {file_dep: ['main'], action returns {'file_dep': ['util']}}",
        "obj<i> = {file_dep: ['main'], calc_dep: ['scan']}"]
    names = ['scan'] + ['obj%d' % i for i in range(case['consumers'])]
    sel = '' if case['order'] == 'default' else ' ' + ' '.join(names if case['order'] == 'calc-first' else names[1:] + names[:1])
    for kind, arg in CALC_SCRIPT:
        out.append('doit run' + sel if kind == 'run' else '%s %s' % (kind, arg))
    return out


# ----------------------------------------------------------------------------------------------
# rendering and shrinking

def render(case):
    if case.get('kind') in SCENARIOS:
        return render_calc(case)
    extra = ''
    if case.get('scramble'):
        extra += ' mtimes-non-monotone(%d)' % case['scramble']
    if case.get('pathform'):
        extra += ' file_dep/targets-as-pathlib(%s)' % case['pathform']
    if case.get('subsec'):
        extra += ' sub-second-mtimes'
    if case.get('links'):
        extra += ' symlinks=%s' % [fname(p) for p in case['links']]
    if case.get('ckcls'):
        extra += ' checker-classes=user-defined(%s)' % case['ckcls']
    if case.get('objlife'):
        extra += ' uptodate-objects-live-across-commands(one per %s)' % ('distinct item' if case['objlife'] == 'module' else 'task and item')
    if case.get('hashseed') is not None:
        extra += ' (every doit invocation in a fresh interpreter, PYTHONHASHSEED=%d+k)' % case['hashseed']
    out = ['backend=%s checker=%s tasks=%d files=%d%s' % (case['backend'], case['checker'], case['ntasks'],
                                                         case['npaths'], extra)]
    for op in case['ops']:
        k = op[0]
        if k == 'edit':
            out.append('write f%d := %r' % (op[1], content_of(op[2])))
        elif k == 'editKeep':
            out.append('write f%d := %r keeping its mtime' % (op[1], content_of(op[2])))
        elif k in ('touch', 'delete'):
            out.append('%s f%d' % (k, op[1]))
        elif k == 'redefine':
            d = op[2]
            extra = ''
            if d.get('getargs') is not None:
                extra = ", getargs: {'v': ('t%d', None)}, task_dep: %s" % (d['getargs'], [tname(x) for x in d.get('task_dep', [])])
            out.append('t%d = {file_dep: %s, targets: %s, uptodate: %s%s}'
                       % (op[1], [fname(p) for p in d['deps']], [fname(p) for p in d['targets']],
                          [' '.join(str(x) for x in i) for i in d['uptodate']], extra))
        elif k == 'run':
            s = op[1]
            flags = (' -a' if s.get('always') else '') + (' -c' if s.get('cont') else '') + \
                    (' -n 2' + (' -P thread' if s['par'] == 'thread' else '') if s.get('par') else '')
            sel = '' if s.get('sel') is None else ' ' + ' '.join(tname(t) for t in s['sel'])
            acts = []
            for t, pl in sorted((s.get('plan') or {}).items()):
                bits = []
                if pl.get('writes'):
                    bits.append('writes ' + ','.join('f%d:=%r' % (p, content_of(c)) for p, c in pl['writes']))
                if not pl.get('ok', True):
                    bits.append('FAILS')
                if pl.get('res') is not None:
                    bits.append("returns 'r%d'" % pl['res'])
                if bits:
                    acts.append('t%s %s' % (t, ' '.join(bits)))
            out.append('doit run%s%s%s' % (flags, sel, ('   [actions: ' + '; '.join(acts) + ']') if acts else ''))
        elif k == 'forget':
            out.append('doit forget ' + (' '.join(tname(t) for t in op[1]) if op[1] else '--all'))
        elif k == 'ignore':
            out.append('doit ignore ' + ' '.join(tname(t) for t in op[1]))
        elif k == 'reset-dep':
            out.append('doit reset-dep ' + ' '.join(tname(t) for t in op[1]))
        elif k == 'checker':
            out.append('from now on --check_file_uptodate=%s' % op[1])
    return out


def shrink(case, still_fails, max_evals=120):
    """delta debugging on the op list (then on plans / definitions); `still_fails(case) -> bool`"""
    evals = [0]

    def test(c):
        if evals[0] >= max_evals:
            return False
        evals[0] += 1
        try:
            return bool(still_fails(c))
        except Exception:  # noqa
            return False

    cur = json.loads(json.dumps(case))
    if cur.get('kind') in SCENARIOS:
        return cur

    def used_tasks(c):
        m = 0
        for op in c['ops']:
            if op[0] == 'redefine':
                m = max(m, op[1] + 1)
                m = max([m] + [i[1] + 1 for i in op[2]['uptodate'] if i[0] in ('res', 'usercalc')])
                if op[2].get('getargs') is not None:
                    m = max(m, op[2]['getargs'] + 1)
            elif op[0] in ('forget', 'ignore', 'reset-dep'):
                m = max([m] + [t + 1 for t in op[1]])
            elif op[0] == 'run':
                m = max([m] + [t + 1 for t in (op[1].get('sel') or [])])
        return max(1, m)

    changed = True
    while changed and evals[0] < max_evals:
        changed = False
        for i in range(len(cur['ops']) - 1, -1, -1):
            cand = dict(cur, ops=cur['ops'][:i] + cur['ops'][i + 1:])
            if cand['ops'] and test(cand):
                cur = cand
                changed = True
        # simplify runs: drop flags, plans
        for i, op in enumerate(cur['ops']):
            if op[0] == 'run':
                for key, val in (('par', None), ('always', False), ('cont', False), ('sel', None)):
                    if op[1].get(key) not in (val, None) or (key == 'sel' and op[1].get('sel') is not None):
                        spec = dict(op[1])
                        spec[key] = val
                        cand = dict(cur, ops=cur['ops'][:i] + [['run', spec]] + cur['ops'][i + 1:])
                        if test(cand):
                            cur = cand
                            op = cand['ops'][i]
                            changed = True
                for t in list((op[1].get('plan') or {}).keys()):
                    spec = dict(op[1])
                    spec['plan'] = {k: v for k, v in op[1]['plan'].items() if k != t}
                    cand = dict(cur, ops=cur['ops'][:i] + [['run', spec]] + cur['ops'][i + 1:])
                    if test(cand):
                        cur = cand
                        op = cand['ops'][i]
                        changed = True
            elif op[0] == 'redefine':
                d = op[2]
                for key in ('uptodate', 'targets', 'deps'):
                    for j in range(len(d[key]) - 1, -1, -1):
                        d2 = dict(d)
                        d2[key] = d[key][:j] + d[key][j + 1:]
                        cand = dict(cur, ops=cur['ops'][:i] + [['redefine', op[1], d2]] + cur['ops'][i + 1:])
                        if test(cand):
                            cur = cand
                            d = d2
                            op = cand['ops'][i]
                            changed = True
        n = used_tasks(cur)
        if n < cur['ntasks']:
            cand = dict(cur, ntasks=n)
            if test(cand):
                cur = cand
    return cur


def allow_children():
    """pool workers are daemonic; doit's process runner needs to start children"""
    import multiprocessing
    try:
        multiprocessing.current_process()._config['daemon'] = False
    except Exception:  # noqa
        pass


# ----------------------------------------------------------------------------------------------
# generators

UTD_POOL = [(['const', True], 6), (['const', False], 2), (['none'], 2), (['runOnce'], 3), (['cfg', 1], 2),
            (['cfg', 2], 2), (['shell', True], 1), (['shell', False], 1), (['custom', True], 1),
            (['custom', False], 1), (['custom', None], 1)]


def _weighted(rng, pool):
    tot = sum(w for _, w in pool)
    r = rng.random() * tot
    for x, w in pool:
        r -= w
        if r <= 0:
            return x
    return pool[-1][0]


class Shape(object):
    """fixed layout of a case: sources 0..nsrc-1, target of task t = nsrc + t"""

    def __init__(self, ntasks, nsrc):
        self.ntasks, self.nsrc = ntasks, nsrc
        self.npaths = nsrc + ntasks

    def target(self, t):
        return self.nsrc + t


def gen_def(rng, sh, t, prev=None):
    """a task definition; with `prev` a *variation* of it (dep removed / re-added, uptodate toggled, ...)"""
    if prev is not None and rng.random() < 0.75:
        d = json.loads(json.dumps(prev))
        r = rng.random()
        if r < 0.30 and d['deps']:
            d['deps'].remove(rng.choice(d['deps']))
        elif r < 0.55:
            cand = [p for p in range(sh.nsrc) if p not in d['deps']]
            if cand:
                d['deps'].append(rng.choice(cand))
            elif d['deps']:
                d['deps'] = []
        elif r < 0.65:
            d['deps'] = []
            if not d['uptodate']:
                d['uptodate'] = [['const', True]]
        elif r < 0.75:
            rng.shuffle(d['deps'])
        elif r < 0.85:
            d['uptodate'] = d['uptodate'][:-1] if d['uptodate'] else [_weighted(rng, UTD_POOL)]
        elif r < 0.93:
            d['uptodate'] = d['uptodate'] + [_weighted(rng, UTD_POOL)]
        else:
            d['targets'] = [] if d['targets'] else [sh.target(t)]
        return d
    deps = [p for p in range(sh.nsrc) if rng.random() < 0.6]
    if rng.random() < 0.2:
        deps = []
    earlier = list(range(t))
    if earlier and rng.random() < 0.35:
        deps.append(sh.target(rng.choice(earlier)))       # target -> file_dep composition
    rng.shuffle(deps)
    targets = [sh.target(t)] if rng.random() < 0.5 else []
    utd = []
    for _ in range(rng.choice([0, 0, 1, 1, 1, 2])):
        utd.append(_weighted(rng, UTD_POOL))
    if earlier and rng.random() < 0.3:
        utd.append(['res', rng.choice(earlier)])             # result_dep composition
    d = {'deps': deps, 'targets': targets, 'uptodate': utd}
    if earlier and rng.random() < 0.2:
        x = rng.choice(earlier)                               # getargs + explicit task_dep on the same task
        d['getargs'] = x
        d['task_dep'] = [x]
    return d


def gen_plan(rng, sh, defs):
    plan = {}
    for t in range(sh.ntasks):
        d = defs[t]
        writes = []
        for p in d['targets']:
            if rng.random() < 0.85:
                writes.append([p, rng.randrange(10, 16)])
        own = [p for p in d['deps'] if p < sh.nsrc and
               not any(p in defs[u]['deps'] for u in range(sh.ntasks) if u != t)]
        if own and rng.random() < 0.12:
            writes.append([rng.choice(own), rng.randrange(1, 8)])   # the action rewrites its own dependency
        ok = rng.random() < 0.85
        res = rng.choice([None, None, None, 1, 2, 3])
        if writes or not ok or res is not None:
            plan[str(t)] = {'ok': ok, 'writes': writes, 'res': res}
    return plan


def gen_plan_ok(rng, sh, defs):
    """every action succeeds and writes its targets (no other writes)"""
    plan = {}
    for t in range(sh.ntasks):
        if defs[t]['targets']:
            plan[str(t)] = {'ok': True, 'writes': [[p, 10 + t] for p in defs[t]['targets']], 'res': None}
    return plan


def _run_all(plan):
    return ['run', {'sel': None, 'always': False, 'cont': True, 'par': None, 'plan': plan}]


def fragment_false_item_restore(rng, sh, defs):
    """a run that is caused by a FALSE uptodate item (get_status returns early, dep_changed == []) while a source has
    other content; afterwards the item is true again and the source gets its old content back exactly"""
    t = rng.randrange(sh.ntasks)
    d = json.loads(json.dumps(defs[t]))
    src = [p for p in d['deps'] if p < sh.nsrc]
    if not src:
        d['deps'].append(0)
        src = [0]
    p = rng.choice(src)
    a, b = rng.sample(range(1, 8), 2)
    base_utd = [u for u in d['uptodate'] if u[0] in ('none',) or (u[0] in ('const', 'shell', 'custom') and u[1] is True)]
    how = rng.choice(['cfg', 'const', 'shell', 'custom'])
    if how == 'cfg':
        good, bad, back = base_utd + [['cfg', 1]], base_utd + [['cfg', 2]], None
    else:
        good, bad = base_utd + [[how, True]], base_utd + [[how, False]]
        back = good
    ops = [['edit', p, a], ['redefine', t, dict(d, uptodate=good)], _run_all(gen_plan_ok(rng, sh, defs)),
           _run_all(gen_plan_ok(rng, sh, defs)),
           ['edit', p, b], ['redefine', t, dict(d, uptodate=bad)], _run_all(gen_plan_ok(rng, sh, defs))]
    if back is not None:
        ops.append(['redefine', t, dict(d, uptodate=back)])
    if rng.random() < 0.3:
        ops.append(_run_all(gen_plan_ok(rng, sh, defs)))
    ops += [['edit', p, a], _run_all(gen_plan_ok(rng, sh, defs)), _run_all(gen_plan_ok(rng, sh, defs))]
    defs[t] = dict(d, uptodate=(back if back is not None else bad))
    return ops


def fragment_own_dep_rewrite(rng, sh, defs):
    """the action of a task rewrites one of its own file_deps in place (same size or another size) during an
    execution that was caused by a modification of that very file; later the file is touched"""
    t = rng.randrange(sh.ntasks)
    d = json.loads(json.dumps(defs[t]))
    p = rng.randrange(sh.nsrc)
    for u in range(sh.ntasks):              # the file is private to t
        if u != t and p in defs[u]['deps']:
            dd = json.loads(json.dumps(defs[u]))
            dd['deps'].remove(p)
            defs[u] = dd
    if p not in d['deps']:
        d['deps'].append(p)
    d['uptodate'] = [u for u in d['uptodate'] if not (u[0] in ('const', 'shell', 'custom') and u[1] is False)]
    defs[t] = d
    same = rng.random() < 0.7
    a = rng.choice([1, 3, 5, 7])
    b = rng.choice([c for c in [1, 3, 5, 7] if c != a])
    c = rng.choice([c for c in ([1, 3, 5, 7] if same else [2, 4, 6]) if c not in (a, b)])
    ops = [['redefine', u, defs[u]] for u in range(sh.ntasks)]
    plan = gen_plan_ok(rng, sh, defs)
    ops += [['edit', p, a], _run_all(plan), rng.choice([['edit', p, b], ['touch', p]])]
    plan2 = json.loads(json.dumps(gen_plan_ok(rng, sh, defs)))
    pl = plan2.setdefault(str(t), {'ok': True, 'writes': [], 'res': None})
    pl['writes'] = pl['writes'] + [[p, c]]
    spec = _run_all(plan2)
    if rng.random() < 0.3:
        spec[1]['always'] = True
    ops += [spec, _run_all(gen_plan_ok(rng, sh, defs)), ['touch', p], _run_all(gen_plan_ok(rng, sh, defs)),
            _run_all(gen_plan_ok(rng, sh, defs))]
    return ops


def enrich(case, rr):
    """opt-in post-pass (`gen_case(..., rich=True)`, used by C03/C04 only): unusual but legal inputs --
    user-defined checker classes (module level / made by a factory function), uptodate callables returning NON-bool
    values (0, '', [], 1, 'x', [0]), the EMPTY file (plus touch / rewrite of it)"""
    import copy
    c = copy.deepcopy(case)
    r = rr.random()
    if r < 0.18:
        c['ckcls'] = 'nested'
    elif r < 0.30:
        c['ckcls'] = 'module'
    r = rr.random()
    if r < 0.15:
        c['pathform'] = 'path'
    elif r < 0.30:
        c['pathform'] = 'mixed'
    if rr.random() < 0.3:
        c['subsec'] = True
    if rr.random() < 0.2:
        nsrc = max(1, c['npaths'] - c['ntasks'])
        c['links'] = sorted(rr.sample(range(nsrc), rr.randint(1, nsrc)))
    falsy, truthy = ['0', 'empty-str', 'empty-list'], ['1', 'str', 'list']
    empties = []
    ops = []
    for op in c['ops']:
        if op[0] == 'redefine':
            utd = []
            for it in op[2]['uptodate']:
                x = rr.random()
                if it[0] == 'custom' and it[1] is not None and x < 0.45:
                    utd.append(['customv', rr.choice(truthy if it[1] else falsy)])
                elif it[0] in ('custom', 'const', 'shell') and x < 0.75:
                    # another written form of an item that computes the same constant
                    utd.append(['form', rr.choice(FORMS), it[1]])
                elif it[0] == 'res' and x < 0.35:
                    utd.append(['usercalc', it[1]])
                else:
                    utd.append(it)
            if rr.random() < 0.12:
                utd.append(['customv', rr.choice(truthy + truthy + falsy)])
            op[2]['uptodate'] = utd
        elif op[0] == 'edit' and rr.random() < 0.12:
            op[2] = EMPTY
            empties.append(op[1])
        ops.append(op)
    if empties and rr.random() < 0.7:
        p = rr.choice(empties)
        run = ['run', {'sel': None, 'always': False, 'cont': True, 'par': None, 'plan': {}}]
        ops += [['edit', p, EMPTY], run, rr.choice([['touch', p], ['edit', p, EMPTY]]), copy.deepcopy(run), copy.deepcopy(run)]
    c['ops'] = ops
    return c


def gen_case(rng, parallel=False, informational=False, rich=False):
    if rich:
        import random as _random
        rr = _random.Random(rng.random())
        return enrich(gen_case(rng, parallel=parallel, informational=informational), rr)
    ntasks = rng.choice([1, 1, 1, 1, 2, 2, 2, 3, 3, 4])
    nsrc = rng.choice([1, 2, 2, 3])
    sh = Shape(ntasks, nsrc)
    ops = []
    for p in range(nsrc):
        if rng.random() < 0.9:
            ops.append(['edit', p, rng.randrange(1, 8)])
    defs = {}
    common_src = rng.randrange(nsrc) if (ntasks > 1 and rng.random() < 0.6) else None
    for t in range(ntasks):
        defs[t] = gen_def(rng, sh, t)
        if common_src is not None and common_src not in defs[t]['deps'] and rng.random() < 0.85:
            defs[t]['deps'].append(common_src)      # a source shared by the tasks: their records can diverge
        ops.append(['redefine', t, defs[t]])
    n = rng.randint(4, 14)
    kinds = [('run', 30), ('redefine', 24), ('edit', 12), ('touch', 6), ('delete', 8), ('forget', 5),
             ('ignore', 2), ('reset-dep', 5), ('checker', 4)]
    if informational:
        kinds.append(('editKeep', 8))
    last = 'redefine'
    for i in range(n):
        k = _weighted(rng, kinds)
        if i == n - 1 or (last == 'redefine' and rng.random() < 0.6) or (last != 'run' and rng.random() < 0.2):
            k = 'run'
        last = k
        if k == 'run':
            spec = {'sel': None, 'always': rng.random() < 0.08, 'cont': rng.random() < 0.3, 'par': None,
                    'plan': gen_plan(rng, sh, defs)}
            if ntasks > 1 and rng.random() < 0.4:
                # a partial run: only some tasks are selected (mostly a single one)
                k = 1 if rng.random() < 0.6 else rng.randint(1, ntasks)
                spec['sel'] = sorted(rng.sample(range(ntasks), k))
            if parallel and rng.random() < 0.6:
                spec['par'] = rng.choice(['process', 'thread'])
            ops.append(['run', spec])
        elif k == 'redefine':
            t = rng.randrange(ntasks)
            defs[t] = gen_def(rng, sh, t, defs[t])
            ops.append(['redefine', t, defs[t]])
        elif k == 'edit':
            ops.append(['edit', common_src if (common_src is not None and rng.random() < 0.6) else rng.randrange(nsrc),
                        rng.randrange(1, 8)])
        elif k == 'editKeep':
            ops.append(['editKeep', rng.randrange(nsrc), rng.randrange(1, 8)])
        elif k == 'touch':
            ops.append(['touch', rng.randrange(sh.npaths)])
        elif k == 'delete':
            ops.append(['delete', rng.randrange(sh.npaths) if rng.random() < 0.6 else sh.target(rng.randrange(ntasks))])
        elif k == 'forget':
            ops.append(['forget', [] if rng.random() < 0.25 else [rng.randrange(ntasks)]])
        elif k == 'ignore':
            ops.append(['ignore', [rng.randrange(ntasks)]])
        elif k == 'reset-dep':
            ops.append(['reset-dep', [] if rng.random() < 0.35 else [rng.randrange(ntasks)]])
        elif k == 'checker':
            ops.append(['checker', rng.choice(CHECKERS)])
    r0 = rng.random()
    if r0 < 0.18:
        ops += fragment_false_item_restore(rng, sh, defs)
    elif r0 < 0.36:
        ops += fragment_own_dep_rewrite(rng, sh, defs)
    if common_src is not None and rng.random() < 0.5:
        # records of tasks sharing a source diverge: everything is run, the shared source changes, only some tasks
        # are refreshed (partial run / reset-dep / forget + partial run), then everything is run again (twice)
        some = (list(range(rng.randint(1, ntasks - 1))) if rng.random() < 0.7
                else sorted(rng.sample(range(ntasks), rng.randint(1, ntasks - 1))))
        ops.append(['run', {'sel': None, 'always': False, 'cont': True, 'par': None, 'plan': gen_plan_ok(rng, sh, defs)}])
        ops.append(rng.choice([['edit', common_src, rng.randrange(1, 8)], ['touch', common_src]]))
        how = rng.random()
        if how < 0.5:
            ops.append(['run', {'sel': some, 'always': False, 'cont': True, 'par': None, 'plan': gen_plan_ok(rng, sh, defs)}])
        elif how < 0.8:
            ops.append(['reset-dep', some])
        else:
            ops.append(['forget', some])
            ops.append(['run', {'sel': some, 'always': False, 'cont': True, 'par': None, 'plan': gen_plan_ok(rng, sh, defs)}])
        for _ in range(2):
            ops.append(['run', {'sel': None, 'always': False, 'cont': True, 'par': rng.choice(['process', 'thread']) if parallel and rng.random() < 0.3 else None,
                                'plan': gen_plan_ok(rng, sh, defs)}])
    return {'backend': rng.choice(BACKENDS), 'checker': rng.choice(CHECKERS), 'ntasks': ntasks,
            'npaths': sh.npaths, 'ops': ops, 'scramble': rng.choice([0, rng.randrange(1, 90000), rng.randrange(1, 90000)])}


def mutate_case(rng, case):
    """a variation of a corpus seed: insert / drop / duplicate ops, other backend or checker"""
    c = json.loads(json.dumps(case))
    c.pop('matrix', None)
    c.pop('comment', None)
    ops = c['ops']
    for _ in range(rng.randint(1, 3)):
        r = rng.random()
        if r < 0.3 and len(ops) > 3:
            del ops[rng.randrange(len(ops))]
        elif r < 0.6:
            ops.insert(rng.randrange(len(ops) + 1), json.loads(json.dumps(rng.choice(ops))))
        else:
            extra = rng.choice([['touch', 0], ['edit', 0, rng.randrange(1, 8)], ['run', {'plan': {}}],
                                ['forget', []], ['reset-dep', []], ['delete', 0],
                                ['checker', rng.choice(CHECKERS)]])
            ops.insert(rng.randrange(len(ops) + 1), extra)
    c['backend'] = rng.choice(BACKENDS)
    if rng.random() < 0.3:
        c['checker'] = rng.choice(CHECKERS)
    return sanitize_parallel(c)


def sanitize_parallel(case):
    """under -n 2 tasks without a dependency between them run concurrently: an action may then only write its own
    targets (doit orders target -> file_dep) or a dependency no other task mentions; other writes are dropped"""
    defs = {}
    for op in case['ops']:
        if op[0] == 'redefine':
            defs[op[1]] = op[2]
        elif op[0] == 'run' and op[1].get('par'):
            for t, pl in (op[1].get('plan') or {}).items():
                d = defs.get(int(t), {'deps': [], 'targets': []})
                keep = []
                for p, cid in pl.get('writes', []):
                    others = any(p in dd['deps'] or p in dd['targets'] for u, dd in defs.items() if u != int(t))
                    if p in d['targets'] or (p in d['deps'] and not others):
                        keep.append([p, cid])
                pl['writes'] = keep
    return case


EXH_PREFIX = [['edit', 0, 1], ['edit', 1, 2], ['redefine', 0, {'deps': [0], 'targets': [], 'uptodate': []}]]
_DEF_A = ['redefine', 0, {'deps': [0], 'targets': [], 'uptodate': []}]
_DEF_B = ['redefine', 0, {'deps': [], 'targets': [], 'uptodate': [['const', True]]}]
_DEF_C = ['redefine', 0, {'deps': [1, 0], 'targets': [], 'uptodate': [['const', True]]}]
_RUN = ['run', {'plan': {}}]
_FAIL = ['run', {'plan': {'0': {'ok': False, 'writes': [], 'res': None}}}]
# plain alphabet: one op per letter
EXH_ALPHABET = {'A': [_DEF_A], 'B': [_DEF_B], 'C': [_DEF_C], 'R': [_RUN], 'F': [_FAIL], 'E': [['edit', 0, 3]],
                'T': [['touch', 0]], 'G': [['forget', [0]]], 'S': [['reset-dep', [0]]]}
# macro alphabet: a redefinition is immediately followed by a run (histories like F-C03 are 3 letters long)
EXH_MACRO = {'a': [_DEF_A, _RUN], 'b': [_DEF_B, _RUN], 'c': [_DEF_C, _RUN], 'r': [_RUN], 'f': [_FAIL],
             'e': [['edit', 0, 3]], 't': [['touch', 0]], 'g': [['forget', [0]]], 's': [['reset-dep', [0]]]}


def _utd_def(items):
    return ['redefine', 0, {'deps': [0], 'targets': [], 'uptodate': items}]


EXH3_PREFIX = [['edit', 0, 1], _utd_def([['cfg', 1]]), ['run', {'plan': {}}]]
# one task, file_dep [f0] plus an uptodate item that can turn false: runs caused by the item interleaved with edits
# to another content and back
EXH_UTD = {'r': [['run', {'plan': {}}]], 'e': [['edit', 0, 3]], 'd': [['edit', 0, 1]], 't': [['touch', 0]],
           'k': [_utd_def([['cfg', 2]]), ['run', {'plan': {}}]], 'j': [_utd_def([['cfg', 1]]), ['run', {'plan': {}}]],
           'n': [_utd_def([['const', False]]), ['run', {'plan': {}}]], 'y': [_utd_def([['const', True]]), ['run', {'plan': {}}]],
           'w': [['run', {'plan': {'0': {'ok': True, 'writes': [[0, 5]], 'res': None}}, 'always': True}]]}


def _words(alphabet, maxlen, keep):
    letters = sorted(alphabet)
    seqs, out = [''], []
    for _ in range(maxlen):
        seqs = [s + a for s in seqs for a in letters]
        out += [s for s in seqs if keep(s)]
    return out


# two tasks sharing one file_dep: records diverge through partial runs (selection), reset-dep / forget of one task
_SH_DEF = {'deps': [0], 'targets': [], 'uptodate': []}
EXH2_PREFIX = [['edit', 0, 1], ['redefine', 0, _SH_DEF], ['redefine', 1, _SH_DEF], ['run', {'plan': {}}]]
EXH_SHARED = {'R': [['run', {'plan': {}}]], 'L': [['run', {'plan': {}, 'sel': [0]}]], 'M': [['run', {'plan': {}, 'sel': [1]}]],
              'E': [['edit', 0, 3]], 'T': [['touch', 0]], 'S': [['reset-dep', [0]]], 'Z': [['reset-dep', [1]]],
              'G': [['forget', [0]]], 'F': [['run', {'plan': {'1': {'ok': False, 'writes': [], 'res': None}}, 'cont': True}]]}


def exhaustive_cases(maxlen, macro_len=None, shared_len=None, utd_len=None):
    """every history of length <= maxlen over the 9-op plain alphabet on one task that ends in an observing op
    (run / failing run / reset-dep) and contains a successful run or reset before it, plus every history of
    length <= macro_len over the 9-letter macro alphabet (redefine+run fused) ending in an observing letter, plus
    every history of length <= shared_len over the 9-letter alphabet on TWO tasks sharing a file_dep (full run,
    run of one task only, edit, touch, reset-dep / forget of one task, run in which the second task fails) that
    contains an edit/touch and ends in a run, plus every history of length <= utd_len over the 9-letter alphabet on one
    task with a file_dep and an uptodate item that can turn false (config_changed 1/2, const True/False fused with a run;
    edit to another content / back; touch; an --always run whose action rewrites the dependency); backend and checker
    rotate"""
    out = []
    words = [(w, EXH_ALPHABET, EXH_PREFIX, 1) for w in _words(EXH_ALPHABET, maxlen,
             lambda s: s[-1] in 'RFS' and ('R' in s[:-1] or 'S' in s[:-1]))]
    words += [(w, EXH_MACRO, EXH_PREFIX, 1) for w in _words(EXH_MACRO, macro_len or 0,
              lambda s: s[-1] in 'abcrfs' and len(s) > 1)]
    words += [('2:' + w, EXH_SHARED, EXH2_PREFIX, 2) for w in _words(EXH_SHARED, shared_len or 0,
              lambda s: s[-1] in 'RLMF' and ('E' in s or 'T' in s) and len(s) > 1)]
    words += [('3:' + w, EXH_UTD, EXH3_PREFIX, 1) for w in _words(EXH_UTD, utd_len or 0,
              lambda s: s[-1] in 'rkjyw' and len(s) > 1 and any(c in s for c in 'edtw'))]
    for n, (w, alpha, prefix, ntasks) in enumerate(words):
        ops = list(prefix)
        for a in w.split(':')[-1]:
            ops += alpha[a]
        out.append({'backend': BACKENDS[n % 3], 'checker': CHECKERS[(n // 3) % 2], 'ntasks': ntasks, 'npaths': 2,
                    'ops': json.loads(json.dumps(ops)), 'word': w, 'scramble': (n % 4) * 1237})
    return out


def expand_corpus(prop, full=True):
    """corpus cases; a case with 'matrix': true runs on every backend x both checkers (`full`), or -- quick tier -- on two
    of the six combinations (both checkers, backends rotating with the position of the seed)"""
    out = []
    for idx, (name, c) in enumerate(common.load_corpus(prop)):
        if c.get('matrix'):
            for bi, b in enumerate(BACKENDS):
                for ci, ck in enumerate(CHECKERS):
                    if not full and bi != (idx + ci) % 3:
                        continue
                    cc = json.loads(json.dumps(c))
                    cc['backend'], cc['checker'] = b, ck
                    cc['scramble'] = 0 if (len(out) % 2) else 4242
                    out.append((name, cc))
            if c.get('hashseeds'):
                for hs in c['hashseeds']:
                    cc = json.loads(json.dumps(c))
                    cc['hashseed'] = hs
                    out.append((name, cc))
        else:
            out.append((name, c))
    return out


# ----------------------------------------------------------------------------------------------
# the check shared by C03 and C04

def nontrivial(case, v):
    """a history is non-trivial when the implementation both skipped and executed something in it"""
    return v.n_skip > 0 and v.n_exec > 0


def strip(case):
    return {k: case[k] for k in ('backend', 'checker', 'ntasks', 'npaths', 'ops', 'hashseed', 'scramble', 'kind', 'order', 'consumers',
                                    'par', 'subs', 'ckcls', 'variant', 'subsec', 'links', 'pathform', 'objlife') if k in case}


def failing_predicate(prop):
    def fails(case):
        v = evaluate([strip(case)])[0]
        return bool(v.c03 if prop == 'C03' else v.c04)
    return fails


def process_batch(arg):
    """worker: evaluate a batch, return WorkerStats.  arg = (prop, [(origin, case)...])"""
    prop, batch = arg
    allow_children()
    st = common.WorkerStats()
    cases = [strip(c) for _, c in batch]
    try:
        verdicts = evaluate(cases)
    except Exception:  # noqa
        # a loaded machine can make one driver / doit child invocation time out: one more attempt before this counts
        # as a broken harness
        st.count('harness:batch-retried')
        verdicts = evaluate(cases)
    shrunk = 0
    for (origin, _), case, v in zip(batch, cases, verdicts):
        st.case({'history': render(case)}, nontrivial(case, v))
        st.traces += 1
        st.count('origin:' + origin)
        st.count('mtimes:' + ('non-monotone' if case.get('scramble') else 'monotone'))
        for knob in ('pathform', 'ckcls', 'objlife'):
            if case.get(knob):
                st.count('knob:%s:%s' % (knob, case[knob]))
        for knob in ('subsec', 'links'):
            if case.get(knob):
                st.count('knob:' + knob)
        if case.get('kind') in SCENARIOS:
            st.count('scenario(monitors-only):%s:%s%s' % (case['kind'], case.get('variant') or case.get('order') or case.get('subs'),
                                                           '+objects-live-across-commands' if case.get('objlife') else ''))
        for op in case['ops']:
            if op[0] == 'redefine':
                for it in op[2]['uptodate']:
                    st.count('utd:' + (it[0] + ':' + str(it[1]) if it[0] in ('form', 'customv') else it[0]))
                if op[2].get('getargs') is not None:
                    st.count('utd:getargs+task_dep')
            elif op[0] == 'edit' and op[2] == EMPTY:
                st.count('edit:empty-file')
        if case.get('hashseed') is not None:
            st.count('mode:fresh-interpreter-per-invocation')
        st.count('backend:' + case['backend'])
        st.count('checker0:' + case['checker'])
        st.count('tasks:%d' % case['ntasks'])
        st.count('len:%s' % ('<=8' if len(case['ops']) <= 8 else '<=14' if len(case['ops']) <= 14 else '>14'))
        for op in case['ops']:
            st.count('op:' + op[0])
            if op[0] == 'run' and op[1].get('par'):
                st.count('run:par-' + op[1]['par'])
            if op[0] == 'run' and op[1].get('always'):
                st.count('run:always')
        for k, n in v.branches.items():
            st.count('model:' + k, n)
        st.count('impl:skips', v.n_skip)
        st.count('impl:executions', v.n_exec)
        if v.crash:
            st.count('impl:crash-' + str(v.crash[1]))
        bad = v.c03 if prop == 'C03' else v.c04
        if (bad or v.divergence) and not v.informational:
            # confirm on a second execution in a fresh directory: an alarm must be reproducible (a loaded machine can
            # make a single doit invocation fail with an OSError that has nothing to do with the history)
            v1 = evaluate([case])[0]
            bad1 = v1.c03 if prop == 'C03' else v1.c04
            if bool(bad1) != bool(bad) or bool(v1.divergence) != bool(v.divergence):
                st.count('flaky:not-reproduced')
                crash = v.crash or v1.crash
                st.count('flaky:' + (str(crash[1]) if crash else 'other'))
                for vv in (v, v1):
                    for o in (vv.obs or []):
                        if o.get('stderr'):
                            st.count('flaky:stderr:' + o['stderr'].strip().split('\n')[-1][:120])
                v, bad = v1, bad1
        if v.informational:
            st.count('informational:histories')
            if v.c03:
                st.count('informational:c03-monitor-false')
            if v.c04:
                st.count('informational:c04-monitor-false')
            continue
        if bad:
            small = case
            if shrunk < 2:
                shrunk += 1
                small = shrink(case, failing_predicate(prop))
            v2 = evaluate([small])[0]
            bad2 = (v2.c03 if prop == 'C03' else v2.c04) or bad
            i, t, kind = bad2[0]
            t = t if isinstance(t, str) else tname(t)
            what = ('skipped %s although the specification (shadow of its last recorded successful execution) says '
                    'it is stale' % t) if prop == 'C03' else \
                   ('executed %s although nothing changed since its last recorded successful execution' % t)
            st.violation({'case': small, 'rendered': render(small), 'at_op': i, 'task': t, 'event': kind,
                          'origin': origin},
                         'monitor', what)
        elif v.divergence:
            i, what, impl, model = v.divergence
            st.divergence({'case': case, 'rendered': render(case), 'at_op': i, 'impl': impl, 'model': model,
                           'origin': origin,
                           'stderr': (v.obs[i].get('stderr') if v.obs and i < len(v.obs) else None)},
                          'correspondence M2: ' + what)
    return st


def run_property(ctx, prop, n_random, exh_len, macro_len, parallel_share=0.0, n_info=0, sub_share=0.02,
                 shared_len=3, utd_len=3, objlife_share=0.0):
    """corpus first, then the small-scope exhaustive tier, then random histories -- in rounds, until everything is
    done or the time budget of the tier is used up (what was left out is written to the evidence)"""
    items = []
    full = (ctx.tier != 'quick' or ctx.boost > 1)
    corpus = expand_corpus(prop, full)
    seeds = [c for _, c in corpus]
    calc = calc_cases(full=(ctx.tier != 'quick' or ctx.boost > 1))
    ctx.extra['calc_dep_scenarios'] = len(calc)
    for c in calc:
        items.append(('calc-dep-scenario', c))
    grp = group_cases(full=(ctx.tier != 'quick' or ctx.boost > 1))
    ctx.extra['group_result_dep_scenarios'] = len(grp)
    for c in grp:
        items.append(('group-scenario', c))
    more = cfgdict_cases(full) + dictres_cases(full)
    ctx.extra['config_dict_and_dict_result_scenarios'] = len(more)
    for c in more:
        items.append((c['kind'] + '-scenario', c))
    odd = odd_cases(full)
    ctx.extra['odd_files_and_time_item_scenarios'] = len(odd)
    for c in odd:
        items.append((c['kind'] + '-scenario', c))
    if objlife_share:
        held = objlife_scenarios(full)
        ctx.extra['helper_objects_living_across_commands_scenarios'] = len(held)
        for c in held:
            items.append((c['kind'] + '-scenario', c))
    # the scripted scenario families are few and cheap: they run before the (larger) corpus
    for name, c in corpus:
        items.append(('corpus', c))
    ex = exhaustive_cases(exh_len, macro_len, shared_len, utd_len)
    ex.sort(key=lambda c: len(c['word'].split(':')[-1]))
    ctx.extra['exhaustive_small_scope'] = {
        'alphabet': len(EXH_ALPHABET), 'max_len': exh_len, 'macro_alphabet': len(EXH_MACRO),
        'macro_max_len': macro_len, 'shared_dep_two_tasks_alphabet': len(EXH_SHARED),
        'shared_dep_max_len': shared_len, 'uptodate_item_alphabet': len(EXH_UTD), 'uptodate_item_max_len': utd_len,
        'histories': len(ex),
        'filter': 'ends in run / failing run / reset-dep; plain words contain an earlier run or reset'}
    short = [c for c in ex if len(c['word'].split(':')[-1]) <= 3]
    rest = [c for c in ex if len(c['word'].split(':')[-1]) > 3]
    for c in short:
        items.append(('exhaustive', c))
    rnd = []
    for i in range(n_random):
        r = random_for(ctx, i)
        if seeds and r.random() < 0.15:
            rnd.append(('corpus-mutation', mutate_case(r, r.choice(seeds))))
        else:
            par = r.random() < parallel_share
            c = gen_case(r, parallel=par, rich=True)
            if not par and r.random() < sub_share:
                c['hashseed'] = r.randrange(1, 1000)
            if objlife_share and c.get('hashseed') is None:
                # opt-in (own random stream: the histories themselves are unchanged): the uptodate helper objects of
                # the history are created once and live across all its commands
                ro = random_for(ctx, 'objlife%d' % i)
                if ro.random() < objlife_share:
                    c['objlife'] = ro.choice(['module', 'module', 'task'])
            rnd.append(('random-parallel' if par else 'random', c))
    for i in range(n_info):
        rnd.append(('informational', gen_case(random_for(ctx, 'info%d' % i), informational=True)))
    # interleave the long exhaustive words with the random histories
    k = max(1, len(rest) // max(1, len(rnd))) if rnd else 1
    ri = 0
    for j, it in enumerate(rnd):
        items.append(it)
        for c in rest[ri:ri + k]:
            items.append(('exhaustive', c))
        ri += k
    for c in rest[ri:]:
        items.append(('exhaustive', c))
    size = 12
    batches = [(prop, items[i:i + size]) for i in range(0, len(items), size)]
    per_round = common.NCPU if ctx.tier == 'quick' else common.NCPU * 2
    done = 0
    for r0 in range(0, len(batches), per_round):
        if r0 > 0 and ctx.time_left() <= 0:
            break
        for st in common.pmap(process_batch, batches[r0:r0 + per_round]):
            st.merge_into(ctx)
        done = min(len(batches), r0 + per_round)
        if ctx.violations and len(ctx.violations) >= 5:
            break
    left = sum(len(b[1]) for b in batches[done:])
    ctx.extra['histories_planned'] = len(items)
    ctx.extra['histories_not_run_budget_exhausted'] = left
    if left:
        ctx.note('time budget of the tier used up: %d of %d planned histories were not run (corpus and the short '
                 'exhaustive words always run first)' % (left, len(items)))


def random_for(ctx, i):
    import random
    return random.Random(common.canon([ctx.seed, getattr(ctx, 'seed_shift', 0), ctx.prop, i]))


def replay_case(ctx, data, prop):
    w = data.get('witness') or {}
    case = w.get('case')
    if not case:
        print('nothing to replay (no failing input was found): %s' % data.get('note'))
        return False
    case = strip(case)
    print('\n'.join(render(case)))
    v = evaluate([case])[0]
    for i, o in enumerate(v.obs):
        if o['kind'] == 'run' and 'executed' in o:
            print('  step %d: %s -> exit %s: executed %s, up-to-date %s; inputs changed since the last successful '
                  'execution: %s' % (i, ' '.join(['doit'] + o['argv']), o['code'], o['executed'], o['skipped'], o['expected']))
        elif o['kind'] == 'run':
            print('  op %d: doit run -> exit %s: %s' % (i, o['code'], ', '.join('%s %s' % (tname(t), out)
                                                                             for t, out, _ in o['steps'])))
        elif o['kind'] == 'reset-dep':
            print('  op %d: reset-dep -> %s' % (i, o['reset']))
    print('C03 monitor (skipped => specification holds) false at:', v.c03)
    print('C04 monitor (executed without --always => specification fails) false at:', v.c04)
    print('correspondence:', v.divergence)
    if v.crash:
        print('doit crashed:', v.crash)
    bad = v.c03 if prop == 'C03' else v.c04
    return not bad and not (w.get('impl') is not None and v.divergence)


def _child_main():
    """one doit invocation in this (fresh) interpreter; request on stdin, answer as the last stdout line"""
    import sys
    req = json.loads(sys.stdin.read())
    common.use_repo()
    w = World(req['backend'], req['checker'], req['ntasks'], req['npaths'])
    w.defs = {int(t): d for t, d in req['defs'].items()}
    w.plan = req['plan']
    w.ckcls = req.get('ckcls')
    w.subsec, w.links, w.pathform = bool(req.get('subsec')), req.get('links'), req.get('pathform')
    rep = RecordingReporter() if req['want_events'] else None
    code, out, err = w.doit(req['argv'], rep)
    print(json.dumps({'code': code, 'out': out, 'err': err, 'events': rep.events if rep else []}))


if __name__ == '__main__':
    import sys
    if '--child' in sys.argv:
        _child_main()
