"""unit-level differential test of doit's uptodate helpers against lean/DoitModel/Model/UtdTools.lean

The REAL objects (`tools.run_once`, `tools.config_changed(x)`, `tools.timeout(l)`, `tools.check_timestamp_unchanged(...)`,
`task.result_dep(name)`) are driven the way doit drives them: a fresh `Task(uptodate=[item])` per command
(`Task._init_uptodate` -> `configure_task`), `Dependency.get_status(task, tasks_dict)` on a real `Dependency(JsonDB)`
re-opened for every command, and for a run the runner's sequence `task.save_extra_values()` + `save_success(task)` /
`remove_success(task)`.  `time.time` as seen by doit/tools.py is a fake clock in quarter seconds, files are real files
with `os.utime(ns=)` (ctime is whatever the kernel gives, observed after every change), results of other tasks are
written with `Dependency._set(name, 'result:', ...)`.

(K)+(P): every answer (yes / no / ignored / raised) and every saved `_values_:` dict of the implementation is compared
with the Lean model run on the same op sequence (driver mode `utdtools`); since the saved values are compared at
every save, a differing answer is a differing answer *on the same saved values and world*, i.e. the implementation
contradicts the `*_true_iff` theorem of Props/C04.lean -> violation.  Two statement-level Python predicates are
evaluated on the implementation alone: `never-yes-unrecorded` (C03 flavour) and `yes-right-after-success` (C04
flavour, with the theorem's side conditions).
"""
import datetime
import hashlib
import json
import operator
import os
import random
import shutil
import types

import common
from common import WorkerStats, canon

TPS = 4
HELPERS = ['once', 'config', 'tmo', 'stamp', 'res']

CFG_POOL = [
    ['str', ''], ['str', 'a'], ['str', 'b'], ['str', 'naïve'],
    ['dict', [['a', 1], ['b', 2]]], ['dict', [['b', 2], ['a', 1]]], ['dict', [['a', 1]]], ['dict', []],
    ['dict', [['a', 1], ['b', 3]]], ['dict', [['x', {'k': [1, 2], 'j': None}], ['a', 'ä']]],
    ['dict', [['a', 'ä'], ['x', {'j': None, 'k': [1, 2]}]]], ['bad'],
]
LIMIT_POOL = [['int', -1], ['int', 0], ['int', 1], ['int', 2], ['int', 5], ['int', 60],
              ['delta', {'seconds': 1}], ['delta', {'milliseconds': 1500}], ['delta', {'minutes': 1}],
              ['delta', {'days': 1}], ['delta', {'seconds': -1}], ['delta', {'microseconds': 500000}],
              ['delta', {'hours': 1, 'seconds': 30}], ['delta', {'days': 1, 'seconds': 2}]]
TIME_ARGS = {'atime': 'atime', 'access': 'atime', 'ctime': 'ctime', 'status': 'ctime', 'mtime': 'mtime',
             'modify': 'mtime'}
CMP_POOL = ['eq', 'eq', 'eq', 'ge', 'le', 'ne', 'lt', 'gt', ['const', True], ['const', False]]
RES_POOL = [None, ['str', 'r1'], ['str', 'r2'], ['dict', [['k', 'v']]], ['dict', [['k', 'w']]], ['dict', []]]
GROUPS = [None, ['d:a', 'd:b'], ['d:b', 'd:a'], ['d:a', 'other', 'd'], [], ['d:a'], ['dx:a', 'd:a', 'd:b']]
SUBS = ['d:a', 'd:b', 'other', 'dx:a']


# ------------------------------------------------------------------------------------------------ generation

def gen_change(rng, helper):
    if helper == 'tmo' or (helper != 'once' and rng.random() < 0.1):
        return ['tick', rng.choice([0, 1, 1, 2, 3, 4, 4, 5, 7, 8, 20, 240, 4 * 86400])]
    if helper == 'once':
        return ['tick', rng.choice([0, 1, 4])]
    if helper == 'config':
        return ['cfg', rng.choice(CFG_POOL)]
    if helper == 'stamp':
        if rng.random() < 0.2:
            return ['file', 'f0', None]
        return ['file', 'f0', [rng.randrange(0, 6), rng.randrange(0, 6)]]
    r = rng.random()
    if r < 0.4:
        return ['result', 'd', rng.choice(RES_POOL)]
    if r < 0.7:
        return ['result', rng.choice(SUBS), rng.choice([None, ['str', 'r1'], ['str', 'r2']])]
    return ['group', 'd', rng.choice(GROUPS)]


def gen_item(rng, helper):
    if helper == 'once':
        return ['once']
    if helper == 'config':
        return ['config']
    if helper == 'tmo':
        return ['tmo', rng.choice(LIMIT_POOL)]
    if helper == 'stamp':
        return ['stamp', 'f0', rng.choice(sorted(TIME_ARGS)), rng.choice(CMP_POOL)]
    return ['res', 'd']


def gen_case(rng, helper):
    ops = []
    # a world in which the helper can answer
    if helper == 'config':
        ops.append(['change', ['cfg', rng.choice(CFG_POOL[:-1])]])
    elif helper == 'stamp' and rng.random() < 0.85:
        ops.append(['change', ['file', 'f0', [rng.randrange(0, 6), rng.randrange(0, 6)]]])
    elif helper == 'res':
        for _ in range(rng.randint(0, 3)):
            ops.append(['change', gen_change(rng, helper)])
    for _ in range(rng.randint(3, 10)):
        r = rng.random()
        if r < 0.35:
            ops.append(['change', gen_change(rng, helper)])
        elif r < 0.65:
            ops.append(['query'])
        else:
            during = [gen_change(rng, helper) for _ in range(rng.choice([0, 0, 0, 1, 1, 2]))]
            ops.append(['run', rng.random() < 0.85, during])
    ops.append(['query'])
    return {'kind': 'utdtools', 'helper': helper, 'item': gen_item(rng, helper), 'ops': ops}


def corpus_cases():
    """hand-written: one per behaviour a calibration mutant breaks"""
    run, q = ['run', True, []], ['query']
    return [
        {'kind': 'utdtools', 'helper': 'tmo', 'item': ['tmo', ['int', 2]],
         'ops': [run, ['change', ['tick', 7]], q, ['change', ['tick', 1]], q, ['change', ['tick', 1]], q]},
        {'kind': 'utdtools', 'helper': 'tmo', 'item': ['tmo', ['delta', {'days': 1, 'seconds': 2}]],
         'ops': [run, ['change', ['tick', 4 * 86400 + 7]], q, ['change', ['tick', 1]], q]},
        {'kind': 'utdtools', 'helper': 'config', 'item': ['config'],
         'ops': [['change', ['cfg', CFG_POOL[4]]], run, q, ['change', ['cfg', CFG_POOL[5]]], q, run,
                 ['change', ['cfg', CFG_POOL[8]]], q]},
        {'kind': 'utdtools', 'helper': 'config', 'item': ['config'],
         'ops': [['change', ['cfg', CFG_POOL[4]]], ['run', True, [['cfg', CFG_POOL[8]]]], q,
                 ['change', ['cfg', CFG_POOL[4]]], q]},
        {'kind': 'utdtools', 'helper': 'stamp', 'item': ['stamp', 'f0', 'atime', 'eq'],
         'ops': [['change', ['file', 'f0', [1, 2]]], run, q, ['change', ['file', 'f0', [1, 3]]], q,
                 ['change', ['file', 'f0', [2, 3]]], q, ['change', ['file', 'f0', None]], q, run]},
        {'kind': 'utdtools', 'helper': 'stamp', 'item': ['stamp', 'f0', 'modify', 'ge'],
         'ops': [['change', ['file', 'f0', [3, 3]]], run, ['change', ['file', 'f0', [3, 2]]], q,
                 ['change', ['file', 'f0', [3, 4]]], q]},
        {'kind': 'utdtools', 'helper': 'res', 'item': ['res', 'd'],
         'ops': [['change', ['group', 'd', ['d:a', 'd:b', 'other']]], ['change', ['result', 'd:a', ['str', 'r1']]],
                 run, q, ['change', ['group', 'd', ['other', 'd:b', 'd:a']]], q,
                 ['change', ['result', 'd:b', ['str', 'r2']]], q, ['change', ['result', 'other', ['str', 'r2']]], q]},
        {'kind': 'utdtools', 'helper': 'res', 'item': ['res', 'd'],
         'ops': [run, q, ['change', ['result', 'd', ['str', 'r1']]], q, run, q,
                 ['change', ['group', 'd', []]], q, run, q]},
        {'kind': 'utdtools', 'helper': 'once', 'item': ['once'], 'ops': [q, run, q, ['run', False, []], q, run, q]},
    ]


# ------------------------------------------------------------------------------------------------ the two sides

def canon_text(pairs):
    """canonical JSON of a dict given by its items in insertion order (independent of doit)"""
    return json.dumps(dict((k, v) for k, v in pairs), sort_keys=True)


class Impl(object):
    """the implementation side of one case; also produces the driver request (ctime is an observation)"""

    def __init__(self, case, workdir):
        from doit import tools, task as dtask, dependency
        self.tools, self.dtask, self.dependency = tools, dtask, dependency
        self.case = case
        self.dir = workdir
        self.clock = 0
        self.cfg = None
        self.groups = {}
        self.db = os.path.join(workdir, 'db.json')
        self.ctimes = {}      # st_ctime_ns -> st_ctime (float)
        self.fpath = os.path.join(workdir, 'f0')
        self.model_ops = []
        self.item = None
        self.cur_tasks = None

    # -- world
    def model_change(self, c):
        if c[0] == 'cfg' and c[1][0] == 'dict':
            return ['cfg', ['dict', canon_text(c[1][1])]]
        if c[0] == 'file':
            if c[2] is None:
                return ['file', self.fpath, None]
            st = os.stat(self.fpath)
            self.ctimes[st.st_ctime_ns] = st.st_ctime
            return ['file', self.fpath, [c[2][0], c[2][1], st.st_ctime_ns]]
        return c

    def apply(self, c, dep, in_run=False):
        if c[0] == 'tick':
            self.clock += c[1]
        elif c[0] == 'cfg':
            new = self.make_cfg(c[1])
            if in_run and self.item is not None and hasattr(self.item, 'config'):
                # the action changes the config object the dodo file gave to config_changed
                if isinstance(self.item.config, dict) and isinstance(new, dict):
                    self.item.config.clear()
                    self.item.config.update(new)
                else:
                    self.item.config = new
            self.cfg = c[1]
        elif c[0] == 'file':
            if c[2] is None:
                if os.path.exists(self.fpath):
                    os.remove(self.fpath)
            else:
                if not os.path.exists(self.fpath):
                    open(self.fpath, 'w').close()
                q = 1000000000 // TPS
                os.utime(self.fpath, ns=(c[2][0] * q, c[2][1] * q))
        elif c[0] == 'result':
            dep._set(c[1], 'result:', self.py_val(c[2]))
        elif c[0] == 'group':
            self.groups[c[1]] = c[2]
            if in_run and self.cur_tasks is not None:
                # a delayed task creator replaced the placeholder by the real (group) task while the run went on
                self.cur_tasks[c[1]] = self.dep_task(c[1])
        return self.model_change(c)

    @staticmethod
    def py_val(v):
        if v is None:
            return None
        if v[0] == 'str':
            return v[1]
        if v[0] == 'dict':
            return dict((k, x) for k, x in v[1])
        raise ValueError(v)

    @staticmethod
    def make_cfg(v):
        if v is None:
            return ''
        if v[0] == 'str':
            return v[1]
        if v[0] == 'dict':
            return json.loads(json.dumps(dict((k, x) for k, x in v[1])), object_pairs_hook=dict)
        return [1, 2]

    # -- the helper object, as a dodo file would create it
    def make_item(self):
        it = self.case['item']
        t = self.tools
        if it[0] == 'once':
            return t.run_once
        if it[0] == 'config':
            return t.config_changed(self.make_cfg(self.cfg))
        if it[0] == 'tmo':
            lim = it[1]
            return t.timeout(lim[1] if lim[0] == 'int' else datetime.timedelta(**lim[1]))
        if it[0] == 'stamp':
            cmp = it[3]
            if isinstance(cmp, list):
                val = bool(cmp[1])
                fn = lambda prev, cur: val  # noqa
            else:
                fn = getattr(operator, cmp)
            return t.check_timestamp_unchanged(self.fpath, it[2], fn)
        return self.dtask.result_dep(it[1])

    def model_item(self):
        it = self.case['item']
        if it[0] == 'tmo' and it[1][0] == 'delta':
            td = datetime.timedelta(**it[1][1])
            return ['tmo', ['delta', td.days, td.seconds, td.microseconds]]
        if it[0] == 'stamp':
            return ['stamp', self.fpath, TIME_ARGS[it[2]], it[3]]
        return it

    def dep_task(self, name):
        g = self.groups.get(name)
        if g is None:
            return self.dtask.Task(name, None)
        return self.dtask.Task(name, None, has_subtask=True, task_dep=list(g))

    def tasks_dict(self, task):
        d = {'t': task}
        for name in set(self.groups) | {'d'}:
            d[name] = self.dep_task(name)
        self.cur_tasks = d
        return d

    def open(self):
        return self.dependency.Dependency(self.dependency.JsonDB, self.db)

    @staticmethod
    def err_name(ex):
        if isinstance(ex, OSError):
            return 'OSError'
        if 'Invalid type of config_changed' in str(ex):
            return 'badConfig'
        return 'exc:' + type(ex).__name__ + ':' + str(ex)[:60]

    def status(self, dep):
        """-> (task, answer)"""
        self.item = self.make_item()
        task = self.dtask.Task('t', None, uptodate=[self.item])
        try:
            res = dep.get_status(task, self.tasks_dict(task), get_log=True)
        except Exception as ex:  # noqa
            return task, ['raised', self.err_name(ex)]
        if res.status == 'up-to-date':
            return task, 'yes'
        if 'uptodate_false' in res.reasons:
            return task, 'no'
        if 'has_no_dependencies' in res.reasons:
            return task, 'ignored'
        return task, 'status:' + str(res.status) + ':' + ','.join(sorted(res.reasons))

    def run(self):
        """-> list of observations in the driver's format; self.model_ops is the model's op list"""
        tools = self.tools
        saved_tm = tools.time_module
        tools.time_module = types.SimpleNamespace(time=lambda: self.clock / float(TPS))
        obs = []
        try:
            for op in self.case['ops']:
                dep = self.open()
                try:
                    if op[0] == 'change':
                        self.model_ops.append(['change', self.apply(op[1], dep)])
                        obs.append(['changed'])
                    elif op[0] == 'query':
                        self.model_ops.append(['query'])
                        obs.append(['answered', self.status(dep)[1]])
                    else:
                        task, ans = self.status(dep)
                        if isinstance(ans, list):
                            obs.append(['statusError', ans[1]])
                            self.model_ops.append(['run', op[1], []])
                        elif ans == 'yes':
                            obs.append(['skipped'])
                            self.model_ops.append(['run', op[1], []])
                        else:
                            during = [self.apply(c, dep, in_run=True) for c in op[2]]
                            self.model_ops.append(['run', op[1], during])
                            if op[1]:
                                try:
                                    task.save_extra_values()
                                except Exception as ex:  # noqa
                                    obs.append(['saveError', ans, self.err_name(ex)])
                                else:
                                    dep.save_success(task)
                                    dep.close()
                                    dep = self.open()
                                    obs.append(['saved', ans, dep.get_values('t')])
                            else:
                                dep.remove_success(task)
                                obs.append(['failed', ans])
                finally:
                    dep.close()
        finally:
            tools.time_module = saved_tm
        return obs

    # -- the model's saved values as the Python values doit must have stored
    def expected_saved(self, msaved):
        out = {}
        for k, v in msaved:
            out[k] = self.expected_val(k, v)
        return out

    def expected_val(self, k, v):
        if v is None or v is True:
            return v
        if v[0] == 'str':
            if k == '_config_changed' and v[1].startswith('md5:'):
                return hashlib.md5(v[1][4:].encode('utf-8')).hexdigest()
            return v[1]
        if v[0] == 'num':
            if k.endswith('.st_ctime'):
                return self.ctimes.get(v[1], ('unknown ctime', v[1]))
            return v[1] / float(TPS)
        if v[0] == 'dict':
            return dict((a, b) for a, b in v[1])
        return ('?', v)


def evaluate(cases):
    """-> list of dicts: impl obs, model obs, first difference, monitor results"""
    common.use_repo()
    work = common.scratch_dir('utdtools')
    res, reqs, impls = [], [], []
    for i, case in enumerate(cases):
        d = os.path.join(work, 'c%d' % i)
        os.makedirs(d)
        im = Impl(case, d)
        try:
            obs = im.run()
            crash = None
        except Exception as ex:  # noqa  (a harness problem or an unexpected crash of doit: reported, never silent)
            obs, crash = [], type(ex).__name__ + ': ' + str(ex)[:200]
        impls.append((im, obs, crash))
        reqs.append({'model': 'status', 'mode': 'utdtools', 'tps': TPS, 'item': im.model_item(), 'ops': im.model_ops})
    answers = common.drv_batch(reqs)
    for case, (im, obs, crash), ans in zip(cases, impls, answers):
        r = {'case': case, 'impl': obs, 'model': ans.get('obs'), 'crash': crash, 'diff': None, 'monitor': []}
        if crash:
            r['diff'] = (len(obs), 'crash', crash, None)
        elif 'error' in ans:
            r['diff'] = (0, 'driver', ans['error'], None)
        else:
            r['diff'] = compare(im, obs, ans['obs'])
        r['monitor'] = monitors(case, obs)
        res.append(r)
    shutil.rmtree(work, ignore_errors=True)
    return res


def compare(im, impl, model):
    for i in range(max(len(impl), len(model))):
        if i >= len(impl) or i >= len(model):
            return (i, 'length', impl[i:i + 1], model[i:i + 1])
        a, b = impl[i], model[i]
        if a[0] == 'saved' and b[0] == 'saved':
            exp = im.expected_saved(b[2])
            if a[1] != b[1]:
                return (i, 'answer', a[:2], b[:2])
            if a[2] != exp or canon(a[2]) != canon(exp):
                return (i, 'saved-values', a[2], exp)
        elif a != b:
            return (i, 'answer' if a[0] in ('answered', 'skipped', 'saved', 'failed', 'statusError') else 'outcome', a, b)
    return None


def reflexive(cmp):
    return cmp in ('eq', 'ge', 'le') or (isinstance(cmp, list) and cmp[1])


def monitors(case, obs):
    """statement-level predicates on the implementation's observations alone"""
    bad = []
    recorded = False       # a successful execution recorded the helper's value and no failure wiped it since
    fresh = None           # index of a success with an empty `during` and no world change since
    item = case['item']
    for i, (op, o) in enumerate(zip(case['ops'], obs)):
        if o[0] in ('answered', 'skipped'):
            yes = (o[0] == 'skipped' or o[1] == 'yes')
            if yes and not recorded:
                bad.append((i, 'never-yes-unrecorded'))
            if fresh is not None and not yes:
                excused = (
                    (item[0] == 'tmo' and not limit_positive(item[1])) or
                    (item[0] == 'stamp' and not reflexive(item[3])) or
                    (item[0] == 'res' and fresh_saved_null(obs[fresh])) or
                    (item[0] == 'config' and fresh_saved_null(obs[fresh])))
                if not excused:
                    bad.append((i, 'yes-right-after-success'))
        if o[0] == 'saved':
            recorded = True
            fresh = i if not op[2] else None
        elif o[0] == 'failed':
            recorded = False
            fresh = None
        elif o[0] in ('changed', 'saveError'):
            # a zero tick is no change
            if not (o[0] == 'changed' and op[1][0] == 'tick' and op[1][1] == 0):
                fresh = None
    return bad


def limit_positive(lim):
    if lim[0] == 'int':
        return lim[1] > 0
    td = datetime.timedelta(**lim[1])
    return td.days * 86400 + td.seconds > 0


def fresh_saved_null(o):
    return any(v is None for v in o[2].values())


# ------------------------------------------------------------------------------------------------ check driver

def features(case, r, st):
    h = case['helper']
    st.count('utdtools:%s:cases' % h)
    for o in r['impl']:
        if o[0] == 'answered':
            a = o[1] if isinstance(o[1], str) else 'raised'
            st.count('utdtools:%s:answer:%s' % (h, a))
        elif o[0] != 'changed':
            st.count('utdtools:%s:run:%s' % (h, o[0]))
    it = case['item']
    if h == 'tmo':
        st.count('utdtools:tmo:limit:%s' % it[1][0])
    if h == 'stamp':
        st.count('utdtools:stamp:time=%s' % it[2])
        st.count('utdtools:stamp:cmp=%s' % (it[3] if isinstance(it[3], str) else 'const'))
    if h == 'config':
        kinds = set(op[1][1][0] for op in case['ops'] if op[0] == 'change' and op[1][0] == 'cfg')
        for k in kinds:
            st.count('utdtools:config:cfg:%s' % k)
        if any(op[0] == 'run' and any(c[0] == 'cfg' for c in op[2]) for op in case['ops']):
            st.count('utdtools:config:changed-during-execution')
    if h == 'res':
        if any(op[0] == 'change' and op[1][0] == 'group' and op[1][2] is not None for op in case['ops']):
            st.count('utdtools:res:group')
        else:
            st.count('utdtools:res:single')


def nontrivial(r):
    kinds = [o[0] for o in r['impl']]
    answers = set((o[1] if isinstance(o[1], str) else 'raised') for o in r['impl'] if o[0] == 'answered')
    return 'saved' in kinds and len(answers | ({'yes'} if 'skipped' in kinds else set())) >= 2


def fails(r):
    return bool(r['diff'] or r['monitor'])


def shrink(case, budget=40):
    """delta debugging on the op list (re-evaluating both sides)"""
    cur = case
    n = 0
    changed = True
    while changed and n < budget:
        changed = False
        for i in range(len(cur['ops'])):
            cand = dict(cur, ops=cur['ops'][:i] + cur['ops'][i + 1:])
            n += 1
            if cand['ops'] and fails(evaluate([cand])[0]):
                cur, changed = cand, True
                break
            if n >= budget:
                break
    return cur


def process_batch(arg):
    prop, cases = arg
    st = WorkerStats()
    results = evaluate(cases)
    shrunk = 0
    for case, r in zip(cases, results):
        st.case(case, nontrivial(r))
        features(case, r, st)
        if fails(r):
            if shrunk < 2:
                shrunk += 1
                small = shrink(case)
                r = evaluate([small])[0]
                case = small
            st.count('utdtools:%s:FAILED' % case['helper'])
            if r['monitor']:
                what = 'monitor %s false at op %d' % (r['monitor'][0][1], r['monitor'][0][0])
            else:
                what = 'helper %s: %s of the implementation differs from the Lean model at op %d' % (
                    case['helper'], r['diff'][1], r['diff'][0])
            st.violation({'case': case, 'impl': r['impl'], 'model': r['model'], 'diff': r['diff'],
                          'monitor': r['monitor']}, 'uptodate helper (tools.py / result_dep) vs UtdTools theorems', what)
    return st


def run(ctx, prop, n_random):
    import random as _r
    items = list(corpus_cases())
    for i in range(n_random):
        rng = _r.Random(canon([ctx.seed, getattr(ctx, 'seed_shift', 0), prop, 'utdtools', i]))
        items.append(gen_case(rng, HELPERS[i % len(HELPERS)]))
    size = max(8, (len(items) + common.NCPU - 1) // common.NCPU)
    batches = [(prop, items[i:i + size]) for i in range(0, len(items), size)]
    for st in common.pmap(process_batch, batches):
        st.merge_into(ctx)
    ctx.extra['utdtools_unit_cases'] = len(items)


def replay(ctx, data):
    w = data.get('witness') or {}
    case = w['case']
    print('uptodate helper unit case: item %s' % json.dumps(case['item']))
    r = evaluate([case])[0]
    for i, op in enumerate(case['ops']):
        io = r['impl'][i] if i < len(r['impl']) else None
        mo = r['model'][i] if r['model'] and i < len(r['model']) else None
        print('  op %d %s\n      doit : %s\n      model: %s' % (i, json.dumps(op), json.dumps(io, default=str),
                                                                json.dumps(mo)))
    print('first difference (op, what, doit, model):', r['diff'])
    print('monitors false at:', r['monitor'])
    if r['crash']:
        print('crash:', r['crash'])
    return not fails(r)
